"""pyvc.zsorts — mapping of api sorts to z3 sorts, symbolic value construction,
lifting of concrete Python values, and extraction of Python values from models."""
from __future__ import annotations
import z3
from . import api


class VStruct:
    """instance of a class: mutable record (reference semantics inside one path)"""
    __slots__ = ('sort', 'pycls', 'f', 'tag', 'oid')
    _next = [0]

    def __init__(self, sort, pycls, f, tag=None, oid=None):
        self.sort, self.pycls, self.f, self.tag = sort, pycls, f, tag
        if oid is None:
            VStruct._next[0] += 1
            oid = VStruct._next[0]
        self.oid = oid          # object identity: a snapshot (the entry state of the same object) keeps it

    def __repr__(self):
        return f'<{self.pycls.__name__ if self.pycls else self.sort} {self.f}>'


class VOpt:
    __slots__ = ('none', 'val')

    def __init__(self, none, val):
        self.none, self.val = none, val

    def __repr__(self):
        return f'Opt({self.none}, {self.val})'


class VBox:
    """mutable container: list / deque (Seq term), set (Array elem Bool), dict"""
    __slots__ = ('kind', 'term', 'esort', 'keys', 'vsort')

    def __init__(self, kind, term, esort=None, keys=None, vsort=None):
        self.kind, self.term, self.esort, self.keys, self.vsort = kind, term, esort, keys, vsort

    def __repr__(self):
        return f'Box[{self.kind}]({self.term})'


class VObj:
    """opaque object (uninterpreted sort Obj)"""
    __slots__ = ('term', 'cls')

    def __init__(self, term, cls=None):
        self.term, self.cls = term, cls

    def __repr__(self):
        return f'Obj({self.term})'


class VAbs:
    """element of an abstract totally pre-ordered sort"""
    __slots__ = ('term', 'sort')

    def __init__(self, term, sort):
        self.term, self.sort = term, sort

    def __repr__(self):
        return f'Abs({self.term})'


def resolve_member(expr):
    """enum member expression -> python object: 'pkg.mod:Qual.name' or a python expression over stdlib modules"""
    import importlib, operator, builtins
    if not isinstance(expr, str):
        return expr
    if ':' in expr and not expr.startswith(("'", '"')):
        m, q = expr.split(':')
        o = importlib.import_module(m)
        for part in q.split('.'):
            o = getattr(o, part)
        return o
    return eval(expr, {'operator': operator, '__builtins__': vars(builtins)})


class VFn:
    """opaque callable value"""
    __slots__ = ('name', 'sort')

    def __init__(self, name, sort):
        self.name, self.sort = name, sort


class VMatch:
    """abstract re.Match object: groups are uninterpreted functions of (pattern, method, subject)"""
    __slots__ = ('pattern', 'subject', 'method', 'offset')

    def __init__(self, pattern, subject, method, offset=0):
        self.pattern, self.subject, self.method, self.offset = pattern, subject, method, offset


class ZS:
    def __init__(self):
        self.unions = {}     # name -> (datatype, api.Union)
        self.interned = {}
        self.on_intern = None
        self.enums = {}      # name -> (sort, {label: term}, {label: pyobj})
        self.abstract = {}   # name -> (sort, rank fn)
        self.seq_eq = {}     # z3 seq sort name -> recfun
        self.obj = None
        self.enum_by_sort = {}
        self.union_by_sort = {}
        self.recs = {}
        self.obj_ids = {}
        self.rec_by_sort = {}

    # ------------------------------------------------------------ sorts
    def zsort(self, S):
        if S is api.Int:
            return z3.IntSort()
        if S is api.Bool:
            return z3.BoolSort()
        if S is api.Str:
            return z3.StringSort()
        if S is api.Obj:
            if self.obj is None:
                self.obj = z3.DeclareSort('Obj')
            return self.obj
        if isinstance(S, api.Seq):
            return z3.SeqSort(self.zsort(S.elem))
        if isinstance(S, api.Set):
            return z3.ArraySort(self.zsort(S.elem), z3.BoolSort())
        if isinstance(S, api.Union):
            if S.name not in self.unions:
                dt = z3.Datatype(S.name)
                for ctor, (pyt, arm) in S.arms.items():
                    dt.declare(ctor, (ctor.lower() + '_v', self.zsort(arm)))
                dt = dt.create()
                self.unions[S.name] = (dt, S)
                self.union_by_sort[dt.name()] = (dt, S)
            return self.unions[S.name][0]
        if isinstance(S, api.Enum):
            if S.name not in self.enums:
                labels = list(S.members)
                srt, consts = z3.EnumSort(S.name, labels)
                objs = {label: resolve_member(expr) for label, expr in S.members.items()}
                self.enums[S.name] = (srt, dict(zip(labels, consts)), objs, S)
                self.enum_by_sort[srt.name()] = self.enums[S.name]
            return self.enums[S.name][0]
        if isinstance(S, api.Rec):
            if S.name not in self.recs:
                dt = z3.Datatype(S.name)
                dt.declare('mk_' + S.name, *[(f'{S.name}_{k}', self.zsort(fs)) for k, fs in S.fields.items()])
                dt = dt.create()
                self.recs[S.name] = (dt, S)
                self.rec_by_sort[dt.name()] = (dt, S)
            return self.recs[S.name][0]
        if isinstance(S, api.Abstract):
            if S.name not in self.abstract:
                srt = z3.DeclareSort(S.name)
                self.abstract[S.name] = (srt, z3.Function('rank_' + S.name, srt, z3.IntSort()))
            return self.abstract[S.name][0]
        raise TypeError(f'no z3 sort for {S!r}')

    def bind_enum(self, S, resolver):
        """resolve the python objects of the enum members (resolver: expr text -> object)"""
        self.zsort(S)
        return self.enums[S.name]

    # ------------------------------------------------------------ symbolic values
    def sym(self, S, name, resolver=None):
        if isinstance(S, api.Struct):
            pycls = resolver(S.pycls) if (resolver and S.pycls) else None
            return VStruct(S, pycls, {k: self.sym(fs, f'{name}.{k}', resolver) for k, fs in S.fields.items()})
        if isinstance(S, api.Opt):
            return VOpt(z3.Bool(f'{name}?none'), self.sym(S.inner, name + '!', resolver))
        if isinstance(S, api.Deque):
            return VBox('deque', z3.Const(name, self.zsort(api.Seq(S.elem))), S.elem)
        if isinstance(S, api.List):
            return VBox('list', z3.Const(name, self.zsort(api.Seq(S.elem))), S.elem)
        if isinstance(S, api.Set):
            return VBox('set', z3.Const(name, self.zsort(S)), S.elem)
        if isinstance(S, api.Dict):
            ks, vs = self.zsort(S.key), self.zsort(S.val)
            return VBox('dict', z3.Const(name + '?has', z3.ArraySort(ks, z3.BoolSort())), S.key, S.val, z3.Const(name + '?val', z3.ArraySort(ks, vs)))
        if isinstance(S, api.TupleS):
            return tuple(self.sym(e, f'{name}.{i}', resolver) for i, e in enumerate(S.elems))
        if isinstance(S, api.Abstract):
            return VAbs(z3.Const(name, self.zsort(S)), S)
        if isinstance(S, api.Const):
            return S.value
        if isinstance(S, api.Fn):
            return VFn(S.fname or name, S)
        if isinstance(S, api.MatchS):
            pat = resolver(S.pattern_expr) if resolver else None
            return VMatch(pat, z3.Const(name + '?subject', z3.StringSort()), S.method)
        if S is api.Obj:
            return VObj(z3.Const(name, self.zsort(S)))
        if isinstance(S, api.Enum) and resolver:
            self.bind_enum(S, resolver)
        return z3.Const(name, self.zsort(S))

    # ------------------------------------------------------------ lifting
    def lift(self, v, zsort):
        """python concrete -> term of zsort (or v itself when already a term of that sort)"""
        if z3.is_expr(v):
            if v.sort() == zsort:
                return v
            # Int/Bool into a union arm
            if zsort.name() in self.union_by_sort:
                dt, S = self.union_by_sort[zsort.name()]
                for i, (ctor, (pyt, arm)) in enumerate(S.arms.items()):
                    if self.zsort(arm) == v.sort():
                        return dt.constructor(i)(v)
            if zsort == z3.IntSort() and v.sort() == z3.BoolSort():
                return z3.If(v, z3.IntVal(1), z3.IntVal(0))
            raise TypeError(f'cannot lift term of sort {v.sort()} to {zsort}')
        if isinstance(v, VAbs):
            return v.term
        if isinstance(v, VObj):
            return v.term
        if isinstance(v, VBox) and v.kind in ('list', 'deque') and v.term.sort() == zsort:
            return v.term
        if isinstance(v, VStruct) and self.obj is not None and zsort == self.obj:
            # an object stored where only its identity matters
            k = id(v)
            if k not in self.obj_ids:
                self.obj_ids[k] = (z3.Const(f'objid!{len(self.obj_ids)}', self.obj), v)
            return self.obj_ids[k][0]
        if zsort == z3.IntSort():
            if isinstance(v, (bool, int)):
                return z3.IntVal(int(v))
        if zsort == z3.BoolSort() and isinstance(v, bool):
            return z3.BoolVal(v)
        if zsort == z3.StringSort() and isinstance(v, str):
            return z3.StringVal(v)
        if zsort.name() in self.union_by_sort:
            dt, S = self.union_by_sort[zsort.name()]
            for i, (ctor, (pyt, arm)) in enumerate(S.arms.items()):
                if type(v) is pyt or (pyt is int and type(v) is bool):
                    return dt.constructor(i)(self.lift(v, self.zsort(arm)))
        if zsort.name() in self.enum_by_sort:
            srt, terms, objs, S = self.enum_by_sort[zsort.name()]
            for label, o in objs.items():
                if o is v or (isinstance(v, (str, int)) and type(o) is type(v) and o == v):
                    return terms[label]
            raise TypeError(f'{v!r} is not a member of enum {S.name}')
        if zsort.name() in self.rec_by_sort and isinstance(v, VStruct):
            # an immutable record object (dataclass / NamedTuple instance) stored as a value: field by field; a tuple field
            # X is spread over the record fields X_0, X_1, ...
            dt, S = self.rec_by_sort[zsort.name()]
            import re as _re
            vals = []
            for fn_, fs_ in S.fields.items():
                if fn_ in v.f:
                    x = v.f[fn_]
                else:
                    m_ = _re.match(r'(.+)_(\d+)$', fn_)
                    if not m_ or m_.group(1) not in v.f or not isinstance(v.f[m_.group(1)], tuple):
                        raise TypeError(f'record field {fn_} has no counterpart in the object')
                    x = v.f[m_.group(1)][int(m_.group(2))]
                if isinstance(x, VOpt):
                    raise TypeError('optional field in a record value')
                vals.append(self.lift(x.term if isinstance(x, (VObj, VAbs)) else x, self.zsort(fs_)))
            return dt.constructor(0)(*vals)
        if zsort.name() in self.rec_by_sort and isinstance(v, tuple):
            dt, S = self.rec_by_sort[zsort.name()]
            return dt.constructor(0)(*[self.lift(x, self.zsort(fs)) for x, fs in zip(v, S.fields.values())])
        if isinstance(zsort, z3.SeqSortRef) and isinstance(v, (tuple, list)):
            es = zsort.basis()
            if not v:
                return z3.Empty(zsort)
            units = [z3.Unit(self.lift(x, es)) for x in v]
            return units[0] if len(units) == 1 else z3.Concat(*units)
        if self.obj is not None and zsort == self.obj and not isinstance(v, (VStruct, VOpt, VBox)):
            # a concrete python object (module constant, table key) where an opaque object is expected: interned by python
            # equality; distinct interned objects are distinct (pyobj_id is their index)
            try:
                k = ('eq', type(v).__name__, v)
                hash(k)
            except TypeError:
                k = ('id', id(v))
            if k not in self.interned:
                self.interned[k] = (z3.Const(f'pyobj!{len(self.interned)}', self.obj), len(self.interned), v)
            c, n, _ = self.interned[k]
            if self.on_intern is not None:
                self.on_intern(z3.Function('pyobj_id', self.obj, z3.IntSort())(c) == n, c, v)
            return c
        raise TypeError(f'cannot lift {v!r} to {zsort}')

    def common(self, a, b):
        """lift a, b to a common sort"""
        if z3.is_expr(a) and z3.is_expr(b):
            if a.sort() == b.sort():
                return a, b
            try:
                return a, self.lift(b, a.sort())
            except TypeError:
                return self.lift(a, b.sort()), b
        if z3.is_expr(a):
            return a, self.lift(b, a.sort())
        if z3.is_expr(b):
            return self.lift(a, b.sort()), b
        raise TypeError('both concrete')

    # ------------------------------------------------------------ seq equality (python ==)
    def seq_eq_fn(self, zsort):
        k = str(zsort)
        if k not in self.seq_eq:
            nm = 'seq_eq_' + ''.join(ch if ch.isalnum() else '_' for ch in k)
            f = z3.RecFunction(nm, zsort, zsort, z3.IntSort(), z3.BoolSort())
            a, b, i = z3.Const('a', zsort), z3.Const('b', zsort), z3.Int('k')
            z3.RecAddDefinition(f, [a, b, i], z3.If(z3.Or(i >= z3.Length(a), i >= z3.Length(b), i < 0),
                                                    z3.Length(a) == z3.Length(b),
                                                    z3.And(a[i] == b[i], f(a, b, i + 1))))
            self.seq_eq[k] = f
        return self.seq_eq[k]

    def seq_rev_fn(self, zsort):
        """rev_upto(s, n) = reverse of s[:n] (index recursion)"""
        k = 'rev' + str(zsort)
        if k not in self.seq_eq:
            nm = 'seq_rev_' + ''.join(ch if ch.isalnum() else '_' for ch in str(zsort))
            f = z3.RecFunction(nm, zsort, z3.IntSort(), zsort)
            a, n = z3.Const('a', zsort), z3.Int('n')
            z3.RecAddDefinition(f, [a, n], z3.If(n <= 0, z3.Empty(zsort), z3.Concat(z3.Unit(a[n - 1]), f(a, n - 1))))
            self.seq_eq[k] = f
        return self.seq_eq[k]

    # ------------------------------------------------------------ model -> python
    def to_py(self, model, v, S=None):
        if isinstance(v, VStruct):
            return {'__struct__': v.sort.name if v.sort else None, **{k: self.to_py(model, x) for k, x in v.f.items()}}
        if isinstance(v, VOpt):
            n = model.eval(v.none, model_completion=True) if z3.is_expr(v.none) else v.none
            if z3.is_true(n) or n is True:
                return None
            return self.to_py(model, v.val)
        if isinstance(v, VMatch):
            return self.to_py(model, v.subject)
        if isinstance(v, VBox):
            if v.kind == 'dict':
                return {'__term__': 'dict'}
            if v.kind == 'set':
                return {'__set__': str(model.eval(v.term, model_completion=True))}
            r = self.to_py(model, v.term)
            return list(r) if not isinstance(r, list) else r
        if isinstance(v, (VAbs,)):
            _, rank = self.abstract[v.sort.name]
            return {'__abs__': v.sort.name, 'rank': self.to_py(model, rank(v.term))}
        if isinstance(v, VObj):
            return {'__obj__': str(model.eval(v.term, model_completion=True))}
        if isinstance(v, tuple):
            return tuple(self.to_py(model, x) for x in v)
        if not z3.is_expr(v):
            return v
        t = model.eval(v, model_completion=True)
        return self.term_to_py(t)

    def term_to_py(self, t):
        s = t.sort()
        if z3.is_int_value(t):
            return t.as_long()
        if z3.is_true(t):
            return True
        if z3.is_false(t):
            return False
        if z3.is_string_value(t):
            return t.as_string()
        if isinstance(s, z3.SeqSortRef) and not z3.is_string(t):
            return tuple(self._seq_elems(t))
        if s.name() in self.union_by_sort:
            return self.term_to_py(t.arg(0))
        if s.name() in self.enum_by_sort:
            srt, terms, objs, S = self.enum_by_sort[s.name()]
            for label, c in terms.items():
                if c.eq(t):
                    return {'__enum__': S.name, 'label': label}
        if s.name() in self.rec_by_sort:
            return tuple(self.term_to_py(c) for c in t.children())
        return {'__term__': str(t)}

    def _seq_elems(self, t):
        if t.decl().kind() == z3.Z3_OP_SEQ_EMPTY:
            return []
        if t.decl().kind() == z3.Z3_OP_SEQ_UNIT:
            return [self.term_to_py(t.arg(0))]
        if t.decl().kind() == z3.Z3_OP_SEQ_CONCAT:
            out = []
            for c in t.children():
                out += self._seq_elems(c)
            return out
        return [{'__term__': str(t)}]
