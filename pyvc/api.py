"""pyvc.api — contract language (sidecar side).  No z3 import here: this module is
imported both by the prover (python3-vt) and by the native replay / bounded layer
(/venv/bin/python, the interpreter of the test suite).

A contract is attached to a *real* function of /repo, addressed by
(file relative to /repo, qualified name as in the source: Class.method,
outer.<locals>.inner).  The text of requires/ensures/invariants is plain Python;
it is translated to SMT by pyvc.engine and evaluated natively by pyvc.native.
"""
from __future__ import annotations
import typing as T


# --------------------------------------------------------------------------- sorts
class Sort:
    name = '?'

    def __repr__(self):
        return self.name


class Prim(Sort):
    def __init__(self, name):
        self.name = name


Int = Prim('Int')
Bool = Prim('Bool')
Str = Prim('Str')
Obj = Prim('Obj')          # opaque object (uninterpreted sort)


class Seq(Sort):
    """immutable homogeneous sequence (tuple[T, ...]) — value semantics"""
    def __init__(self, elem):
        self.elem = elem
        self.name = f'Seq[{elem}]'


class List(Seq):
    """mutable list — a box holding a Seq term; aliasing by reference inside one path"""
    kind = 'list'

    def __init__(self, elem):
        self.elem = elem
        self.name = f'List[{elem}]'


class Deque(List):
    kind = 'deque'

    def __init__(self, elem):
        self.elem = elem
        self.name = f'Deque[{elem}]'


class Set(Sort):
    def __init__(self, elem):
        self.elem = elem
        self.name = f'Set[{elem}]'


class Dict(Sort):
    """dict: Array K (Option V) + ghost key sequence (insertion order)"""
    def __init__(self, key, val):
        self.key, self.val = key, val
        self.name = f'Dict[{key},{val}]'


class Opt(Sort):
    def __init__(self, inner):
        self.inner = inner
        self.name = f'Opt[{inner}]'


class Union(Sort):
    """tagged union of python types, e.g. Union('IS', I=(int, Int), S=(str, Str))"""
    def __init__(self, name, **arms):
        self.name = name
        self.arms = arms          # ctor -> (pytype, Sort)


class Enum(Sort):
    """finite set of python constants; members: label -> dotted python expression
    evaluated in the module under analysis (e.g. 'operator.lt'), or a literal"""
    def __init__(self, name, members: T.Dict[str, str]):
        self.name = name
        self.members = members


class Struct(Sort):
    """instance of a real class: record of the fields the contract talks about."""
    def __init__(self, name_, pycls: str, **fields):
        self.name = name_
        self.pycls = pycls        # 'module.path:QualName'
        self.fields = fields


class Abstract(Sort):
    """abstract element sort with a total preorder (rank into Int).  Justified per
    use by lemmas showing the concrete type's comparison is a total preorder."""
    def __init__(self, name):
        self.name = name


class Const(Sort):
    """a parameter fixed to a concrete python value in this (case of the) contract"""
    def __init__(self, value):
        self.value = value
        self.name = f'Const({value!r})'


class Rec(Sort):
    """immutable record / tuple with named components as ONE SMT value (usable as a sequence element);
    python side: a tuple in field order"""
    def __init__(self, name_, fields_=None, **fields):
        self.name = name_
        self.fields = dict(fields_ or {}, **fields)


class MatchS(Sort):
    """an abstract re.Match object of the given compiled pattern (python expression evaluated in the module, or
    'module:attr' / a callable returning the pattern)"""
    def __init__(self, pattern_expr, method='search'):
        self.pattern_expr, self.method = pattern_expr, method
        self.name = f'Match[{pattern_expr}]'


class Fn(Sort):
    """an opaque callable parameter: applying it is an uninterpreted function of its arguments (assumed pure)"""
    def __init__(self, args, ret, name=None):
        self.args, self.ret, self.fname = list(args), ret, name
        self.name = f'Fn[{name}]'


class TupleS(Sort):
    def __init__(self, *elems):
        self.elems = elems
        self.name = 'Tuple[' + ','.join(map(repr, elems)) + ']'


# --------------------------------------------------------------------------- contracts
class Loop:
    def __init__(self, invariant=(), locals=None, decreases=None, modifies=None):
        self.invariant = list(invariant)
        self.locals = locals or {}          # name -> Sort for locals that must be made symbolic at havoc
        self.decreases = decreases
        self.modifies = modifies            # extra lvalue expressions to havoc


class Contract:
    def __init__(self, prop, file, qual, params=None, requires=(), ensures=(), raises=None,
                 loops=None, modifies=(), ghosts=None, inline=False, trusted=False,
                 covers=(), native=None, result=None, note='', exact_raises=True,
                 dropped=(), opaque=None, floor=1, name=None, pure_result=False,
                 assumes=(), variant='', uses=(), abstract_classes=None, reveal=(), cases=None, yields=None, then_call=None, pure_expr=None, shards=1, returns=None, opaque_attrs=None, opaque_fns=None, pure_ignores_raises=False, effects=None, method_effects=None, on_raise=(), region=None, opaque_classes=(), native_classes=(), ghost_seqs=None, opaque_globals=None, volatile_attrs=None):
        self.prop = prop
        self.file = file
        self.qual = qual
        self.params = params or {}          # name -> Sort (entry shape of each parameter)
        self.requires = list(requires)
        self.ensures = list(ensures)
        self.raises = raises or {}          # exception class name -> condition text (on entry values)
        self.exact_raises = exact_raises    # normal return  =>  no raises-condition holds
        self.loops = loops or {}            # loop ordinal -> Loop
        self.modifies = list(modifies)      # lvalue texts that may change ('self.pre', ...); everything else framed
        self.ghosts = ghosts or {}
        self.inline = inline                # callers inline the body instead of using the contract
        self.trusted = trusted              # contract is ASSUMED (not verified); listed in the evidence
        self.covers = list(covers)          # conditions on entry values that must be satisfiable (vacuity guard)
        self.native = native                # NativeBinding: how to build real arguments from concrete values
        self.result = result                # Sort of the result (needed when used as a callee contract)
        self.note = note
        self.dropped = list(dropped)        # what extraction drops for this function (decorators, ...)
        self.opaque = opaque or {}          # methods of opaque objects: name -> ([arg sorts], result sort), uninterpreted
        self.floor = floor                  # minimal number of obligations expected
        self.name = name or qual
        self.pure_result = pure_result
        self.assumes = list(assumes)        # extra assumptions (each listed in the evidence)
        self.uses = list(uses)              # instances of proved lemmas: (lemma name, {var: text})
        self.abstract_classes = abstract_classes or {}
        self.opaque_attrs = opaque_attrs or {}    # attributes of opaque objects: name -> Sort (uninterpreted functions of the object)
        self.opaque_fns = opaque_fns or {}      # global functions treated as uninterpreted here: name -> ([arg sorts], ret sort)
        self.pure_ignores_raises = pure_ignores_raises   # usable in pure contexts although it may raise: the caller's requires exclude the raise condition
        self.effects = effects or {}            # global functions that are effects: name -> [exception names they may raise]; recorded in __trace__
        self.method_effects = method_effects or {}   # methods of objects that are effects: name -> [exception names] (recorded in __trace__)
        self.opaque_globals = opaque_globals or {}   # module-level objects (name -> Sort) replaced by an arbitrary symbolic value of that sort for this proof: the contract says nothing about them, writes stay inside the model
        self.volatile_attrs = volatile_attrs or {}   # attributes of opaque objects that the outside world changes (Process.returncode): every read is a fresh unknown value
        self.ghost_seqs = ghost_seqs or {}      # ghost sequences of effect arguments: name -> (event name, index into the event tuple, element sort); symbolic, usable in loop invariants
        self.on_raise = list(on_raise)          # exceptional postconditions: hold whenever an exception escapes (names: __trace__, __exc__)
        self.native_classes = list(native_classes)   # immutable value classes of the repo that may be constructed natively from concrete arguments
        self.opaque_classes = list(opaque_classes)   # names of external classes whose instances are opaque objects here (pathlib.Path ...)
        self.region = region                    # (statement type name, text it must contain): verify only that statement of the function, the params being its live-in variables
        self.returns = returns              # name of the parameter object the function returns (aliasing: `return self`)
        self.shards = shards                # discharge the obligations of this function in that many parallel workers
        self.yields = yields                # element sort of the ghost sequence of yielded values (generators)
        self.then_call = then_call          # (list of ghost param names): the returned closure is called on them; ensures see `result2`
        self.pure_expr = pure_expr          # text E such that `result == E` is an ensures clause: usable in pure contexts (quantified callers)
        self.cases = cases or {}            # param -> list of concrete values: verification is split per value (must be exhaustive under requires)
        self.reveal = list(reveal)          # opaque spec functions whose definition this proof needs
        self.variant = variant              # several contracts (input classes) on one function
        if variant and name is None:
            self.name = f'{qual}[{variant}]'

    @property
    def key(self):
        return (self.file, self.qual, self.variant)


class Lemma:
    """forall vars. requires => goal, proved by induction schema given as explicit
    (base, step) obligations or directly.  All texts are Python over spec functions."""
    def __init__(self, prop, name, vars, goal, requires=(), ih=(), measure=None, uses=(), note='', cases=(), reveal=(), hints=()):
        self.prop = prop
        self.name = name
        self.vars = vars                    # name -> Sort
        self.goal = goal
        self.requires = list(requires)
        self.ih = list(ih)                  # induction hypothesis instances: [{var: text}], each guarded by measure decrease
        self.measure = measure              # text of an integer measure (clamped at 0) — well-founded induction
        self.uses = list(uses)              # instances of other lemmas: (name, {var: text})
        self.reveal = list(reveal)
        self.hints = list(hints)            # intermediate facts: each is proved first (own obligation), then assumed for the goal
        self.cases = list(cases)            # optional case split texts (each case a separate obligation)
        self.note = note


class Registry:
    def __init__(self):
        self.contracts: T.Dict[T.Tuple[str, str, str], Contract] = {}
        self.lemmas: T.Dict[str, Lemma] = {}
        self.specs: T.Dict[str, 'SpecFn'] = {}
        self.consts: T.Dict[str, T.Any] = {}
        self.customs: T.Dict[str, T.Any] = {}      # name -> (prop, generator(engine) -> [Obligation], note)

    def contract(self, *a, **k):
        c = Contract(*a, **k)
        self.contracts[c.key] = c
        return c

    def custom(self, prop, name, gen, note=''):
        """obligations produced by a sidecar generator from the live code (tables, ASTs), discharged like any other"""
        self.customs[name] = (prop, gen, note)

    def lookup(self, file, qual):
        """the contract callers see (the main variant)"""
        return self.contracts.get((file, qual, ''))

    def candidates(self, file, qual):
        return [c for (f, q, v), c in self.contracts.items() if f == file and q == qual]

    def lemma(self, *a, **k):
        l = Lemma(*a, **k)
        self.lemmas[l.name] = l
        return l

    def spec(self, sorts, ret, uninterpreted=False, opaque=False):
        """decorator: register a pure Python spec function with its SMT signature"""
        def deco(fn):
            s = SpecFn(fn, sorts, ret, uninterpreted, opaque)
            self.specs[fn.__name__] = s
            return fn
        return deco


class SpecFn:
    def __init__(self, fn, sorts, ret, uninterpreted=False, opaque=False):
        self.fn = fn
        self.name = fn.__name__
        self.sorts = list(sorts)
        self.ret = ret
        self.uninterpreted = uninterpreted
        self.opaque = opaque                # hidden (an uninterpreted symbol) unless a contract/lemma reveals it


# helpers usable in spec functions, natively
def unit(x):
    return (x,)


EMPTY = ()


def implies(a, b):
    return (not a) or b


# native meaning of the abstract regex / set helpers (the prover maps them to SMT symbols)
def re_match(p, s, method='match'):
    return getattr(p, method)(s) is not None


def re_group(p, k, s, method='match'):
    m = getattr(p, method)(s)
    return (m.group(k) or '') if m else ''


def re_group_none(p, k, s, method='match'):
    m = getattr(p, method)(s)
    return m is None or m.group(k) is None


def shlex_quote(s):
    import shlex
    return shlex.quote(s)


def emptyset(*a):
    return set()


def rangeset(*a):
    return set(range(*a))


def setadd(s, x):
    return set(s or ()) | {x}


def rev(s):
    return tuple(reversed(tuple(s)))
