"""pyvc.src — mechanical extraction of the functions under contract from /repo.

Every run re-reads the file under REPO, parses it with `ast`, and finds the
FunctionDef by qualified name.  Nothing is copied by hand.  What extraction
drops is recorded per function: decorators (named), annotations, docstrings.
"""
from __future__ import annotations
import ast, hashlib, os, sys, importlib

REPO = os.environ.get('VERIF_REPO', '/repo')
if REPO not in sys.path:
    sys.path.insert(0, REPO)


class FuncSrc:
    def __init__(self, file, qual, node, cls, text, lines, modname):
        self.file, self.qual, self.node, self.cls = file, qual, node, cls
        self.text, self.lines, self.modname = text, lines, modname
        self.sha256 = hashlib.sha256(text.encode()).hexdigest()
        self.decorators = [ast.unparse(d) for d in node.decorator_list]
        self.loops = [n for n in _walk_fn(node) if isinstance(n, (ast.For, ast.AsyncFor, ast.While))]
        self.loop_ord = {id(n): i for i, n in enumerate(self.loops)}

    def dropped(self):
        d = []
        if self.decorators:
            d.append('decorators: ' + ', '.join(self.decorators))
        d.append('type annotations (never assumed)')
        if isinstance(self.node, ast.AsyncFunctionDef) or any(isinstance(n, ast.AsyncFor) for n in _walk_fn(self.node)):
            d.append('async / async for: analysed as the sequential consumption of the iterated events (no suspension point inside the function changes its own state)')
        if ast.get_docstring(self.node):
            d.append('docstring')
        return d


def _walk_fn(fn):
    """walk a function body in source order without entering nested defs/lambdas/classes"""
    out = []

    def rec(n):
        for c in ast.iter_child_nodes(n):
            if isinstance(c, (ast.FunctionDef, ast.AsyncFunctionDef, ast.Lambda, ast.ClassDef)):
                continue
            out.append(c)
            rec(c)
    rec(fn)
    return out


_cache = {}


def parse_file(file):
    path = os.path.join(REPO, file)
    st = os.stat(path)
    k = (path, st.st_mtime_ns, st.st_size)
    if k not in _cache:
        text = open(path, encoding='utf-8').read()
        _cache[k] = (text, ast.parse(text))
    return _cache[k]


def modname_of(file):
    m = file[:-3].replace('/', '.')
    if m.endswith('.__init__'):
        m = m[:-9]
    return m


_found = {}


def find(file, qual) -> FuncSrc:
    text, tree = parse_file(file)
    k = (file, qual, id(tree))
    if k in _found:
        return _found[k]
    fs = _find(file, qual, text, tree)
    _found[k] = fs
    return fs


def _find(file, qual, text, tree) -> FuncSrc:
    node = tree
    cls = None
    for part in qual.split('.'):
        if part == '<locals>':
            continue
        found = None
        body = node.body
        # search statements in order, also inside if/try at module or class level
        stack = list(body)
        cands = []
        while stack:
            n = stack.pop(0)
            if isinstance(n, (ast.FunctionDef, ast.AsyncFunctionDef, ast.ClassDef)):
                if n.name == part:
                    cands.append(n)
                continue
            for f in ('body', 'orelse', 'finalbody', 'handlers'):
                stack[0:0] = [c for c in getattr(n, f, []) if isinstance(c, ast.AST)]
        if not cands:
            raise KeyError(f'{file}: {qual}: {part} not found')
        found = cands[-1]          # last definition wins, as in Python
        if len(cands) > 1 and node is tree:
            # several definitions under `if` at module level (platform variants): the one that is LIVE in the imported module
            try:
                import inspect
                live = inspect.unwrap(getattr(import_module(file), part))
                ln = live.__code__.co_firstlineno
                for c_ in cands:
                    if ln in ([c_.lineno] + [d_.lineno for d_ in c_.decorator_list]):
                        found = c_
            except Exception:
                pass
        if isinstance(node, ast.ClassDef) or isinstance(found, ast.ClassDef):
            pass
        if isinstance(found, ast.ClassDef):
            cls = found.name
        node = found
    if not isinstance(node, (ast.FunctionDef, ast.AsyncFunctionDef)):
        raise KeyError(f'{file}: {qual} is not a function')
    parts = [p for p in qual.split('.') if p != '<locals>']
    owner = parts[-2] if len(parts) >= 2 and '<locals>' not in qual else None
    seg = ast.get_source_segment(text, node) or ''
    return FuncSrc(file, qual, node, owner, seg, (node.lineno, node.end_lineno), modname_of(file))


def import_module(file_or_mod):
    if REPO not in sys.path:
        sys.path.insert(0, REPO)
    m = modname_of(file_or_mod) if file_or_mod.endswith('.py') else file_or_mod
    return importlib.import_module(m)


def resolve_attr(obj, dotted):
    for p in dotted.split('.'):
        if p == '<locals>':
            raise KeyError('local function has no module-level object')
        obj = getattr(obj, p)
    return obj
