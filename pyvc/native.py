"""pyvc.native — the same sidecar contracts executed natively on the REAL functions
(imported from /repo, run by the interpreter of the test suite).  No z3 here.

Used for (a) replay of solver counter-models, (b) the bounded stand-in layer,
(c) `./check --replay <file>`.
"""
from __future__ import annotations
import builtins, copy, importlib, itertools, json, os, sys, traceback, operator
from . import api

REPO = os.environ.get('VERIF_REPO', '/repo')
if REPO not in sys.path:
    sys.path.insert(0, REPO)


class ReqNotMet(Exception):
    pass


def resolve_member(expr):
    if not isinstance(expr, str):
        return expr
    if ':' in expr and not expr.startswith(("'", '"')):
        m, q = expr.split(':')
        o = importlib.import_module(m)
        for part in q.split('.'):
            o = getattr(o, part)
        return o
    return eval(expr, {'operator': operator, '__builtins__': vars(builtins)})


def modname_of(file):
    m = file[:-3].replace('/', '.')
    return m[:-9] if m.endswith('.__init__') else m


def real_function(c):
    mod = importlib.import_module(modname_of(c.file))
    obj = mod
    parts = c.qual.split('.')
    if '<locals>' in parts:
        raise LookupError('local function: needs a native binding')
    cls = None
    for p in parts:
        if p.startswith('__') and not p.endswith('__') and cls is not None:
            p = f'_{cls.__name__.lstrip("_")}{p}'
        obj = getattr(obj, p) if not isinstance(obj, type) else obj.__dict__.get(p, None) or getattr(obj, p)
        if isinstance(obj, type):
            cls = obj
        if isinstance(obj, (staticmethod, classmethod)):
            obj = obj.__func__
    return mod, obj


class AbsElem:
    """stand-in element of an abstract totally pre-ordered sort: ordered by rank only"""
    def __init__(self, rank, tag=0):
        self.rank, self.tag = rank, tag

    def __lt__(self, o): return self.rank < o.rank
    def __le__(self, o): return self.rank <= o.rank
    def __gt__(self, o): return self.rank > o.rank
    def __ge__(self, o): return self.rank >= o.rank
    def __eq__(self, o): return isinstance(o, AbsElem) and self.rank == o.rank
    def __ne__(self, o): return not self.__eq__(o)
    def __hash__(self): return hash(self.rank)
    def __repr__(self): return f'E{self.rank}' + (f"'{self.tag}" if self.tag else '')


def build(S, v):
    """JSON-ish model value -> real python value of sort S"""
    if isinstance(S, api.Opt):
        return None if v is None else build(S.inner, v)
    if isinstance(S, api.Struct):
        cls = resolve_member(S.pycls)
        if issubclass(cls, tuple) and hasattr(cls, '_fields'):
            return cls(*[build(S.fields[k], v.get(k) if isinstance(v, dict) else getattr(v, k)) for k in cls._fields])
        o = object.__new__(cls)
        for k, fs in S.fields.items():
            val = build(fs, v.get(k) if isinstance(v, dict) else getattr(v, k))
            if isinstance(val, int) and not isinstance(val, bool):
                # a field modelled as an integer whose declared type is an IntEnum (MachineChoice): the member with that value
                try:
                    import enum, sys as _sys
                    ann = getattr(cls, '__annotations__', {}).get(k)
                    if isinstance(ann, str):
                        ann = eval(ann, vars(_sys.modules[cls.__module__]))
                    if isinstance(ann, type) and issubclass(ann, enum.IntEnum):
                        val = ann(val)
                except ReqNotMet:
                    raise
                except ValueError:
                    raise ReqNotMet(f'{k}={val} is not a member of the enumeration')
                except Exception:
                    pass
            try:
                object.__setattr__(o, k, val)
            except AttributeError:
                pass
        return o
    if isinstance(S, api.Enum):
        if isinstance(v, dict) and '__enum__' in v:
            return resolve_member(S.members[v['label']])
        return v
    if isinstance(S, api.Abstract):
        if isinstance(v, dict):
            return AbsElem(v.get('rank', 0))
        return v
    if isinstance(S, api.Deque):
        import collections
        return collections.deque(build(S.elem, x) for x in v)
    if isinstance(S, api.List):
        return [build(S.elem, x) for x in v]
    if isinstance(S, api.Seq):
        return tuple(build(S.elem, x) for x in v)
    if isinstance(S, api.Set):
        if isinstance(v, dict) and '__set__' in v:
            import re as _re
            return set(int(x) for x in _re.findall(r'Store\([^,]*?,\s*(-?\d+),\s*True\)', v['__set__'])) if 'Store' in v['__set__'] else set()
        return set(build(S.elem, x) for x in v) if not isinstance(v, dict) else set()
    if isinstance(S, api.TupleS):
        return tuple(build(e, x) for e, x in zip(S.elems, v))
    if isinstance(S, api.MatchS):
        import mesonbuild.utils.universal as _u
        pat = eval(S.pattern_expr, vars(_u)) if not callable(S.pattern_expr) else S.pattern_expr()
        m = getattr(pat, S.method)(v if isinstance(v, str) else '')
        if m is None:
            raise ReqNotMet('the model subject does not match the pattern')
        return m
    if isinstance(S, api.Dict):
        return dict(v) if isinstance(v, dict) and '__term__' not in v else {}
    if isinstance(S, api.Fn):
        raise ReqNotMet('callable parameter: no native stand-in')
    if isinstance(S, api.Union):
        return v
    return v


def text_env(reg, c, mod, universe):
    env = dict(vars(builtins))
    if mod is not None:
        env.update({k: v for k, v in vars(mod).items() if not k.startswith('__')})
    for nm, sp in reg.specs.items():
        env[nm] = sp.fn
    env.update(reg.consts)
    env.update({'Int': api.Int, 'Str': api.Str, 'Bool': api.Bool, 'operator': operator})

    def forall(*a):
        *sorts, f = a
        doms = [universe(s) for s in sorts]
        return all(f(*xs) for xs in itertools.product(*doms))

    def exists(*a):
        *sorts, f = a
        doms = [universe(s) for s in sorts]
        return any(f(*xs) for xs in itertools.product(*doms))

    def seq_eq_from(a, b, k):
        return tuple(a)[k:] == tuple(b)[k:] and (len(a) == len(b) or (k >= len(a) and k >= len(b) and len(a) == len(b)))
    env.update(forall=forall, exists=exists, implies=lambda a, b: (not a) or b, unit=lambda x: (x,), EMPTY=(),
               old=lambda x: x, rev=lambda s_: tuple(reversed(tuple(s_))), rangeset=lambda *a: set(range(*a)), setadd=lambda s_, x: set(s_ or ()) | {x}, emptyset=lambda *a: set(), shlex_quote=__import__('shlex').quote, re_match=lambda p, s_, m='match': getattr(p, m)(s_) is not None, re_group=lambda p, k, s_, m='match': (getattr(p, m)(s_).group(k) or '') if getattr(p, m)(s_) else '', re_group_none=lambda p, k, s_, m='match': getattr(p, m)(s_) is None or getattr(p, m)(s_).group(k) is None, ite=lambda c_, a, b: a if c_ else b, seq_eq_from=seq_eq_from)
    return env


def default_universe(values):
    """finite universes for quantifiers, derived from the values in play"""
    ranks = sorted({v.rank for v in values if isinstance(v, AbsElem)} | {0})
    lo, hi = ranks[0] - 1, ranks[-1] + 1
    elems = [AbsElem(r) for r in range(lo, hi + 1)]

    def universe(S):
        if isinstance(S, api.Abstract):
            return elems
        if S is api.Bool:
            return [False, True]
        if S is api.Int:
            return list(range(-2, 4))
        raise ReqNotMet(f'no finite universe for {S}')
    return universe


def flatten_values(x, out):
    if isinstance(x, (list, tuple, set)):
        for y in x:
            flatten_values(y, out)
    elif hasattr(x, '__dict__') and not isinstance(x, type):
        out.append(x)
        for y in vars(x).values():
            flatten_values(y, out)
    else:
        out.append(x)
    return out


def run_contract(reg, c, args: dict, universe=None):
    """execute the real function on concrete arguments under contract c.
    -> dict(ok=bool, stage=..., detail=...)   ReqNotMet when the input is outside the precondition"""
    if c.native is not None:
        return c.native(reg, c, args)
    mod, fn = real_function(c)
    vals = flatten_values(list(args.values()), [])
    universe = universe or default_universe(vals)
    env = text_env(reg, c, mod, universe)
    entry = copy.deepcopy(args)
    live = args
    e0 = dict(env)
    e0.update(entry)
    for t in list(c.requires) + list(c.assumes):
        if not eval(t.strip(), e0):
            raise ReqNotMet(t)
    expected_exc = None
    for exc, cond in c.raises.items():
        if eval(cond.strip(), e0):
            expected_exc = exc
            break
    import inspect
    params = list(inspect.signature(fn).parameters)
    call_args = [live[p] for p in params if p in live]
    try:
        result = fn(*call_args)
        is_gen = inspect.isgenerator(result)
        if is_gen:
            result = list(result)
    except Exception as ex:
        names = [k.__name__ for k in type(ex).__mro__]
        for exc in c.raises:
            if exc in names:
                if eval(c.raises[exc].strip(), e0):
                    return {'ok': True, 'stage': 'raises', 'detail': f'{type(ex).__name__}: {ex}'}
                return {'ok': False, 'stage': f'raises[{exc}]', 'detail': f'raised {type(ex).__name__}: {ex} although its condition `{c.raises[exc]}` is false'}
        return {'ok': False, 'stage': 'unexpected-exception', 'detail': f'{type(ex).__name__}: {ex}', 'traceback': traceback.format_exc()[-1500:]}
    if expected_exc is not None and c.exact_raises:
        return {'ok': False, 'stage': f'no-raise[{expected_exc}]', 'detail': f'returned {result!r} although `{c.raises[expected_exc]}` holds (expected {expected_exc})'}
    e1 = dict(env)
    e1.update(entry)
    e1['result'] = result
    e1['__yield__'] = result if (c.yields is not None or isinstance(result, list)) else []
    if c.then_call is not None:
        try:
            e1['result2'] = result(*[live[g] for g in c.then_call])
        except Exception as ex:
            return {'ok': False, 'stage': 'unexpected-exception', 'detail': f'calling the returned function: {type(ex).__name__}: {ex}'}

    def new(x):
        for k, v in entry.items():
            if v is x:
                return live[k]
        raise KeyError('new() of a non-parameter')
    e1['new'] = new
    for j, t in enumerate(c.ensures):
        try:
            ok = eval(t.strip(), e1)
        except ReqNotMet:
            raise
        except Exception as ex:
            # a harness problem, not a property violation
            raise RuntimeError(f'evaluating `{t}` natively raised {type(ex).__name__}: {ex}')
        if not ok:
            return {'ok': False, 'stage': f'post#{j}', 'detail': f'`{t}` is false', 'result': repr(result)[:500]}
    # frame
    mods = set(c.modifies)
    for k, S in c.params.items():
        if isinstance(S, api.Struct) and k not in mods:
            for fld in S.fields:
                if f'{k}.{fld}' in mods:
                    continue
                a, b = getattr(entry[k], fld, None), getattr(live[k], fld, None)
                if not _same(a, b):
                    return {'ok': False, 'stage': f'frame[{k}.{fld}]', 'detail': f'{k}.{fld} changed from {a!r} to {b!r}'}
        elif isinstance(S, (api.List, api.Set)) and k not in mods:
            if entry[k] != live[k]:
                return {'ok': False, 'stage': f'frame[{k}]', 'detail': f'{k} changed'}
    return {'ok': True, 'stage': 'post', 'result': repr(result)[:300]}


def _same(a, b):
    if isinstance(a, AbsElem) or isinstance(b, AbsElem):
        return isinstance(a, AbsElem) and isinstance(b, AbsElem) and a.rank == b.rank and a.tag == b.tag
    if hasattr(a, '__dict__') and hasattr(b, '__dict__') and type(a) is type(b) and not isinstance(a, type):
        return all(_same(x, y) for x, y in zip(vars(a).values(), vars(b).values())) and vars(a).keys() == vars(b).keys()
    try:
        return a == b
    except Exception:
        return a is b


def args_from_inputs(c, inputs):
    d = {k: build(S, inputs.get(k)) for k, S in c.params.items()}
    d.update({k: build(S, inputs.get(k)) for k, S in c.ghosts.items()})
    return d


def replay_inputs(reg, c, inputs):
    """replay a solver counter-model.  -> (status, info); status in reproduced | not-reproduced | req-not-met | error"""
    def has_opaque(S):
        if S is api.Obj or isinstance(S, api.Fn):
            return True
        if isinstance(S, (api.Opt,)):
            return has_opaque(S.inner)
        if isinstance(S, api.Struct):
            return any(has_opaque(x) for x in S.fields.values())
        if isinstance(S, (api.Seq, api.Set)):
            return has_opaque(S.elem)
        if isinstance(S, api.Dict):
            return has_opaque(S.key) or has_opaque(S.val)
        return False
    if c.effects or c.opaque_fns or c.opaque or c.opaque_attrs or any(has_opaque(S) for S in c.params.values()) or any('__trace__' in t for t in c.ensures):
        return 'not-replayable', {'detail': 'the contract abstracts effects / opaque objects: a model of it is not a concrete input of the real function'}
    try:
        args = args_from_inputs(c, inputs)
    except Exception as ex:
        return 'error', {'detail': f'cannot build arguments: {type(ex).__name__}: {ex}'}
    try:
        r = run_contract(reg, c, args)
    except ReqNotMet as ex:
        return 'req-not-met', {'detail': str(ex)}
    except Exception as ex:
        return 'error', {'detail': f'{type(ex).__name__}: {ex}', 'traceback': traceback.format_exc()[-1500:]}
    return ('not-reproduced' if r['ok'] else 'reproduced'), r
