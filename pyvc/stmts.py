"""pyvc.stmts — statement execution (mixin of the engine)."""
from __future__ import annotations
import ast
import z3
from . import api
from .core import simp, Unsupported, PathEnd, ReturnSig, BreakSig, ContinueSig, PyRaise
from .zsorts import VStruct, VOpt, VBox, VObj, VAbs
from .interp import Frame, Closure, BoundMethod, is_sym, contains_sym, MUTATORS
from .exprs import PyList, PyDict


def _mro_names(cls):
    out = set()
    for k in getattr(cls, '__mro__', ()):
        if k is not object:
            out.update(vars(k))
    return out


class StmtMixin:
    def exec_block(self, stmts, fr):
        for s in stmts:
            self.exec(s, fr)

    def exec(self, s, fr):
        m = getattr(self, 'ex_' + type(s).__name__, None)
        if m is None:
            raise Unsupported(f'statement {type(s).__name__}')
        self.stats['stmts'] += 1
        return m(s, fr)

    # ---------------------------------------------------------------- simple statements
    def ex_Pass(self, s, fr):
        pass

    def ex_Expr(self, s, fr):
        if isinstance(s.value, ast.Constant):
            return
        if isinstance(s.value, ast.Yield):
            v = self.ev(s.value.value, fr) if s.value.value is not None else None
            ys = self.path.yields
            if isinstance(ys, VBox):
                ys.term = z3.Concat(ys.term, z3.Unit(self.zs.lift(v, ys.term.sort().basis())))
            else:
                ys.append(v)
            return
        if isinstance(s.value, ast.YieldFrom):
            v = self.ev(s.value.value, fr)
            if isinstance(v, GenResult):
                return
            for x in self.concrete_iter(v, s):
                self.path.yields.append(x)
            return
        self.ev(s.value, fr)

    def ex_Assign(self, s, fr):
        v = self.ev(s.value, fr)
        for t in s.targets:
            self.assign(t, v, fr)

    def ex_AnnAssign(self, s, fr):
        if s.value is None:
            return
        self.assign(s.target, self.ev(s.value, fr), fr)

    def ex_AugAssign(self, s, fr):
        load = copy_load(s.target)
        cur = self.ev(load, fr)
        v = self.ev(s.value, fr)
        if isinstance(cur, VBox) and isinstance(s.op, ast.Add) and cur.kind in ('list', 'deque'):
            # list += iterable mutates in place
            cur.term = z3.Concat(cur.term, self.as_seq(v, cur.term.sort()))
            return
        if isinstance(cur, PyList) and isinstance(s.op, ast.Add):
            cur.items.extend(self.concrete_iter(v, s))
            return
        if isinstance(cur, VStruct) and cur.pycls is not None:
            dn = {ast.Add: '__iadd__'}.get(type(s.op))
            from .interp import _mro_dict
            if dn and dn in _mro_dict(cur.pycls):
                res = self.call_method(cur, dn, [v])
                self.assign(s.target, res, fr)
                return
        self.assign(s.target, self.binop(s.op, cur, v, s), fr)

    def as_seq(self, v, zsort):
        if isinstance(v, VBox):
            return v.term
        if isinstance(v, PyList):
            return self.zs.lift(tuple(v.items), zsort)
        if isinstance(v, (tuple, list)):
            return self.zs.lift(tuple(v), zsort)
        if z3.is_expr(v) and v.sort() == zsort:
            return v
        raise Unsupported('not a sequence')

    def assign(self, t, v, fr):
        if isinstance(t, ast.Name):
            fr.env[t.id] = v
        elif isinstance(t, (ast.Tuple, ast.List)):
            if isinstance(v, VOpt):
                v = self.unwrap(v, t)
            if isinstance(v, PyList):
                v = tuple(v.items)
            if z3.is_expr(v) and v.sort().name() in self.zs.rec_by_sort:
                dt, S = self.zs.rec_by_sort[v.sort().name()]
                v = [simp(dt.accessor(0, i)(v)) for i in range(len(S.fields))]
            if not isinstance(v, (tuple, list)):
                items = None
                if isinstance(v, VBox) or z3.is_expr(v):
                    items = self.seq_concrete_items(simp(self.seqterm(v)))
                if items is None:
                    raise Unsupported('unpacking a symbolic sequence')
                v = items
            if len(v) != len(t.elts):
                raise PyRaise(ValueError, (), t, implicit=True)
            for tt, vv in zip(t.elts, v):
                self.assign(tt, vv, fr)
        elif isinstance(t, ast.Attribute):
            base = self.ev(t.value, fr)
            if isinstance(base, VOpt):
                base = self.unwrap(base, t)
            if isinstance(base, VObj):
                # mutation of an opaque object: an effect
                self.path.trace.append(('setattr', base, t.attr, v))
                # ... and the code reads the new value back afterwards (contract text keeps speaking of the entry state)
                if not hasattr(self.path, 'obj_writes'):
                    self.path.obj_writes = []
                self.path.obj_writes.append((base.term, t.attr, v))
                return
            if isinstance(base, ExcVal):
                base.__dict__.setdefault('attrs', {})[t.attr] = v          # location attributes set on a caught exception object
                return
            if not isinstance(base, VStruct):
                raise Unsupported(f'attribute store on {type(base).__name__}')
            base.f[self.mangle(t.attr, fr)] = v
        elif isinstance(t, ast.Subscript):
            base = self.ev(t.value, fr)
            self.store_subscript(base, t, v, fr)
        else:
            raise Unsupported(f'assignment target {type(t).__name__}')

    def store_subscript(self, base, t, v, fr):
        if isinstance(base, PyDict):
            k = self.ev(t.slice, fr)
            if is_sym(k):
                raise Unsupported('symbolic key store into concrete dict')
            base.d[k] = v
            return
        if isinstance(base, PyList) and not isinstance(t.slice, ast.Slice):
            k = self.ev(t.slice, fr)
            if is_sym(k):
                raise Unsupported('symbolic index store into concrete list')
            base.items[k] = v
            return
        if isinstance(base, VBox) and base.kind == 'dict':
            k = self.zs.lift(self.unwrap(self.ev(t.slice, fr), t), base.term.sort().domain())
            base.term = z3.Store(base.term, k, True)
            base.vsort = z3.Store(base.vsort, k, self.zs.lift(v, base.vsort.sort().range()))
            return
        if isinstance(base, VBox) and base.kind in ('list', 'deque'):
            term = base.term
            n = z3.Length(term)
            if isinstance(t.slice, ast.Slice):
                lo = self.ev(t.slice.lower, fr) if t.slice.lower else None
                hi = self.ev(t.slice.upper, fr) if t.slice.upper else None
                l = z3.IntVal(0) if lo is None else self.norm_index(lo, n)
                h = n if hi is None else self.norm_index(hi, n)
                h = z3.If(h < l, l, h)
                mid = self.as_seq(v, term.sort())
                base.term = simp(z3.Concat(z3.SubSeq(term, 0, l), mid, z3.SubSeq(term, h, n - h)))
                return
            idx = self.ev(t.slice, fr)
            if isinstance(idx, int):
                ok = (n > idx) if idx >= 0 else (n >= -idx)
                pos = z3.IntVal(idx) if idx >= 0 else n + idx
            else:
                ok = z3.And(idx >= -n, idx < n)
                pos = z3.If(idx < 0, idx + n, idx)
            self.index_guard(ok, t)
            x = self.zs.lift(v, term.sort().basis())
            base.term = simp(z3.Concat(z3.SubSeq(term, 0, pos), z3.Unit(x), z3.SubSeq(term, pos + 1, n - pos - 1)))
            return
        raise Unsupported('subscript store')

    def ex_Delete(self, s, fr):
        for t in s.targets:
            if isinstance(t, ast.Name):
                fr.env.pop(t.id, None)
            elif isinstance(t, ast.Subscript):
                base = self.ev(t.value, fr)
                if isinstance(base, VBox) and base.kind in ('list', 'deque') and not isinstance(t.slice, ast.Slice):
                    term = base.term
                    n = z3.Length(term)
                    idx = self.ev(t.slice, fr)
                    if isinstance(idx, int):
                        ok = (n > idx) if idx >= 0 else (n >= -idx)
                        pos = z3.IntVal(idx) if idx >= 0 else n + idx
                    else:
                        ok = z3.And(idx >= -n, idx < n)
                        pos = z3.If(idx < 0, idx + n, idx)
                    self.index_guard(ok, t)
                    base.term = simp(z3.Concat(z3.SubSeq(term, 0, pos), z3.SubSeq(term, pos + 1, n - pos - 1)))
                elif isinstance(base, PyDict):
                    k = self.ev(t.slice, fr)
                    if is_sym(k) or k not in base.d:
                        raise Unsupported('del dict key')
                    del base.d[k]
                elif isinstance(base, VBox) and base.kind == 'dict':
                    k = self.zs.lift(self.unwrap(self.ev(t.slice, fr), t), base.term.sort().domain())
                    has = z3.Select(base.term, k)
                    if self.implicit_as_paths:
                        if not self.path.branch(has):
                            raise PyRaise(KeyError, (), t, implicit=True)
                    else:
                        self.oblige('safety:key', has, t)
                        self.path.assume(has)
                    base.term = z3.Store(base.term, k, False)
                else:
                    raise Unsupported('del subscript')
            else:
                raise Unsupported('del target')

    def ex_Return(self, s, fr):
        raise ReturnSig(self.ev(s.value, fr) if s.value is not None else None)

    def ex_Break(self, s, fr):
        raise BreakSig()

    def ex_Continue(self, s, fr):
        raise ContinueSig()

    def ex_Import(self, s, fr):
        for a in s.names:
            import importlib
            m = importlib.import_module(a.name)
            fr.env[(a.asname or a.name).split('.')[0]] = m if a.asname else importlib.import_module(a.name.split('.')[0])

    def ex_ImportFrom(self, s, fr):
        import importlib
        pkg = fr.module.__package__ if fr.module is not None else None
        m = importlib.import_module('.' * s.level + (s.module or ''), pkg) if s.level else importlib.import_module(s.module)
        of = getattr(self.cur_contract, 'opaque_fns', None) or {}
        ef = getattr(self.cur_contract, 'effects', None) or {}
        for a in s.names:
            if (a.asname or a.name) in of or (a.asname or a.name) in ef:
                continue          # declared opaque / an effect by the contract: the local import does not shadow that declaration
            fr.env[a.asname or a.name] = getattr(m, a.name)

    def ex_Global(self, s, fr):
        raise Unsupported('global')

    def ex_Nonlocal(self, s, fr):
        fr.nonlocals = getattr(fr, 'nonlocals', set()) | set(s.names)
        # make stores go to the defining frame
        for n in s.names:
            f = fr.parent
            while f is not None and n not in f.env:
                f = f.parent
            if f is None:
                raise Unsupported('nonlocal without binding')
        raise Unsupported('nonlocal')

    def ex_Assert(self, s, fr):
        c = self.truth(self.ev(s.test, fr))
        cc = getattr(self, 'cur_contract', None)
        if cc is not None and 'AssertionError' in (cc.raises or {}) and fr.fs is not None and fr.contract is cc:
            # the contract of the function under verification lists AssertionError as a possible outcome: a failing assert is a
            # raising path of that function, not a proof obligation
            if not (c if isinstance(c, bool) else self.path.branch(c)):
                raise PyRaise(AssertionError, (), s)
            return
        self.oblige('safety:assert', c, s)
        self.path.assume(c)

    def ex_Raise(self, s, fr):
        if s.exc is None:
            if getattr(fr, 'handling', None) is not None:
                raise fr.handling
            raise Unsupported('bare raise outside handler')
        v = self.ev(s.exc, fr)
        if isinstance(v, ExcVal):
            raise PyRaise(v.cls, v.args, s)
        if isinstance(v, type) and issubclass(v, BaseException):
            raise PyRaise(v, (), s)
        raise Unsupported(f'raise of {v!r}')

    def ex_FunctionDef(self, s, fr):
        fs = None
        if fr.fs is not None:
            from . import src
            try:
                fs = src.find(fr.fs.file, fr.fs.qual + '.<locals>.' + s.name)
            except KeyError:
                fs = None
        fr.env[s.name] = Closure(s, fr, fs)

    # ---------------------------------------------------------------- control flow
    def ex_If(self, s, fr):
        c = None
        if isinstance(s.test, ast.BoolOp) and self.is_simple(s.test):
            ok, v = self.ev_merged(s.test, fr)
            if ok:
                c = self.truth(v)
        if c is None:
            c = self.truth(self.ev(s.test, fr))
        d = c if isinstance(c, bool) else self.path.branch(c)
        self.exec_block(s.body if d else s.orelse, fr)

    def ex_AsyncWith(self, s, fr):
        return self.ex_With(s, fr)

    def ex_With(self, s, fr):
        ctxvals = []
        for item in s.items:
            v = self.ev(item.context_expr, fr)
            ctxvals.append(v)
            self.path.trace.append(('with-enter', ast.unparse(item.context_expr)[:40]))
            if item.optional_vars is not None:
                self.assign(item.optional_vars, v, fr)
        import contextlib
        try:
            try:
                self.exec_block(s.body, fr)
            except PyRaise as ex:
                # contextlib.suppress(...): the listed exceptions end the block quietly
                if not any(isinstance(cv_, contextlib.suppress) and issubclass(ex.cls, cv_._exceptions) for cv_ in ctxvals):
                    raise
        finally:
            self.path.trace.append(('with-exit',))

    def ex_Try(self, s, fr):
        try:
            try:
                # implicit exceptions raised inside a try body are explicit paths (a handler may catch them)
                saved_iap = self.implicit_as_paths
                if s.handlers:
                    self.implicit_as_paths = True
                try:
                    self.exec_block(s.body, fr)
                finally:
                    self.implicit_as_paths = saved_iap
            except PyRaise as ex:
                for h in s.handlers:
                    if self.exc_matches(ex, h, fr):
                        if h.name:
                            fr.env[h.name] = ExcVal(ex.cls, ex.args_)
                        prev = getattr(fr, 'handling', None)
                        fr.handling = ex
                        try:
                            self.exec_block(h.body, fr)
                        finally:
                            fr.handling = prev
                        break
                else:
                    raise
            else:
                self.exec_block(s.orelse, fr)
        finally:
            if s.finalbody:
                self.exec_block(s.finalbody, fr)

    def exc_matches(self, ex, h, fr):
        if h.type is None:
            return True
        t = self.ev(h.type, fr)
        ts = t if isinstance(t, tuple) else (t,)
        return any(isinstance(c, type) and issubclass(ex.cls, c) for c in ts)

    # ---------------------------------------------------------------- loops
    def ex_AsyncFor(self, s, fr):
        return self.ex_For(s, fr)

    def ex_For(self, s, fr):
        it = self.ev(s.iter, fr)
        it = self.unwrap(it, s)
        if type(it).__name__ == 'VStruct' and getattr(it, 'pycls', None) is not None and '__iter__' in _mro_names(it.pycls):
            # iteration protocol of a repo class: `for x in obj` is `for x in obj.__iter__()`; the call is modular (checked
            # against the contract of __iter__, which also carries the method's effects on obj); the iterator it returns is
            # read as the sequence the contract denotes
            it = self.unwrap(self.call_method(it, '__iter__', [], None, s), s)
        sym_seqs = self.symbolic_iter(it)
        if sym_seqs is None:
            items = self.concrete_iter(it, s)
            broke = False
            for x in items:
                self.assign(s.target, x, fr)
                try:
                    self.exec_block(s.body, fr)
                except BreakSig:
                    broke = True
                    break
                except ContinueSig:
                    continue
            if not broke:
                self.exec_block(s.orelse, fr)
            return
        if not self.has_loop_contract(s, fr):
            items = self.const_length_items(sym_seqs)
            if items is not None:
                broke = False
                for x in items:
                    self.assign(s.target, x, fr)
                    try:
                        self.exec_block(s.body, fr)
                    except BreakSig:
                        broke = True
                        break
                    except ContinueSig:
                        continue
                if not broke:
                    self.exec_block(s.orelse, fr)
                return
        self.inv_loop(s, fr, sym_seqs)

    def has_loop_contract(self, s, fr):
        f = fr
        while f is not None and f.fs is None:
            f = f.parent
        return f is not None and f.contract is not None and f.fs.loop_ord.get(id(s)) in f.contract.loops

    def const_length_items(self, view, maxlen=4):
        """if the path condition fixes the length of the iterated sequence to a small constant, unroll exactly"""
        n = view.length()
        sol = z3.Solver()
        sol.set('timeout', 2000)
        for c in self.path.pc:
            sol.add(c)
        for k in range(maxlen + 1):
            sol.push()
            sol.add(n != k)
            r = sol.check()
            sol.pop()
            if r == z3.unsat:
                return [view.at(z3.IntVal(j)) for j in range(k)]
        return None

    def symbolic_iter(self, it):
        """-> None if concretely iterable, else ('seq'|'zip'|'rev'|'enum', [seq terms])"""
        if isinstance(it, IterView):
            return it
        if isinstance(it, VBox) and it.kind == 'set' and it.term is not None:
            # iteration order of a set: an arbitrary permutation, different at every iteration site (hash seed,
            # insertion history) — anything that depends on it is not a function of the set
            nonce = self.path.fresh(z3.IntSort(), 'iter_nonce')
            seqsort = z3.SeqSort(it.term.sort().domain())
            order = self.ufun('iter_order_' + ''.join(c for c in str(seqsort) if c.isalnum()), it.term.sort(), z3.IntSort(), seqsort)(it.term, nonce)
            self.iter_info[order.get_id()] = it.term
            self.iter_box = getattr(self, 'iter_box', {})
            self.iter_box[order.get_id()] = it
            self.assumptions.add('iteration over a set yields an arbitrary order (fresh permutation per iteration site)')
            return IterView('seq', [order])
        if isinstance(it, VBox) and it.kind == 'dict':
            return IterView('dict', [], parts=[(it, 'keys')])
        if isinstance(it, VBox) and it.kind in ('list', 'deque') or (z3.is_expr(it) and isinstance(it.sort(), z3.SeqSortRef) and not z3.is_string(it)):
            t = simp(self.seqterm(it))
            if self.seq_concrete_items(t) is not None:
                return None
            return IterView('seq', [t])
        return None

    def loop_contract(self, s, fr):
        f = fr
        while f is not None and f.fs is None:
            f = f.parent
        if f is None or f.contract is None:
            raise Unsupported('loop over symbolic sequence outside a function under contract')
        k = f.fs.loop_ord.get(id(s))
        if k is None:
            raise Unsupported('loop not found in function index')
        lc = f.contract.loops.get(k)
        if lc is None:
            # a loop may also be addressed by a piece of its header text ('for key in potential_removed_keys'), which survives
            # the insertion of another loop before it
            head = ast.unparse(s).split('\n', 1)[0]
            for needle, cand in f.contract.loops.items():
                if isinstance(needle, str) and needle in head:
                    lc = cand
                    break
        if lc is None:
            raise Unsupported(f'loop {k} of {f.fs.qual} over a symbolic sequence needs an invariant')
        return k, lc, f

    def loop_targets(self, s):
        """syntactic over-approximation of what the loop body may modify: (names, lvalue exprs)"""
        names, lvals = set(), []
        for n in ast.walk(s):
            if isinstance(n, ast.Name) and isinstance(n.ctx, ast.Store):
                names.add(n.id)
            elif isinstance(n, (ast.Attribute, ast.Subscript)) and isinstance(n.ctx, (ast.Store, ast.Del)):
                lvals.append(n)
            elif isinstance(n, ast.AugAssign):
                lvals.append(n.target)
            elif isinstance(n, ast.Call) and isinstance(n.func, ast.Attribute) and n.func.attr in MUTATORS:
                lvals.append(n.func.value)
        return names, lvals

    def inv_loop(self, s, fr, view, guard_node=None):
        p = self.path
        k, lc, cf = self.loop_contract(s, fr)
        names, lvals = self.loop_targets(s)
        tnames = {n.id for n in ast.walk(s.target) if isinstance(n, ast.Name)} if isinstance(s, (ast.For, ast.AsyncFor)) else set()

        if (view is not None and view.kind == 'seq' and view.seqs[0].get_id() in getattr(self, 'iter_box', {})
                and any('__seen' in t_ for t_ in lc.invariant)):
            # a for loop over a SET whose invariant speaks of the elements visited so far: the same ghost protocol as for the
            # keys of a dict (every element exactly once, arbitrary order; the set is not resized meanwhile)
            view = IterView('dict', [], parts=[(self.iter_box[view.seqs[0].get_id()], 'keys')])
        dictview = view is not None and view.kind == 'dict'

        def state_env(i):
            if dictview:
                # iteration over dict(s): the ghost state is the set of keys visited so far, per iterated dict
                env = {f'__seen{j}': VBox('set', t_, view.parts[j][0].esort) for j, t_ in enumerate(i)}
                env['__seen'] = env['__seen0']
                return env
            env = {'__i': i}
            if view is not None and view.kind == 'seq':
                env['__seq'] = view.seqs[0]          # the sequence being iterated
            return env

        def inv_terms(i):
            f2 = Frame(None, state_env(i), fr.module, fr, cf.contract)
            f2.extra = dict(self.contract_names(cf))
            out = []
            for txt in lc.invariant:
                out.append((txt, self.ev_text(txt, f2)))
            return out

        n = view.length() if (view is not None and not dictview) else None
        if dictview:
            snap = [(b.term, b.vsort) for b, _m in view.parts]
            empty = [z3.K(h.sort().domain(), False) for h, _v in snap]
        # ---- init
        for j, (txt, g) in enumerate(inv_terms(list(empty) if dictview else 0)):
            self.oblige(f'inv-init#loop{k}.{j}', g, s, txt)
        # ---- havoc
        for nm in sorted(names - tnames):
            if nm in lc.locals:
                fr.env[nm] = self.sym_of_sort(lc.locals[nm], nm, fr)
            elif nm in fr.env:
                v = fr.env[nm]
                if isinstance(v, (VBox, VStruct)):
                    fr.env[nm] = self.fresh_like(v, nm)
                elif isinstance(v, (PyList, PyDict)):
                    raise Unsupported(f'loop-modified concrete container {nm}: declare its sort in Loop.locals')
                else:
                    fr.env[nm] = self.fresh_like(v, nm)
        for g_ in list(getattr(p, 'gseq', None) or {}):
            p.gseq[g_] = p.fresh(p.gseq[g_].sort(), g_)          # ghost sequences of effects: arbitrary at the loop head, constrained by the invariant
        if isinstance(p.yields, VBox) and any(isinstance(n_, (ast.Yield, ast.YieldFrom)) for n_ in ast.walk(s)):
            self.havoc_inplace(p.yields, '__yield__')
        havocked = {nm for nm in names - tnames if nm in lc.locals}
        handler_names = {h.name for n_ in ast.walk(s) if isinstance(n_, ast.Try) for h in n_.handlers if h.name}
        for lv in lvals:
            root = lv
            # havoc the object the lvalue lives in
            try:
                if isinstance(lv, ast.Name):
                    obj = self.ev(lv, fr)
                    if lv.id in lc.locals:
                        if lv.id not in havocked:
                            fr.env[lv.id] = self.sym_of_sort(lc.locals[lv.id], lv.id, fr)
                            havocked.add(lv.id)
                        continue
                    if isinstance(obj, (VBox, VStruct)):
                        self.havoc_inplace(obj, lv.id)
                    elif isinstance(obj, PyList):
                        raise Unsupported(f'loop-mutated concrete list {lv.id}: declare its sort in Loop.locals')
                elif isinstance(lv, ast.Attribute):
                    if isinstance(lv.value, ast.Name) and lv.value.id not in fr.env and lv.value.id in handler_names:
                        continue          # an attribute of the exception object bound by a handler inside the loop: born in the body
                    base = self.ev(lv.value, fr)
                    if isinstance(base, VStruct):
                        a = self.mangle(lv.attr, fr)
                        cur = base.f.get(a)
                        if isinstance(cur, (VBox, VStruct)):
                            self.havoc_inplace(cur, a)
                        elif cur is not None:
                            base.f[a] = self.fresh_like(cur, a)
                        else:
                            raise Unsupported(f'havoc of None field {a}')
                elif isinstance(lv, ast.Subscript):
                    if isinstance(lv.value, ast.Name) and lv.value.id in lc.locals:
                        if lv.value.id not in havocked:
                            fr.env[lv.value.id] = self.sym_of_sort(lc.locals[lv.value.id], lv.value.id, fr)
                            havocked.add(lv.value.id)
                        continue
                    base = self.ev(lv.value, fr)
                    if isinstance(base, (VBox, VStruct)):
                        self.havoc_inplace(base, 'sub')
                    else:
                        raise Unsupported('havoc of subscript base')
            except Unsupported:
                raise
        if dictview:
            # arbitrary reachable iteration state: seen_j subset of dict_j; a later dict is started only when the earlier
            # ones are exhausted (itertools.chain)
            i = [p.fresh(h.sort(), f'__seen{k}_{j}') for j, (h, _v) in enumerate(snap)]
            x_ = z3.Const(f'__k{k}', snap[0][0].sort().domain())
            for j, (h, _v) in enumerate(snap):
                p.assume(z3.ForAll([x_], z3.Implies(z3.Select(i[j], x_), z3.Select(h, x_))), heavy=True)
                for m_ in range(j):
                    p.assume(z3.Or(i[j] == empty[j], i[m_] == snap[m_][0]))
            self.assumptions.add('iteration over a dict visits every key exactly once, in an arbitrary order (ghost: set of keys visited so far); the dict is not resized during the iteration')
        else:
            i = p.fresh(z3.IntSort(), f'__i{k}')
            p.assume(i >= 0)
            if n is not None:
                p.assume(i <= n)
        for txt, g in inv_terms(i):
            p.assume(g, heavy=True)
        if dictview:
            more = z3.Or(*[i[j] != snap[j][0] for j in range(len(snap))])
        elif isinstance(s, (ast.For, ast.AsyncFor)):
            more = i < n
        else:
            more = self.truth(self.ev(s.test, fr))
        d = more if isinstance(more, bool) else p.branch(more)
        if d:
            if dictview:
                ph = None
                for j in range(len(snap)):
                    last = j == len(snap) - 1
                    c_ = i[j] != snap[j][0]
                    if (p.assume(c_) or True) if last else p.branch(c_):
                        ph = j
                        break
                h_, v_ = snap[ph]
                kx = p.fresh(h_.sort().domain(), f'__key{k}')
                p.assume(z3.And(z3.Select(h_, kx), z3.Not(z3.Select(i[ph], kx))))
                for j in range(len(snap)):
                    if j < ph:
                        p.assume(i[j] == snap[j][0])
                    elif j > ph:
                        p.assume(i[j] == empty[j])
                self.assign(s.target, view.item(ph, kx, v_, self), fr)
                nxt = list(i)
                nxt[ph] = z3.Store(i[ph], kx, True)
            elif isinstance(s, (ast.For, ast.AsyncFor)):
                self.assign(s.target, view.at(i), fr)
                nxt = i + 1
            else:
                nxt = i + 1
            measure0 = None
            if lc.decreases:
                f2 = Frame(None, state_env(i), fr.module, fr, cf.contract)
                f2.extra = dict(self.contract_names(cf))
                measure0 = self.ev_text_value(lc.decreases, f2)
            ntrace0 = len(p.trace)
            try:
                try:
                    self.exec_block(s.body, fr)
                finally:
                    cc_ = cf.contract
                    evn_ = {str(e_[0]) for e_ in p.trace[ntrace0:]}
                    def _touches(t_):
                        if '__trace__' not in t_:
                            return False
                        # a clause that selects events by name and names none of the loop's events is not affected
                        return 'e[0]' not in t_ or 'not in' in t_ or '!=' in t_.replace('!= 0', '') and "e[0] !=" in t_ or any(repr(n_) in t_ for n_ in evn_)
                    if len(p.trace) > ntrace0 and any(_touches(t_) for t_ in list(cc_.ensures) + list(cc_.on_raise)):
                        # the events of an arbitrary iteration are not the events of ALL iterations: a clause over the concrete
                        # trace cannot be decided after a loop with an invariant — ghost_seqs is the sound way to speak about them
                        raise Unsupported(f'loop {k} records effects and the contract has clauses over __trace__: use ghost_seqs')
            except ContinueSig:
                pass
            except BreakSig:
                return       # leaves the loop with the state at the break; no else clause
            if dictview:
                for (b, _m), (h0, v0) in zip(view.parts, snap):
                    self.oblige('safety:dict-resized-during-iteration', b.term == h0, s, 'the iterated dict keeps its key set inside the loop body')
            for j, (txt, g) in enumerate(inv_terms(nxt)):
                self.oblige(f'inv-preserve#loop{k}.{j}', g, s, txt)
            if lc.decreases:
                f2 = Frame(None, state_env(nxt), fr.module, fr, cf.contract)
                f2.extra = dict(self.contract_names(cf))
                m1 = self.ev_text_value(lc.decreases, f2)
                self.oblige(f'decreases#loop{k}', z3.And(measure0 >= 0, m1 < measure0), s, lc.decreases)
            raise PathEnd()
        # exit: invariant holds and guard is false
        self.exec_block(s.orelse, fr)

    def ex_While(self, s, fr):
        # a loop with an invariant in the contract is handled deductively; otherwise the guard must be concrete
        f = fr
        while f is not None and f.fs is None:
            f = f.parent
        if f is not None and f.contract is not None and f.fs.loop_ord.get(id(s)) in f.contract.loops:
            return self.inv_loop(s, fr, None)
        while True:
            c = self.truth(self.ev(s.test, fr))
            if not isinstance(c, bool):
                raise Unsupported('while loop with a symbolic guard needs an invariant')
            if not c:
                self.exec_block(s.orelse, fr)
                return
            try:
                self.exec_block(s.body, fr)
            except BreakSig:
                return
            except ContinueSig:
                pass
            self.stats['while-iter'] += 1
            if self.stats['while-iter'] > 10000:
                raise Unsupported('concrete while loop does not terminate within 10000 iterations')


class IterView:
    """a view over symbolic sequences being iterated: seq / reversed / zip / enumerate"""
    def __init__(self, kind, seqs, inner=None, parts=None):
        self.kind, self.seqs, self.inner = kind, seqs, inner
        self.parts = parts          # kind 'dict': [(dict box, 'items'|'keys'|'values')] — several when chained

    def item(self, ph, key, vals, interp):
        box, mode = self.parts[ph]
        kv = interp.wrap_sort(key, box.esort) if box.esort is not None else key
        if mode == 'keys':
            return kv
        val = z3.Select(vals, key)
        vv = interp.wrap_sort(val, box.keys) if box.keys is not None else val
        return vv if mode == 'values' else (kv, vv)

    def length(self):
        if self.kind == 'dict':
            raise Unsupported('length of a dict view')
        if self.kind in ('seq', 'rev'):
            return z3.Length(self.seqs[0])
        if self.kind == 'enum':
            return self.inner.length()
        if self.kind == 'zip':
            ls = [v.length() for v in self.inner]
            m = ls[0]
            for x in ls[1:]:
                m = z3.If(x < m, x, m)
            return m
        raise Unsupported('iter view')

    def at(self, i):
        if self.kind == 'seq':
            return self.seqs[0][i]
        if self.kind == 'rev':
            return self.seqs[0][z3.Length(self.seqs[0]) - 1 - i]
        if self.kind == 'enum':
            return (i + self.start, self.inner.at(i))
        if self.kind == 'zip':
            return tuple(v.at(i) for v in self.inner)
        raise Unsupported('iter view')


class ExcVal:
    """an exception instance of the analysed code"""
    def __init__(self, cls, args=()):
        self.cls, self.args = cls, tuple(args)

    def __repr__(self):
        return f'{self.cls.__name__}{self.args!r}'


class GenResult:
    pass


def copy_load(t):
    import copy
    n = copy.deepcopy(t)
    for x in ast.walk(n):
        if hasattr(x, 'ctx'):
            x.ctx = ast.Load()
    return n
