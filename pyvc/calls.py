"""pyvc.calls — calls: builtins, methods of str/list/set, spec functions, contracts, inlining."""
from __future__ import annotations
import ast, builtins, collections, copy, inspect, operator, textwrap, types, typing, dataclasses
import z3
from . import api, src
from .core import Unsupported, PathEnd, ReturnSig, BreakSig, ContinueSig, PyRaise
from .zsorts import VStruct, VOpt, VBox, VObj, VAbs, VFn
from .interp import Frame, Closure, BoundMethod, SpecRef, Builtin, is_sym, contains_sym, _mro_dict
from .exprs import PyList, PyDict
from .stmts import IterView, ExcVal, GenResult

STR = z3.StringSort()
INT = z3.IntSort()
ABSENT = type('Absent', (), {'__repr__': lambda self: '<absent>'})()


def _has_yield(node):
    for n in src._walk_fn(node):
        if isinstance(n, (ast.Yield, ast.YieldFrom)):
            return True
    return False


class CallMixin:
    # ---------------------------------------------------------------- uninterpreted stdlib symbols
    def ufun(self, name, *sorts):
        k = (name,) + tuple(str(s) for s in sorts)
        if k not in self.ufuns:
            self.ufuns[k] = z3.Function(name, *sorts)
            self.assumptions.add(f'uninterpreted stdlib symbol {name}')
        return self.ufuns[k]

    # ---------------------------------------------------------------- call expression
    def ev_Call(self, e, fr):
        f = self.ev(e.func, fr)
        args = []
        for a in e.args:
            if isinstance(a, ast.Starred):
                args.extend(self.concrete_iter(self.ev(a.value, fr), a))
            else:
                args.append(self.ev(a, fr))
        kwargs = {}
        for k in e.keywords:
            if k.arg is None:
                v = self.ev(k.value, fr)
                if isinstance(v, PyDict):
                    kwargs.update(v.d)
                elif isinstance(v, dict):
                    kwargs.update(v)
                else:
                    raise Unsupported('** of symbolic mapping')
            else:
                kwargs[k.arg] = self.ev(k.value, fr)
        return self.call(f, args, kwargs, e, fr)

    def call(self, f, args, kwargs, node=None, fr=None):
        if isinstance(f, Closure):
            return self.call_closure(f, args, kwargs, node)
        if isinstance(f, BoundMethod):
            return self.call_bound(f, args, kwargs, node, fr)
        if isinstance(f, SpecRef):
            return self.call_spec(f.spec, args, node)
        if isinstance(f, Builtin):
            return f.fn(args, kwargs, node, fr)
        if isinstance(f, VFn):
            zs = self.zs
            # an optional argument is passed as the pair (is None, value): the value component is a fixed default when None
            zsorts_, terms_ = [], []
            for a, s_ in zip(args, f.sort.args):
                if isinstance(s_, api.Opt):
                    inner = zs.zsort(s_.inner)
                    dflt = z3.Const(f'none_default_{inner}', inner)
                    if a is None:
                        nn, vv = z3.BoolVal(True), dflt
                    elif isinstance(a, VOpt):
                        nn = a.none if z3.is_expr(a.none) else z3.BoolVal(bool(a.none))
                        vv = z3.If(nn, dflt, zs.lift(self.unwrap_term(a.val), inner)) if a.val is not None else dflt
                    else:
                        nn, vv = z3.BoolVal(False), zs.lift(self.unwrap_term(a), inner)
                    zsorts_ += [z3.BoolSort(), inner]
                    terms_ += [nn, vv]
                else:
                    zsorts_.append(zs.zsort(s_))
                    terms_.append(zs.lift(self.unwrap_term(a), zs.zsort(s_)))
            uf = self.ufun('fn_' + f.name, *zsorts_, zs.zsort(f.sort.ret))
            self.assumptions.add(f'callable parameter {f.name} is a pure function of its arguments')
            return self.wrap_sort(uf(*terms_), f.sort.ret)
        if z3.is_expr(f) and f.sort().name() in self.zs.enum_by_sort:
            return self.call_enum(f, args, kwargs, node, fr)
        if is_sym(f):
            raise Unsupported('call of symbolic value')
        h = self.special.get(id(f))
        if h is not None and self.special_obj[id(f)] is f:
            return h(args, kwargs, node, fr)
        if isinstance(f, types.MethodType) and isinstance(f.__func__, types.FunctionType) and (f.__func__.__module__ or '') in self.effect_modules:
            self.path.trace.append((f'{f.__func__.__module__}.{f.__func__.__name__}',))
            self.assumptions.add(f'{f.__func__.__module__}.* calls are effects without influence on the computed values')
            return None
        if isinstance(f, types.MethodType) and not is_sym(f.__self__):
            # bound method of a concrete python object (e.g. 'abc'.startswith, dict.get)
            if any(is_sym(a) or contains_sym(a) for a in args):
                return self.call_bound(BoundMethod(f.__self__, f.__name__), args, kwargs, node, fr)
        if isinstance(f, types.BuiltinMethodType) and not isinstance(f.__self__, types.ModuleType) and f.__self__ is not None:
            if any(is_sym(a) or contains_sym(a) for a in args):
                return self.call_bound(BoundMethod(f.__self__, f.__name__), args, kwargs, node, fr)
        if isinstance(f, type):
            return self.construct(f, args, kwargs, node, fr)
        if isinstance(f, (types.FunctionType,)):
            if f.__name__ in self.reg.specs and self.reg.specs[f.__name__].fn is f:
                return self.call_spec(self.reg.specs[f.__name__], args, node)
            if (f.__module__ or '') in self.effect_modules:
                # logging and similar: an effect recorded in the ghost trace, no value
                self.path.trace.append((f'{f.__module__}.{f.__name__}',))
                self.assumptions.add(f'{f.__module__}.* calls are effects without influence on the computed values')
                return None
            if (f.__module__ or '').startswith('mesonbuild'):
                return self.call_function(f, args, kwargs, node)
        if isinstance(f, types.MethodType) and isinstance(f.__func__, types.FunctionType) and (f.__func__.__module__ or '').startswith('mesonbuild'):
            cc_ = getattr(self, 'cur_contract', None)
            if cc_ is not None and f.__name__ in (cc_.opaque or {}) and type(f.__self__).__name__ in (cc_.native_classes or ()) \
                    and any(is_sym(a) or contains_sym(a) for a in list(args) + list(kwargs.values())):
                # a natively built value object (OptionKey('buildtype')) asked for a method the contract treats as opaque, with
                # symbolic arguments: the object is interned as an opaque object and the method is the same uninterpreted function
                return self.call_bound(BoundMethod(VObj(self.zs.lift(f.__self__, self.zs.zsort(api.Obj))), f.__name__), args, kwargs, node, fr)
            return self.call_function(f.__func__, [f.__self__] + list(args), kwargs, node)
        def _conc(a):
            if isinstance(a, PyList) and not any(is_sym(x) or contains_sym(x) or isinstance(x, (PyList, PyDict, VStruct)) for x in a.items):
                return list(a.items)
            return a
        args = [_conc(a) for a in args]
        if not any(is_sym(a) or contains_sym(a) or isinstance(a, (PyList, PyDict, Closure)) for a in list(args) + list(kwargs.values())):
            mod = getattr(f, '__module__', None) or ''
            if mod.split('.')[0] in self.pure_modules or isinstance(f, (types.BuiltinFunctionType, types.MethodDescriptorType, types.BuiltinMethodType, types.MethodType)):
                try:
                    return f(*args, **kwargs)
                except Exception as ex:
                    raise PyRaise(type(ex), ex.args, node, implicit=True)
        raise Unsupported(f'call of {getattr(f, "__qualname__", f)!r} with symbolic arguments')

    # ---------------------------------------------------------------- enum-valued callables (operator.lt ...)
    def call_enum(self, f, args, kwargs, node, fr):
        srt, terms, objs, S = self.zs.enum_by_sort[f.sort().name()]
        f = z3.simplify(f)
        labels = list(terms)
        if self.cur_pure():
            res = None
            for lb in reversed(labels):
                v = self.call(objs[lb], args, kwargs, node, fr)
                res = v if res is None else self.ite(f == terms[lb], v, res)
            return res
        for lb in labels[:-1]:
            if self.path.branch(f == terms[lb]):
                return self.call(objs[lb], args, kwargs, node, fr)
        self.path.assume(f == terms[labels[-1]])
        return self.call(objs[labels[-1]], args, kwargs, node, fr)

    # ---------------------------------------------------------------- closures / lambdas
    def call_closure(self, c, args, kwargs, node):
        fn = c.node
        env = self.bind(fn.args, args, kwargs, None, c.frame)
        fr = Frame(c.fs, env, c.frame.module, c.frame, c.frame.contract if c.fs is None else self.reg.lookup(c.fs.file, c.fs.qual))
        if isinstance(fn, ast.Lambda):
            return self.ev(fn.body, fr)
        if c.fs is None:
            # nested def without index: loops inside need the outer function's index
            fr.fs = None
        return self.run_body(fn, fr)

    def run_body(self, fn, fr):
        if _has_yield(fn):
            saved = self.path.yields
            self.path.yields = []
            try:
                try:
                    self.exec_block(fn.body, fr)
                except ReturnSig:
                    pass
                out = self.path.yields
            finally:
                self.path.yields = saved
            return PyList(out, 'gen')
        try:
            self.exec_block(fn.body, fr)
        except ReturnSig as r:
            return r.value
        return None

    def bind(self, a: ast.arguments, args, kwargs, defaults_real, def_frame):
        """bind call arguments to parameters -> env"""
        env = {}
        params = [x.arg for x in a.posonlyargs + a.args]
        args = list(args)
        kwargs = dict(kwargs)
        ndef = len(a.defaults)
        for i, p in enumerate(params):
            if i < len(args):
                env[p] = args[i]
            elif p in kwargs:
                env[p] = kwargs.pop(p)
            else:
                di = i - (len(params) - ndef)
                if di < 0:
                    raise PyRaise(TypeError, (f'missing argument {p}',), None, implicit=True)
                if defaults_real is not None:
                    env[p] = self.from_real(defaults_real[di])
                else:
                    env[p] = self.ev(a.defaults[di], def_frame)
        extra = args[len(params):]
        if a.vararg is not None:
            env[a.vararg.arg] = tuple(extra)
        elif extra:
            raise PyRaise(TypeError, ('too many positional arguments',), None, implicit=True)
        for p, d in zip(a.kwonlyargs, a.kw_defaults):
            if p.arg in kwargs:
                env[p.arg] = kwargs.pop(p.arg)
            elif d is not None:
                env[p.arg] = self.ev(d, def_frame)
            else:
                raise PyRaise(TypeError, (f'missing keyword argument {p.arg}',), None, implicit=True)
        if a.kwarg is not None:
            env[a.kwarg.arg] = PyDict(kwargs)
        elif kwargs:
            raise PyRaise(TypeError, (f'unexpected keyword arguments {sorted(kwargs)}',), None, implicit=True)
        return env

    def from_real(self, o):
        """a real python object (default value, module constant) -> engine value"""
        if dataclasses.is_dataclass(o) and not isinstance(o, type):
            return VStruct(None, type(o), {f.name: self.from_real(getattr(o, f.name)) for f in dataclasses.fields(o)})
        return o

    # ---------------------------------------------------------------- repo functions
    def func_src(self, f):
        file = f.__module__.replace('.', '/') + '.py'
        import os
        if not os.path.exists(os.path.join(src.REPO, file)):
            file = f.__module__.replace('.', '/') + '/__init__.py'
        return src.find(file, f.__qualname__)

    def call_function(self, f, args, kwargs, node):
        f = inspect.unwrap(f)
        try:
            fs = self.func_src(f)
        except (KeyError, OSError) as ex:
            raise Unsupported(f'source of {f.__qualname__} not found: {ex}')
        cands = self.reg.candidates(fs.file, fs.qual)
        if not cands:
            raise Unsupported(f'callee {fs.qual} has no contract (and is not marked inline)')
        c = None
        if len(cands) > 1:
            try:
                env0 = self.bind(fs.node.args, args, kwargs, f.__defaults__, None)
            except PyRaise:
                env0 = None
            best = None
            pref = [cc for cc in cands if cc.variant == 'callee']
            for cc in (pref or cands):
                if env0 is not None and all(self.kind_matches(S, env0[k]) for k, S in cc.params.items() if k in env0):
                    sc = sum(self.specificity(S, env0[k]) for k, S in cc.params.items() if k in env0)
                    if best is None or sc < best[0]:
                        best = (sc, cc)
            c = best[1] if best else None
            if c is None:
                raise Unsupported(f'no contract variant of {fs.qual} accepts the argument shapes at this call')
        else:
            c = cands[0]
        mod = src.import_module(fs.file)
        if c.inline:
            self.callees[fs.qual] = 'inlined'
            env = self.bind(fs.node.args, args, kwargs, f.__defaults__, None)
            fr = Frame(fs, env, mod, None, c)
            saved = self.cur_fs
            self.cur_fs = fs
            try:
                return self.run_body(fs.node, fr)
            finally:
                self.cur_fs = saved
        self.callees[fs.qual] = 'contract (trusted)' if c.trusted else 'contract'
        env = self.bind(fs.node.args, args, kwargs, f.__defaults__, None)
        if self.cur_pure():
            # a call inside a quantified / pure context: only contracts that define the result by an expression qualify
            if c.pure_expr is None or c.requires or (c.raises and not c.pure_ignores_raises) or c.modifies:
                raise Unsupported(f'call of {fs.qual} in a pure context needs a contract with pure_expr and no requires/raises/modifies')
            fr0 = Frame(None, dict(env), mod, None, c)
            fr0.extra = self.contract_names_for(c, mod)
            if c.trusted:
                self.assumptions.add(f'assumed contract of {c.file}:{c.qual}' + (f' — {c.note}' if c.note else ''))
            return self.ev_text_value(c.pure_expr, fr0)
        return self.apply_contract(c, fs, env, mod, node)

    def specificity(self, S, v):
        """distance between the class of an actual object and the class a contract variant is written for (0 = exact)"""
        if isinstance(S, api.Struct) and isinstance(v, VStruct) and v.pycls is not None and S.pycls:
            cls = self.resolver(None)(S.pycls)
            try:
                return v.pycls.__mro__.index(cls)
            except ValueError:
                return 99
        return 0

    def kind_matches(self, S, v):
        """does the shape of an actual argument fit the declared parameter sort (variant dispatch)"""
        if isinstance(S, api.Const):
            return not is_sym(v) and v == S.value
        if isinstance(S, api.Opt):
            return v is None or isinstance(v, VOpt) or self.kind_matches(S.inner, v)
        if isinstance(v, VOpt):
            return self.kind_matches(S, v.val)
        if S is api.Str:
            return isinstance(v, str) or (z3.is_expr(v) and v.sort() == STR)
        if S is api.Int:
            return (isinstance(v, int) and not isinstance(v, bool)) or (z3.is_expr(v) and v.sort() == INT)
        if S is api.Bool:
            return isinstance(v, bool) or (z3.is_expr(v) and v.sort() == z3.BoolSort())
        if isinstance(S, api.Struct):
            return isinstance(v, VStruct) and (v.pycls is None or not S.pycls or issubclass(v.pycls, self.resolver(None)(S.pycls)))
        if isinstance(S, api.Seq):
            return isinstance(v, (VBox, PyList, tuple, list)) or (z3.is_expr(v) and isinstance(v.sort(), z3.SeqSortRef) and not z3.is_string(v))
        if isinstance(S, api.Abstract):
            return isinstance(v, VAbs)
        if isinstance(S, api.Dict):
            return (isinstance(v, VBox) and v.kind == 'dict') or isinstance(v, (PyDict, dict))
        if isinstance(S, api.Set):
            return (isinstance(v, VBox) and v.kind == 'set') or isinstance(v, (set, frozenset))
        if isinstance(S, api.Enum):
            if z3.is_expr(v):
                return v.sort() == self.zs.zsort(S)
            self.zs.zsort(S)
            return any(o is v for o in self.zs.enums[S.name][2].values())
        if isinstance(S, api.Union):
            if z3.is_expr(v):
                return v.sort() == self.zs.zsort(S) or any(self.zs.zsort(arm) == v.sort() for _, arm in S.arms.values())
            return any(isinstance(v, pyt) for pyt, _ in S.arms.values())
        return True

    def call_method(self, recv, name, args, kwargs=None, node=None):
        d = _mro_dict(recv.pycls)
        if name not in d:
            raise PyRaise(AttributeError, (name,), node, implicit=True)
        fn = d[name]
        if isinstance(fn, (staticmethod,)):
            return self.call_function(fn.__func__, list(args), kwargs or {}, node)
        if not isinstance(fn, types.FunctionType):
            raise Unsupported(f'method {name} is not a python function')
        if not (fn.__module__ or '').startswith('mesonbuild'):
            raise Unsupported(f'method {name} of {recv.pycls.__name__} is not repo code')
        return self.call_function(fn, [recv] + list(args), kwargs or {}, node)

    def apply_contract(self, c, fs, env, mod, node):
        """modular call: prove requires, havoc modifies, assume ensures (callee body is NOT looked at)"""
        p = self.path
        fr0 = Frame(None, {}, mod, None, c)
        fr0.extra = self.contract_names_for(c, mod)
        # coerce arguments to the declared parameter shapes where needed
        for k, S in c.params.items():
            if k in env:
                env[k] = self.coerce(env[k], S, fr0)
        entry = {k: self.snapshot(v) for k, v in env.items()}
        fr0.env = dict(entry)
        for j, txt in enumerate(c.requires):
            self.oblige(f'call-pre[{c.name}]#{j}', self.ev_text(txt, fr0), node, txt)
        for exc, cond in c.raises.items():
            t = self.ev_text(cond, fr0)
            if not getattr(c, 'exact_raises', True) and not self.cur_pure() and t is not False:
                # "may raise": the condition is necessary, not sufficient — the callee raises or not, unknown here
                t = self.land(t, p.fresh(z3.BoolSort(), f'{c.name.split(".")[-1]}_raises_{exc}'))
            d = t if isinstance(t, bool) else (p.branch(t) if not self.cur_pure() else None)
            if d is None:
                raise Unsupported('raising callee in pure mode')
            if d:
                raise PyRaise(self.exc_class(exc, mod), (), node)
        # havoc
        live = dict(env)
        for lv in c.modifies:
            self.havoc_lvalue(lv, live, mod)
        res = None
        if c.returns is not None:
            res = live[c.returns]
        elif c.result is not None:
            res = self.sym_of_sort(c.result, 'r_' + c.name.split('.')[-1], fr0)
        fr1 = Frame(None, dict(entry), mod, None, c)
        fr1.extra = dict(fr0.extra)
        fr1.extra['result'] = res
        fr1.extra['new'] = Builtin('new', lambda a, k, n, f, live=live, entry=entry: self._new(a, live, entry))
        self._newmap = None
        fr1.newmap = {id(entry[k]): live[k] for k in entry}
        for txt in c.ensures:
            if '__trace__' in txt:
                continue          # a clause about the callee's own effect trace says nothing the caller can use
            p.assume(self.ev_text(txt, fr1), heavy=True)
        if c.trusted:
            self.assumptions.add(f'assumed contract of {c.file}:{c.qual}' + (f' — {c.note}' if c.note else ''))
        return res

    def _new(self, args, live, entry):
        v = args[0]
        for k, e in entry.items():
            if e is v:
                return live[k]
        raise Unsupported('new() of something that is not a parameter')

    def havoc_lvalue(self, lv, env, mod):
        node = ast.parse(lv, mode='eval').body
        fr = Frame(None, env, mod)
        if isinstance(node, ast.Name):
            v = env[node.id]
            if isinstance(v, (VBox, VStruct)):
                self.havoc_inplace(v, node.id)
            else:
                raise Unsupported(f'modifies {lv}: immutable parameter')
        elif isinstance(node, ast.Attribute):
            self._pure += 1
            try:
                base = self.ev(node.value, fr)
            finally:
                self._pure -= 1
            if isinstance(base, VOpt):
                base = base.val
            cur = base.f.get(node.attr)
            if isinstance(cur, (VBox, VStruct)):
                self.havoc_inplace(cur, node.attr)
            elif cur is None or isinstance(cur, VOpt):
                S = base.sort.fields.get(node.attr) if base.sort is not None else None
                if S is None:
                    raise Unsupported(f'modifies {lv}: unknown field sort')
                base.f[node.attr] = self.sym_of_sort(S, node.attr, fr)
            else:
                base.f[node.attr] = self.fresh_like(cur, node.attr)
        else:
            raise Unsupported(f'modifies {lv}')

    def exc_class(self, name, mod):
        if isinstance(name, type):
            return name
        if hasattr(builtins, name):
            return getattr(builtins, name)
        if mod is not None and hasattr(mod, name):
            return getattr(mod, name)
        import mesonbuild.utils.core as core
        return getattr(core, name)

    def coerce(self, v, S, fr):
        """adapt a concrete argument to the declared shape of a parameter (e.g. None -> Opt, real object -> struct)"""
        if isinstance(S, api.Opt):
            if v is None:
                inner = self.zs.sym(S.inner, self.path.fresh_name('none'), self.resolver(fr))
                return VOpt(True, inner)
            if isinstance(v, VOpt):
                return v
            return VOpt(False, self.coerce(v, S.inner, fr))
        if isinstance(S, api.Struct) and isinstance(v, VStruct):
            for k, fs in S.fields.items():
                if k in v.f:
                    v.f[k] = self.coerce(v.f[k], fs, fr)
            if v.sort is None:
                v.sort = S
            return v
        if isinstance(S, (api.List,)) and isinstance(v, PyList):
            return VBox(S.kind, self.zs.lift(tuple(v.items), self.zs.zsort(api.Seq(S.elem))), S.elem)
        if isinstance(S, api.Seq) and not isinstance(S, api.List) and isinstance(v, (tuple, list)):
            return self.zs.lift(tuple(v), self.zs.zsort(S))
        if isinstance(S, api.Seq) and not isinstance(S, api.List) and isinstance(v, PyList):
            return self.zs.lift(tuple(v.items), self.zs.zsort(S))
        if S in (api.Int, api.Bool, api.Str) or isinstance(S, (api.Union, api.Enum)):
            if not is_sym(v):
                try:
                    return self.zs.lift(v, self.zs.zsort(S))
                except TypeError:
                    return v
            if z3.is_expr(v) and v.sort() != self.zs.zsort(S):
                try:
                    return self.zs.lift(v, self.zs.zsort(S))
                except TypeError:
                    return v
        return v

    # ---------------------------------------------------------------- construction
    def construct(self, cls, args, kwargs, node, fr):
        if issubclass(cls, BaseException):
            return ExcVal(cls, args)
        ac = getattr(self.cur_contract, 'abstract_classes', None) or {}
        key = f'{cls.__module__}:{cls.__qualname__}'
        if key in ac:
            # the class is abstracted for this proof: an element of a totally pre-ordered sort, a function of the argument
            S, fname = ac[key]
            a0 = self.zs.lift(args[0], STR)
            self.assumptions.add(f'{cls.__name__}(s) abstracted as {fname}(s) in a total preorder (justified by the order lemmas of the class)')
            return VAbs(self.ufun(fname, STR, self.zs.zsort(S))(a0), S)
        if cls in (list, tuple, set, frozenset, dict, str, int, bool):
            h = self.special.get(id(cls))
            if h:
                return h(args, kwargs, node, fr)
        if cls is collections.deque:
            if not args:
                return PyList([], 'deque')
            raise Unsupported('deque(iterable)')
        if not (cls.__module__ or '').startswith('mesonbuild') or cls.__name__ in (getattr(self.cur_contract, 'opaque_classes', None) or ()):
            if not (cls.__module__ or '').startswith('mesonbuild') and not any(is_sym(a) or contains_sym(a) for a in list(args) + list(kwargs.values())):
                return cls(*args, **kwargs)
            if cls.__name__ in (getattr(self.cur_contract, 'opaque_classes', None) or ()):
                zs = self.zs
                terms_ = [a if z3.is_expr(a) else (z3.IntVal(a) if isinstance(a, int) and not isinstance(a, bool) else (z3.StringVal(a) if isinstance(a, str) else self.unwrap_term(a))) for a in args]
                sorts = [t_.sort() for t_ in terms_]
                f_ = self.ufun(f'new_{cls.__name__}_' + '_'.join(str(s_) for s_ in sorts), *sorts, zs.zsort(api.Obj))
                self.assumptions.add(f'{cls.__name__} objects are opaque: construction and methods are uninterpreted functions')
                obj_ = VObj(f_(*terms_), cls)
                # the construction is visible to the contract as an event ('new <Class>', *args, object) with its keywords
                from .exprs import Event
                self.path.trace.append(Event((f'new {cls.__name__}',) + tuple(args) + (obj_,), dict(kwargs)))
                return obj_
            raise Unsupported(f'construction of {cls.__name__} with symbolic arguments')
        if issubclass(cls, tuple) and hasattr(cls, '_fields'):
            # typing.NamedTuple: an immutable record of its fields
            flds = list(cls._fields)
            vals = list(args) + [None] * (len(flds) - len(args))
            for k_, v_ in kwargs.items():
                vals[flds.index(k_)] = v_
            for i_, f_ in enumerate(flds):
                if i_ >= len(args) and f_ not in kwargs:
                    if f_ in getattr(cls, '_field_defaults', {}):
                        vals[i_] = cls._field_defaults[f_]
                    else:
                        raise PyRaise(TypeError, (f'missing {f_}',), node, implicit=True)
            return VStruct(None, cls, dict(zip(flds, vals)))
        d = _mro_dict(cls)
        init = d.get('__init__')
        if dataclasses.is_dataclass(cls) and (init is None or init.__qualname__.endswith('.__init__') and '__create_fn__' in getattr(init, '__qualname__', '') or getattr(init, '__module__', '') != cls.__module__ or not self._has_src(init)):
            # dataclass-generated __init__: assign fields in order, then __post_init__
            self.assumptions.add(f'dataclass-generated __init__ of {cls.__name__}: fields assigned in declaration order, then __post_init__')
            obj = VStruct(None, cls, {})
            flds = [f for f in dataclasses.fields(cls) if f.init]
            a = list(args)
            kw = dict(kwargs)
            for i, f in enumerate(flds):
                if i < len(a):
                    obj.f[f.name] = a[i]
                elif f.name in kw:
                    obj.f[f.name] = kw.pop(f.name)
                elif f.default is not dataclasses.MISSING:
                    obj.f[f.name] = self.from_real(f.default)
                elif f.default_factory is not dataclasses.MISSING:
                    obj.f[f.name] = self.from_real_mut(f.default_factory())
                else:
                    raise PyRaise(TypeError, (f'missing {f.name}',), node, implicit=True)
            if kw:
                raise PyRaise(TypeError, ('unexpected kwargs',), node, implicit=True)
            if '__post_init__' in d:
                self.call_method(obj, '__post_init__', [], {}, node)
            return obj
        if cls.__name__ in (getattr(self.cur_contract, 'native_classes', None) or ()) and not any(is_sym(a) or contains_sym(a) for a in list(args) + list(kwargs.values())):
            # an immutable value class of the repository constructed from concrete arguments: run natively (listed assumption)
            self.assumptions.add(f'{cls.__name__}(...) with concrete arguments is evaluated natively (immutable value object)')
            return cls(*args, **kwargs)
        if init is None or not isinstance(init, types.FunctionType):
            raise Unsupported(f'construction of {cls.__name__}')
        fs = self.func_src(inspect.unwrap(init))
        cands = self.reg.candidates(fs.file, fs.qual)
        c = None
        try:
            env0 = self.bind(fs.node.args, [None] + list(args), kwargs, init.__defaults__, None)
        except PyRaise:
            env0 = None
        for cc in cands:
            if env0 is not None and all(self.kind_matches(S, env0[k]) for k, S in cc.params.items() if k in env0 and k != 'self'):
                c = cc
                break
        if c is None:
            raise Unsupported(f'constructor {fs.qual} has no contract accepting these arguments')
        if c.inline:
            obj = VStruct(None, cls, {})
        else:
            S = c.params.get('self')
            if S is None:
                raise Unsupported(f'constructor contract of {fs.qual} lacks the shape of self')
            obj = self.zs.sym(S, self.path.fresh_name('new_' + cls.__name__), self.resolver(fr))
            obj.pycls = cls
        self.call_function(init, [obj] + list(args), kwargs, node)
        return obj

    def _has_src(self, f):
        try:
            self.func_src(inspect.unwrap(f))
            return True
        except Exception:
            return False

    def from_real_mut(self, o):
        if isinstance(o, list):
            return PyList(o)
        if isinstance(o, dict):
            return PyDict(o)
        return self.from_real(o)

    # ---------------------------------------------------------------- spec functions
    def spec_ast(self, spec):
        if not hasattr(spec, '_ast'):
            text = textwrap.dedent(inspect.getsource(spec.fn))
            fn = ast.parse(text).body[0]
            spec._ast = fn
            spec._rec = any(isinstance(n, ast.Call) and isinstance(n.func, ast.Name) and n.func.id == spec.name for n in ast.walk(fn))
            spec._mod = inspect.getmodule(spec.fn)
        return spec._ast

    def call_spec(self, spec, args, node=None):
        fn = self.spec_ast(spec)
        zs = self.zs
        hidden = spec.opaque and spec.name not in self.revealed
        if hidden and not spec._rec:
            sorts = [zs.zsort(s) for s in spec.sorts]
            ret = zs.zsort(spec.ret)
            k = '$opaque$' + spec.name
            if k not in self.recfuns:
                self.recfuns[k] = z3.Function(spec.name, *sorts, ret)
            a2 = [zs.lift(self.unwrap_term(a), s) for a, s in zip(args, sorts)]
            return self.wrap_sort(self.recfuns[k](*a2), spec.ret)
        if spec.uninterpreted or spec._rec:
            sorts = self.expand_dict_sorts(spec.sorts)
            ret = zs.zsort(spec.ret)
            if spec.name not in self.recfuns:
                if spec.uninterpreted:
                    self.recfuns[spec.name] = z3.Function(spec.uninterpreted if isinstance(spec.uninterpreted, str) else spec.name, *sorts, ret)
                    self.assumptions.add(f'uninterpreted symbol {spec.name} shared by code and spec')
                else:
                    self.recfuns[spec.name] = z3.RecFunction(spec.name, *sorts, ret)
                    params = [z3.Const(f'{spec.name}.{a.arg}', s) for a, s in zip(fn.args.args, sorts)]
                    env = {a.arg: self.wrap_sort(p, S) for a, p, S in zip(fn.args.args, params, spec.sorts)}
                    fr = Frame(None, env, spec._mod)
                    fr.extra = self.contract_names_for(None, None)
                    self._pure += 1
                    try:
                        body = self.pure_block(fn.body, fr)
                    finally:
                        self._pure -= 1
                    body = zs.lift(self.unwrap_term(body), ret)
                    z3.RecAddDefinition(self.recfuns[spec.name], params, body)
            a2 = []
            for a, s_ in zip(self.expand_dict_args(args), sorts):
                a2.append(zs.lift(self.unwrap_term(a), s_))
            return self.wrap_sort(self.recfuns[spec.name](*a2), spec.ret)
        # macro: expand in place
        for S_ in list(spec.sorts) + [spec.ret]:
            if S_ is not None and not isinstance(S_, (api.Struct, api.Opt, api.TupleS, api.Const)):
                try:
                    zs.zsort(S_)
                except TypeError:
                    pass
        env = {a.arg: v for a, v in zip(fn.args.args, args)}
        if len(args) != len(fn.args.args):
            raise Unsupported(f'spec {spec.name}: arity')
        fr = Frame(None, env, spec._mod)
        fr.extra = self.contract_names_for(None, None)
        self._pure += 1
        try:
            return self.pure_block(fn.body, fr)
        finally:
            self._pure -= 1

    def expand_dict_sorts(self, sorts):
        out = []
        for s_ in sorts:
            if isinstance(s_, api.Dict):
                ks, vs = self.zs.zsort(s_.key), self.zs.zsort(s_.val)
                out += [z3.ArraySort(ks, z3.BoolSort()), z3.ArraySort(ks, vs)]
            else:
                out.append(self.zs.zsort(s_))
        return out

    def expand_dict_args(self, args):
        out = []
        for a in args:
            if isinstance(a, VBox) and a.kind == 'dict':
                out += [a.term, a.vsort]
            else:
                out.append(a)
        return out

    def unwrap_term(self, v):
        if isinstance(v, VOpt):
            v = v.val
        if isinstance(v, (VAbs, VObj)):
            return v.term
        if isinstance(v, VBox):
            return v.term
        return v

    def wrap_sort(self, t, S):
        if isinstance(S, api.Abstract):
            return VAbs(t, S)
        if S is api.Obj:
            return VObj(t)
        return t

    def pure_block(self, stmts, fr):
        """value of a pure function body: if/elif/else + return + local assignment -> nested ite"""
        for i, s in enumerate(stmts):
            if isinstance(s, ast.Expr) and isinstance(s.value, ast.Constant):
                continue
            if isinstance(s, ast.Return):
                return self.ev(s.value, fr) if s.value is not None else None
            if isinstance(s, ast.Assign):
                v = self.ev(s.value, fr)
                for t in s.targets:
                    self.assign(t, v, fr)
                continue
            if isinstance(s, ast.If):
                c = self.truth(self.ev(s.test, fr))
                rest = stmts[i + 1:]
                if isinstance(c, bool):
                    return self.pure_block((s.body if c else s.orelse) + rest, fr)
                f1 = Frame(None, dict(fr.env), fr.module, fr.parent)
                f2 = Frame(None, dict(fr.env), fr.module, fr.parent)
                f1.extra = fr.extra
                f2.extra = fr.extra
                self._guards.append(c)
                try:
                    a = self.pure_block(s.body + rest, f1)
                finally:
                    self._guards.pop()
                self._guards.append(z3.Not(c))
                try:
                    b = self.pure_block(s.orelse + rest, f2)
                finally:
                    self._guards.pop()
                return self.ite(c, a, b)
            if isinstance(s, ast.Assert):
                continue
            if isinstance(s, (ast.Import, ast.ImportFrom)):
                self.exec(s, fr)
                continue
            raise Unsupported(f'statement {type(s).__name__} in a spec function')
        return None

    # ---------------------------------------------------------------- contract text
    def ev_text(self, txt, fr):
        node = self.text_cache.get(txt)
        if node is None:
            node = ast.parse(txt.strip(), mode='eval').body
            self.text_cache[txt] = node
        self._pure += 1
        self._in_text = getattr(self, '_in_text', 0) + 1
        try:
            v = self.ev(node, fr)
        finally:
            self._pure -= 1
            self._in_text -= 1
        t = self.truth(v) if not isinstance(v, (int,)) or isinstance(v, bool) else v
        return t

    def contract_names(self, cf):
        """names visible in contract text of the function in frame cf"""
        return self.contract_names_for(cf.contract, cf.module)

    def contract_names_for(self, c, mod):
        names = {}
        for nm, sp in self.reg.specs.items():
            names[nm] = SpecRef(sp)
        names.update(self.reg.consts)
        names['forall'] = Builtin('forall', self.q_forall)
        names['exists'] = Builtin('exists', self.q_exists)
        names['implies'] = Builtin('implies', lambda a, k, n, f: self.lor(self.lnot(self.truth(a[0])), self.truth(a[1])))
        names['unit'] = Builtin('unit', lambda a, k, n, f: (a[0],))
        names['EMPTY'] = ()
        names['old'] = Builtin('old', lambda a, k, n, f: a[0])
        names['rev'] = Builtin('rev', self.b_rev)
        names['rangeset'] = Builtin('rangeset', lambda a, k, n, f: self.b_set([self.b_range(a, {}, n, f)], {}, n, f) if any(is_sym(x) for x in a) else VBox('set', self._const_intset(range(*a)), api.Int))
        names['setadd'] = Builtin('setadd', self.b_setadd)
        names['emptyset'] = Builtin('emptyset', lambda a, k, n, f: VBox('set', None))
        names['shlex_quote'] = Builtin('shlex_quote', lambda a, k, n, f: __import__('shlex').quote(a[0]) if not is_sym(a[0]) else self.ufun('py_shlex_quote', STR, STR)(self.zs.lift(a[0], STR)))
        for an_, S_ in (getattr(c, 'opaque_attrs', None) or {}).items():
            names['attr_' + an_] = Builtin('attr_' + an_, lambda a, k, n, f, an_=an_: self.obj_attr(a[0], an_, n))
        for fn_, (as_, rs_) in (getattr(c, 'opaque_fns', None) or {}).items():
            names['fn_' + fn_] = VFn(fn_, api.Fn(as_, rs_, fn_))
        for pn_, ps_ in (getattr(c, 'params', None) or {}).items():
            if isinstance(ps_, api.Fn):
                names['fn_' + (ps_.fname or pn_)] = VFn(ps_.fname or pn_, ps_)
        names['isinst'] = Builtin('isinst', lambda a, k, n, f: self.isinst(a[0], a[1], n))
        names['fs_lines'] = Builtin('fs_lines', lambda a, k, n, f: self.ufun('fs_lines', STR, z3.SeqSort(STR))(self.zs.lift(a[0], STR)))
        names['fs_exists'] = Builtin('fs_exists', lambda a, k, n, f: self.ufun('fs_exists', STR, z3.BoolSort())(self.zs.lift(a[0], STR)))
        names['fs_content'] = Builtin('fs_content', lambda a, k, n, f: self.ufun('fs_content', STR, STR)(self.zs.lift(a[0], STR)))
        names['re_match'] = Builtin('re_match', lambda a, k, n, f: self.re_syms(a[0], a[2] if len(a) > 2 else 'match')[1](self.zs.lift(a[1], STR)))
        names['re_group'] = Builtin('re_group', lambda a, k, n, f: self.re_group_syms(a[0], a[3] if len(a) > 3 else 'match', a[1])[0](self.zs.lift(a[2], STR)))
        names['re_group_none'] = Builtin('re_group_none', lambda a, k, n, f: self.re_group_syms(a[0], a[3] if len(a) > 3 else 'match', a[1])[1](self.zs.lift(a[2], STR)))
        for om, spec_ in (getattr(c, 'opaque', None) or {}).items():
            argsorts, ret = spec_[0], spec_[1]
            names['obj_' + om] = Builtin('obj_' + om, lambda a, k, n, f, om=om, argsorts=argsorts, ret=ret: self.opaque_fn(om, argsorts, ret, a))
        names['truthy'] = Builtin('truthy', lambda a, k, n, f: self.truth(a[0]))
        names['kw'] = Builtin('kw', lambda a, k, n, f: getattr(a[0], 'kw', {}).get(a[1], a[2] if len(a) > 2 else ABSENT))
        names['seq_eq_from'] = Builtin('seq_eq_from', self.b_seq_eq_from)
        names['ite'] = Builtin('ite', lambda a, k, n, f: self.ite(self.truth(a[0]), a[1], a[2]))
        return names

    def opaque_app(self, om, argsorts, ret, recv_term, args):
        """application of the uninterpreted function of an opaque method; an Opt(S) argument is passed as the pair
        (is None, value) with a fixed default value when None"""
        zs = self.zs
        dom, a2 = [zs.zsort(api.Obj)], [recv_term]
        args = list(args) + [ABSENT] * (len(argsorts) - len(args))
        for x, s_ in zip(args, argsorts):
            if isinstance(s_, api.Opt) and x is ABSENT:
                # a keyword argument that was not given is not the same as an explicit None
                zi = zs.zsort(s_.inner)
                dom += [z3.BoolSort(), zi]
                a2 += [z3.BoolVal(True), z3.StringVal('\x00absent') if zi == STR else z3.Const('absent!' + str(zi), zi)]
            elif isinstance(s_, api.Opt):
                zi = zs.zsort(s_.inner)
                dom += [z3.BoolSort(), zi]
                dflt = z3.StringVal('') if zi == STR else z3.IntVal(0) if zi == INT else z3.Const('none!' + str(zi), zi)
                if x is None:
                    a2 += [z3.BoolVal(True), dflt]
                elif isinstance(x, VOpt):
                    nn = x.none if z3.is_expr(x.none) else z3.BoolVal(bool(x.none))
                    a2 += [nn, z3.If(nn, dflt, zs.lift(self.unwrap_term(x.val), zi))]
                else:
                    a2 += [z3.BoolVal(False), zs.lift(self.unwrap_term(x), zi)]
            else:
                dom.append(zs.zsort(s_))
                a2.append(zs.lift(self.unwrap_term(x), zs.zsort(s_)))
        f = self.ufun(f'obj_{om}', *dom, zs.zsort(ret))
        return f(*a2), a2[1:]

    def opaque_fn(self, om, argsorts, ret, a):
        return self.wrap_sort(self.opaque_app(om, argsorts, ret, self.zs.lift(self.unwrap_term(a[0]), self.zs.zsort(api.Obj)), a[1:])[0], ret)

    def _const_intset(self, xs):
        t = z3.K(INT, False)
        for x in xs:
            t = z3.Store(t, x, True)
        return t

    def b_setadd(self, a, k, n, f):
        sbox, x = a[0], a[1]
        if isinstance(sbox, VOpt):
            sbox = sbox.val
        t = sbox.term
        if isinstance(x, VOpt):
            x = x.val
        xs = x if z3.is_expr(x) else self.zs.lift(x, INT if isinstance(x, int) else STR)
        if t is None:
            t = z3.K(xs.sort(), False)
        return VBox('set', z3.Store(t, xs, True), sbox.esort)

    def b_rev(self, a, k, n, f):
        x = self.seqterm(a[0])
        if not z3.is_expr(x):
            return tuple(reversed(tuple(x)))
        return self.zs.seq_rev_fn(x.sort())(x, z3.Length(x))

    def b_seq_eq_from(self, a, k, n, f):
        x, y = self.seqterm(a[0]), self.seqterm(a[1])
        if not z3.is_expr(x) and not z3.is_expr(y):
            raise Unsupported('seq_eq_from on concrete values')
        if not z3.is_expr(x):
            x = self.zs.lift(tuple(x), y.sort())
        if not z3.is_expr(y):
            y = self.zs.lift(tuple(y), x.sort())
        return self.zs.seq_eq_fn(x.sort())(x, y, self.zs.lift(a[2], INT))

    def q_forall(self, args, kwargs, node, fr, exists=False):
        # forall(Sort, lambda x: body)   (several sorts: forall(S1, S2, lambda x, y: body))
        *sorts, lam = node.args
        if not isinstance(lam, ast.Lambda):
            raise Unsupported('forall needs a lambda')
        vs = []
        env = {}
        for a, s in zip(lam.args.args, args[:-1]):
            c = z3.Const(f'q!{a.arg}!{self.qcount}', self.zs.zsort(s))
            self.qcount += 1
            vs.append(c)
            env[a.arg] = self.wrap_sort(c, s)
        f2 = Frame(None, env, fr.module, fr)
        body = self.truth(self.ev(lam.body, f2))
        if isinstance(body, bool):
            return body
        return z3.Exists(vs, body) if exists else z3.ForAll(vs, body)

    def q_exists(self, args, kwargs, node, fr):
        return self.q_forall(args, kwargs, node, fr, exists=True)
