"""pyvc.exprs — expression evaluation (mixin of the engine)."""
from __future__ import annotations
import ast, builtins, operator, types
import z3
from . import api, src
from .core import simp, Unsupported, PathEnd, PyRaise
from .zsorts import VStruct, VOpt, VBox, VObj, VAbs, VMatch
from .interp import (Frame, Closure, BoundMethod, SpecRef, Builtin, is_sym, contains_sym, _mro_dict)

_MISSING = object()


class Event(tuple):
    """an event of the ghost effect trace: (name, positional arguments..., [returned value]); keyword arguments in .kw"""
    def __new__(cls, items, kw=None):
        o = super().__new__(cls, items)
        o.kw = dict(kw or {})
        return o


def floordiv(a, b):
    # Python floor division on mathematical integers; z3 div is floor for b>0
    return z3.If(b > 0, a / b, (-a) / (-b))


class ExprMixin:
    # ---------------------------------------------------------------- names
    def lookup(self, name, fr):
        gs = getattr(self.path, 'gseq', None)
        if gs and name in gs:
            return gs[name]
        og = getattr(self.cur_contract, 'opaque_globals', None) or {}
        if name in og and name not in fr.env:
            return self.opaque_global(name, og[name])
        ef = getattr(self.cur_contract, 'effects', None) or {}
        if name in ef and name not in fr.env:
            return Builtin('effect:' + name, lambda a, k, n, f, name=name: self.do_effect(name, a, k, ef[name], n, f))
        of = getattr(self.cur_contract, 'opaque_fns', None) or {}
        if name in of and name not in fr.env:
            from .zsorts import VFn
            return VFn(name, api.Fn(of[name][0], of[name][1], name))
        f = fr
        while f is not None:
            if name in f.env:
                return f.env[name]
            if name in f.extra:
                return f.extra[name]
            f = f.parent
        f = fr
        while f is not None:
            if f.module is not None and name in vars(f.module):
                return vars(f.module)[name]
            f = f.parent
        if hasattr(builtins, name):
            return getattr(builtins, name)
        raise Unsupported(f'unbound name {name}')

    # ---------------------------------------------------------------- main dispatch
    def ev(self, e, fr):
        m = getattr(self, 'ev_' + type(e).__name__, None)
        if m is None:
            raise Unsupported(f'expression {type(e).__name__}: {ast.unparse(e)[:60]}')
        return m(e, fr)

    def ev_Constant(self, e, fr):
        return e.value

    def ev_Name(self, e, fr):
        return self.lookup(e.id, fr)

    def ev_Tuple(self, e, fr):
        out = []
        for x in e.elts:
            if isinstance(x, ast.Starred):
                v = self.ev(x.value, fr)
                if not isinstance(v, (tuple, list)):
                    raise Unsupported('starred symbolic sequence in tuple')
                out.extend(v)
            else:
                out.append(self.ev(x, fr))
        return tuple(out)

    def ev_List(self, e, fr):
        if any(isinstance(x, ast.Starred) for x in e.elts):
            # [a, *xs, b] with a symbolic list xs: the concatenation of the pieces (element sort of xs)
            vals = [(isinstance(x, ast.Starred), self.ev(x.value if isinstance(x, ast.Starred) else x, fr)) for x in e.elts]
            sym = [v for st, v in vals if st and isinstance(v, VBox) and v.kind == 'list' and v.term is not None]
            if sym:
                es = sym[0].esort
                zs_ = self.zs.zsort(es)
                parts = []
                for st, v in vals:
                    if st:
                        if isinstance(v, VBox) and v.kind == 'list' and v.term is not None and v.term.sort() == sym[0].term.sort():
                            parts.append(v.term)
                        elif isinstance(v, (tuple, list)):
                            parts.extend(z3.Unit(self.zs.lift(self.unwrap_term(x_), zs_)) for x_ in v)
                        else:
                            raise Unsupported('starred value of another kind in a list display')
                    else:
                        parts.append(z3.Unit(self.zs.lift(self.unwrap_term(v), zs_)))
                return VBox('list', parts[0] if len(parts) == 1 else z3.Concat(*parts), es)
            items = []
            for st, v in vals:
                if st:
                    if isinstance(v, PyList):
                        v = list(v.items)
                    if not isinstance(v, (tuple, list)):
                        raise Unsupported('starred symbolic sequence in tuple')
                    items.extend(v)
                else:
                    items.append(v)
            return self.new_list(items, fr)
        items = list(self.ev_Tuple(e, fr))
        return self.new_list(items, fr)

    def new_list(self, items, fr, kind='list', esort=None):
        """python list literal -> VBox when the element sort is known, else a concrete python list"""
        zsort = None
        for x in items:
            if z3.is_expr(x):
                zsort = x.sort()
                break
        if zsort is None and items and all(isinstance(x, str) for x in items):
            zsort = z3.StringSort()
        if zsort is None and esort is not None:
            zsort = self.zs.zsort(esort)
        if zsort is None:
            if items and any(isinstance(x, (VStruct, tuple, VOpt, VBox)) for x in items) or not items:
                return PyList(items, kind)
            if all(isinstance(x, bool) for x in items):
                zsort = z3.BoolSort()
            elif all(isinstance(x, int) for x in items):
                zsort = z3.IntSort()
            else:
                return PyList(items, kind)
        try:
            term = self.zs.lift(tuple(items), z3.SeqSort(zsort))
        except TypeError:
            return PyList(items, kind)
        return VBox(kind, term, esort)

    def ev_Set(self, e, fr):
        items = [self.ev(x, fr) for x in e.elts]
        if not any(is_sym(x) for x in items):
            return set(items)
        raise Unsupported('symbolic set literal')

    def ev_Dict(self, e, fr):
        if len(e.keys) >= 1 and e.keys[-1] is None and all(k is not None for k in e.keys[:-1]):
            d = self.unwrap(self.ev(e.values[-1], fr), e)
            if isinstance(d, VBox) and d.kind == 'dict':
                # {k1: v1, ..., **d} with a symbolic dict d: the entries of d win (python: later entries override)
                has, val = d.term, d.vsort
                for kn, vn in zip(e.keys[:-1], e.values[:-1]):
                    k_ = self.zs.lift(self.unwrap(self.ev(kn, fr), e), has.sort().domain())
                    v_ = self.zs.lift(self.unwrap_term(self.ev(vn, fr)), val.sort().range())
                    val = z3.Store(val, k_, z3.If(z3.Select(has, k_), z3.Select(val, k_), v_))
                    has = z3.Store(has, k_, True)
                self.assumptions.add('the ORDER of a dict display {k: v, **d} is not modelled (dicts are unordered maps here)')
                return VBox('dict', has, d.esort, d.keys, val)
        ks = [self.ev(k, fr) for k in e.keys]
        vs = [self.ev(v, fr) for v in e.values]
        if any(is_sym(k) for k in ks):
            raise Unsupported('symbolic dict literal keys')
        return PyDict(dict(zip(ks, vs)))

    def ev_Lambda(self, e, fr):
        return Closure(e, fr)

    def ev_JoinedStr(self, e, fr):
        parts = []
        symbolic = False
        for v in e.values:
            if isinstance(v, ast.Constant):
                parts.append(v.value)
                continue
            x = self.ev(v.value, fr)
            if is_sym(x) or contains_sym(x):
                if v.format_spec is None and v.conversion in (-1, 115):
                    try:
                        if isinstance(x, VOpt):
                            # formatting None is legal: 'None'
                            inner = self.b_str([x.val], {}, e, fr) if x.val is not None else z3.StringVal('None')
                            parts.append(self.ite(x.none, z3.StringVal('None'), inner))
                        else:
                            parts.append(self.b_str([x], {}, e, fr))
                        symbolic = True
                        continue
                    except (Unsupported, PyRaise):
                        pass
                # text with parts that cannot be rendered (repr, format specs, objects) is an opaque string
                self.assumptions.add('f-string text with unrenderable symbolic parts is an opaque string')
                return self.path.fresh(z3.StringSort(), 'fstr')
            conv = {-1: format, 115: str, 114: repr, 97: ascii}[v.conversion]
            parts.append(conv(x) if v.conversion != -1 else format(x, self.ev(v.format_spec, fr) if v.format_spec else ''))
        if not symbolic:
            return ''.join(parts)
        terms = [p if z3.is_expr(p) else z3.StringVal(p) for p in parts if not (isinstance(p, str) and p == '')]
        return terms[0] if len(terms) == 1 else z3.Concat(*terms)

    def percent_format(self, fmt, args, node):
        """'...%s...%d...' % args with a concrete format string"""
        import re as _re
        if not isinstance(args, tuple):
            args = (args,)
        pieces = _re.split(r'(%[sd%])', fmt)
        out, ai = [], 0
        for pc in pieces:
            if pc == '%%':
                out.append('%')
            elif pc in ('%s', '%d'):
                if ai >= len(args):
                    raise PyRaise(TypeError, ('not enough arguments for format string',), node, implicit=True)
                a = args[ai]
                ai += 1
                out.append(self.b_str([a], {}, node, None) if is_sym(a) else (str(a) if pc == '%s' else '%d' % a))
            elif '%' in pc:
                raise Unsupported('format directive')
            elif pc:
                out.append(pc)
        if ai != len(args):
            raise PyRaise(TypeError, ('not all arguments converted',), node, implicit=True)
        terms = [p if z3.is_expr(p) else z3.StringVal(p) for p in out]
        if not any(z3.is_expr(p) for p in out):
            return ''.join(out)
        return terms[0] if len(terms) == 1 else z3.Concat(*terms)

    PURE_METHODS = {'strip', 'lstrip', 'rstrip', 'upper', 'lower', 'startswith', 'endswith'}

    def is_simple(self, e):
        """side-effect-free, non-raising expression: may be evaluated as one merged term instead of forking paths"""
        if isinstance(e, (ast.Name, ast.Constant)):
            return True
        if isinstance(e, ast.Attribute):
            return self.is_simple(e.value)
        if isinstance(e, ast.BoolOp):
            return all(self.is_simple(v) for v in e.values)
        if isinstance(e, ast.UnaryOp) and isinstance(e.op, ast.Not):
            return self.is_simple(e.operand)
        if isinstance(e, ast.Compare):
            return self.is_simple(e.left) and all(self.is_simple(c) for c in e.comparators) and \
                all(isinstance(o, (ast.Eq, ast.NotEq, ast.Is, ast.IsNot, ast.Lt, ast.LtE, ast.Gt, ast.GtE)) for o in e.ops)
        if isinstance(e, ast.IfExp):
            return self.is_simple(e.test) and self.is_simple(e.body) and self.is_simple(e.orelse)
        if isinstance(e, ast.Call) and isinstance(e.func, ast.Attribute) and e.func.attr in self.PURE_METHODS and not e.keywords:
            return self.is_simple(e.func.value) and all(isinstance(a, ast.Constant) or self.is_simple(a) for a in e.args)
        return False

    def ev_merged(self, e, fr):
        """evaluate a simple expression without forking; falls back to the forking evaluation when it cannot be merged"""
        self._pure += 1
        try:
            return True, self.ev(e, fr)
        except Unsupported:
            return False, None
        finally:
            self._pure -= 1

    def ev_IfExp(self, e, fr):
        if not self.cur_pure() and self.is_simple(e):
            ok, v = self.ev_merged(e, fr)
            if ok:
                return v
        c = self.truth(self.ev(e.test, fr))
        if isinstance(c, bool):
            return self.ev(e.body if c else e.orelse, fr)
        if self.cur_pure():
            if getattr(self, '_in_text', 0):
                # contract text `A if c else B` with a symbolic c: an arm that speaks of something that does not exist on this
                # path (the first event of a kind that never happened) does not hold — so the clause demands that c excludes it
                def arm(x, g):
                    try:
                        return self.ev_under(x, fr, g)
                    except PyRaise as ex_:
                        if not getattr(ex_, 'implicit', False):
                            raise
                        return False
                return self.ite(c, arm(e.body, c), arm(e.orelse, z3.Not(c)))
            return self.ite(c, self.ev_under(e.body, fr, c), self.ev_under(e.orelse, fr, z3.Not(c)))
        if self.path.branch(c):
            return self.ev(e.body, fr)
        return self.ev(e.orelse, fr)

    def ev_under(self, e, fr, cond):
        """pure mode: evaluate under an extra hypothesis (for guarded safety obligations)"""
        self._guards.append(cond)
        try:
            return self.ev(e, fr)
        finally:
            self._guards.pop()

    def ev_BoolOp(self, e, fr):
        is_and = isinstance(e.op, ast.And)
        if self.cur_pure():
            vals = []
            guards = []
            for x in e.values:
                self._guards.extend(guards)
                try:
                    v = self.ev(x, fr)
                finally:
                    del self._guards[len(self._guards) - len(guards):]
                t = self.truth(v)
                vals.append(t)
                if isinstance(t, bool) and t == (not is_and):
                    break                      # decided concretely: later operands are not evaluated (short circuit)
                guards.append(t if is_and else self.lnot(t))
            return self.land(*vals) if is_and else self.lor(*vals)
        # path mode: python semantics (value of the deciding operand, short circuit)
        v = None
        for i, x in enumerate(e.values):
            v = self.ev(x, fr)
            if i == len(e.values) - 1:
                return v
            t = self.truth(v)
            d = self.path.branch(t) if not isinstance(t, bool) else t
            if is_and and not d:
                return v
            if not is_and and d:
                return v
        return v

    def ev_UnaryOp(self, e, fr):
        v = self.ev(e.operand, fr)
        if isinstance(e.op, ast.Not):
            return self.lnot(self.truth(v))
        if isinstance(e.op, ast.USub):
            v = self.unwrap(v, e)
            if isinstance(v, VStruct):
                raise Unsupported('unary minus on object')
            return -v
        if isinstance(e.op, ast.Invert):
            if not is_sym(v):
                return ~v
            if z3.is_bv(v):
                return ~v
            return self.ufun('py_bitnot', z3.IntSort(), z3.IntSort())(v)
        raise Unsupported('unary op')

    def ev_BinOp(self, e, fr):
        l = self.ev(e.left, fr)
        r = self.ev(e.right, fr)
        return self.binop(e.op, l, r, e)

    def seqterm(self, v):
        if isinstance(v, VBox):
            return v.term
        return v

    def binop(self, op, l, r, node=None):
        if isinstance(op, ast.Mod) and isinstance(l, str) and (is_sym(r) or contains_sym(r)):
            try:
                return self.percent_format(l, r, node)
            except Unsupported:
                pass
        l, r = self.unwrap(l, node), self.unwrap(r, node)
        if isinstance(op, ast.Sub) and type(l).__name__ == 'IterView' and l.kind == 'dict' and len(l.parts) == 1 and l.parts[0][1] == 'keys':
            # d.keys() - other: the set of keys of d that are not in other (a set value)
            box = l.parts[0][0]
            lt = box.term
            if type(r).__name__ == 'IterView' and r.kind == 'dict' and len(r.parts) == 1 and r.parts[0][1] == 'keys' and r.parts[0][0].term.sort() == lt.sort():
                return VBox('set', z3.SetDifference(lt, r.parts[0][0].term), box.esort)
            if isinstance(r, VBox) and r.kind == 'set' and r.term is not None and r.term.sort() == lt.sort():
                return VBox('set', z3.SetDifference(lt, r.term), box.esort)
            if not is_sym(r) and not contains_sym(r) and hasattr(r, '__len__') and len(r) == 0:
                return VBox('set', lt, box.esort)
            raise Unsupported('dict.keys() - value of this shape')
        if isinstance(l, PyList) or isinstance(r, PyList):
            if isinstance(op, ast.Add) and isinstance(l, PyList) and isinstance(r, PyList):
                return PyList(l.items + r.items, l.kind)
            if isinstance(op, ast.Add):
                # concrete python list + symbolic list
                a, b = l, r
                other = b if isinstance(a, PyList) else a
                ot = self.seqterm(other)
                pl = a if isinstance(a, PyList) else b
                t = self.zs.lift(tuple(pl.items), ot.sort())
                return VBox('list', z3.Concat(t, ot) if pl is a else z3.Concat(ot, t), getattr(other, 'esort', None))
            raise Unsupported('binop on concrete list')
        if not is_sym(l) and not is_sym(r) and not contains_sym(l) and not contains_sym(r):
            f = {ast.Add: operator.add, ast.Sub: operator.sub, ast.Mult: operator.mul, ast.FloorDiv: operator.floordiv,
                 ast.Mod: operator.mod, ast.BitAnd: operator.and_, ast.BitOr: operator.or_, ast.BitXor: operator.xor,
                 ast.LShift: operator.lshift, ast.RShift: operator.rshift, ast.Pow: operator.pow}.get(type(op))
            if f is None:
                raise Unsupported(f'binop {type(op).__name__}')
            if isinstance(op, (ast.FloorDiv, ast.Mod)) and isinstance(r, int) and not isinstance(l, str) and r == 0:
                raise PyRaise(ZeroDivisionError, (), node, implicit=True)
            return f(l, r)
        if isinstance(l, tuple) and isinstance(r, tuple) and isinstance(op, ast.Add):
            return l + r
        if isinstance(l, VObj) and isinstance(op, ast.Div):
            zs = self.zs
            rt_ = r.term if isinstance(r, VObj) else zs.lift(r, z3.StringSort())
            return VObj(self.ufun('obj_div_' + str(rt_.sort()), zs.zsort(api.Obj), rt_.sort(), zs.zsort(api.Obj))(l.term, rt_), l.cls)
        if isinstance(l, (VStruct, VAbs, VObj)) or isinstance(r, (VStruct, VAbs, VObj)):
            dn = {ast.Add: '__add__', ast.Sub: '__sub__', ast.Mult: '__mul__'}.get(type(op))
            if isinstance(l, VStruct) and dn and dn in _mro_dict(l.pycls):
                return self.call_method(l, dn, [r])
            raise Unsupported('binop on object')
        lb = isinstance(l, VBox)
        lt, rt = self.seqterm(l), self.seqterm(r)
        if isinstance(lt, (tuple, list)) and z3.is_expr(rt):
            lt = self.zs.lift(tuple(lt), rt.sort())
        if isinstance(rt, (tuple, list)) and z3.is_expr(lt):
            rt = self.zs.lift(tuple(rt), lt.sort())
        lt, rt = self.int_arm(lt, node), self.int_arm(rt, node)
        if isinstance(op, ast.Mult) and ((isinstance(lt, str) or (z3.is_expr(lt) and z3.is_string(lt))) != (isinstance(rt, str) or (z3.is_expr(rt) and z3.is_string(rt)))):
            # str * int: an uninterpreted function shared by code and spec
            sv, nv = (lt, rt) if (isinstance(lt, str) or (z3.is_expr(lt) and z3.is_string(lt))) else (rt, lt)
            return self.ufun('py_str_repeat', z3.StringSort(), z3.IntSort(), z3.StringSort())(self.zs.lift(sv, z3.StringSort()), self.zs.lift(nv, z3.IntSort()))
        a, b = self.zs.common(lt, rt)
        s = a.sort()
        if isinstance(op, ast.Add):
            if isinstance(s, z3.SeqSortRef):
                res = z3.Concat(a, b)
                if lb or isinstance(r, VBox):
                    return VBox(l.kind if lb else r.kind, res, l.esort if lb else r.esort)
                return res
            if s == z3.BoolSort():
                a, b = z3.If(a, 1, 0), z3.If(b, 1, 0)
            return a + b
        if s == z3.BoolSort() and isinstance(op, (ast.BitAnd, ast.BitOr, ast.BitXor)):
            # bool | bool etc. is a bool in Python: exact
            return simp(z3.And(a, b) if isinstance(op, ast.BitAnd) else z3.Or(a, b) if isinstance(op, ast.BitOr) else z3.Xor(a, b))
        if s == z3.BoolSort():
            a, b = z3.If(a, 1, 0), z3.If(b, 1, 0)
            s = z3.IntSort()
        if s != z3.IntSort():
            if isinstance(op, ast.Mod) and s == z3.StringSort():
                self.assumptions.add('%-formatting with symbolic parts is an opaque string')
                return self.path.fresh(z3.StringSort(), 'fmt')
            raise Unsupported(f'binop {type(op).__name__} on {s}')
        if isinstance(op, ast.Sub):
            return a - b
        if isinstance(op, ast.Mult):
            return a * b
        if isinstance(op, (ast.BitAnd, ast.BitOr, ast.BitXor)):
            nm = {ast.BitAnd: 'py_bitand', ast.BitOr: 'py_bitor', ast.BitXor: 'py_bitxor'}[type(op)]
            self.assumptions.add('bit operations on symbolic integers are uninterpreted functions shared by code and spec')
            return self.ufun(nm, z3.IntSort(), z3.IntSort(), z3.IntSort())(a, b)
        if isinstance(op, (ast.FloorDiv, ast.Mod)):
            nz = b != 0
            if not self.cur_pure():
                if not self.path.branch(nz):
                    raise PyRaise(ZeroDivisionError, (), node, implicit=True)
            q = floordiv(a, b)
            return q if isinstance(op, ast.FloorDiv) else a - b * q
        raise Unsupported(f'binop {type(op).__name__}')

    def int_arm(self, v, node):
        """arithmetic on a value of a union sort: it must be the int arm (TypeError otherwise)"""
        if z3.is_expr(v) and v.sort().name() in self.zs.union_by_sort:
            dt, S = self.zs.union_by_sort[v.sort().name()]
            for i, (ctor, (pyt, arm)) in enumerate(S.arms.items()):
                if pyt is int:
                    ok = dt.recognizer(i)(v)
                    if not self.cur_pure():
                        self.oblige('safety:arith-on-int', ok, node, 'TypeError: arithmetic on a non-int component')
                        self.path.assume(ok)
                    return simp(dt.accessor(i, 0)(v))
        return v

    # ---------------------------------------------------------------- comparisons
    def ev_Compare(self, e, fr):
        l = self.ev(e.left, fr)
        res = []
        for op, rr in zip(e.ops, e.comparators):
            if res and not self.cur_pure():
                # chained comparison: short circuit
                t = res[-1]
                if not (self.path.branch(t) if not isinstance(t, bool) else t):
                    return False
                res = []
            r = self.ev(rr, fr)
            res.append(self.compare(op, l, r, e))
            l = r
        return self.land(*res)

    def compare(self, op, l, r, node=None):
        if isinstance(op, ast.Eq):
            return self.eq(l, r)
        if isinstance(op, ast.NotEq):
            if isinstance(l, VStruct) and l.pycls is not None and '__ne__' in _mro_dict(l.pycls) and isinstance(r, VStruct):
                return self.call_method(l, '__ne__', [r])
            return self.lnot(self.eq(l, r))
        if isinstance(op, (ast.Is, ast.IsNot)):
            v = self.identical(l, r)
            return v if isinstance(op, ast.Is) else self.lnot(v)
        if isinstance(op, (ast.In, ast.NotIn)):
            v = self.contains(r, l, node)
            return v if isinstance(op, ast.In) else self.lnot(v)
        name = {ast.Lt: 'lt', ast.LtE: 'le', ast.Gt: 'gt', ast.GtE: 'ge'}[type(op)]
        return self.order(name, l, r, node)

    def identical(self, l, r):
        if l is None or r is None or isinstance(l, VOpt) or isinstance(r, VOpt):
            if isinstance(l, VOpt) and r is None:
                return l.none
            if isinstance(r, VOpt) and l is None:
                return r.none
            if l is None and r is None:
                return True
            if l is None or r is None:
                return False
            if isinstance(l, VOpt) and not isinstance(r, VOpt):
                return self.land(self.lnot(l.none), self.identical(l.val, r))
            if isinstance(r, VOpt) and not isinstance(l, VOpt):
                return self.land(self.lnot(r.none), self.identical(l, r.val))
            return self.lor(self.land(l.none, r.none), self.land(self.lnot(l.none), self.lnot(r.none), self.identical(l.val, r.val)))
        if isinstance(l, VStruct) and isinstance(r, VStruct):
            return l is r or l.oid == r.oid        # the same object, possibly seen in two states (entry snapshot / now)
        if isinstance(l, (VStruct, VBox)) or isinstance(r, (VStruct, VBox)):
            return l is r
        if isinstance(l, VObj) and isinstance(r, VObj):
            return l.term == r.term
        objs = self.zs.zsort(api.Obj)
        if z3.is_expr(l) and l.sort() == objs and not is_sym(r) and type(r) not in (bool, int, str, tuple, list):
            l = VObj(l)
        if z3.is_expr(r) and r.sort() == objs and not is_sym(l) and type(l) not in (bool, int, str, tuple, list):
            r = VObj(r)
        if isinstance(l, VObj) and not is_sym(r) and type(r) not in (bool, int, str, tuple, list):
            try:
                return l.term == self.zs.lift(r, l.term.sort())       # a concrete python object: interned as an Obj constant
            except TypeError:
                return False
        if isinstance(r, VObj) and not is_sym(l) and type(l) not in (bool, int, str, tuple, list):
            try:
                return self.zs.lift(l, r.term.sort()) == r.term
            except TypeError:
                return False
        if isinstance(l, VObj) and z3.is_expr(r) and r.sort() == l.term.sort():
            return l.term == r
        if isinstance(r, VObj) and z3.is_expr(l) and l.sort() == r.term.sort():
            return l == r.term
        if not is_sym(l) and not is_sym(r):
            return l is r
        # enum constants / bools: identity == equality
        a, b = (l, r)
        try:
            a2, b2 = self.zs.common(a, b)
        except TypeError:
            return False
        s = a2.sort()
        if s == z3.BoolSort() or s.name() in self.zs.enum_by_sort or s == objs:
            return a2 == b2          # (two raw terms of the opaque-object sort: elements of ghost / symbolic sequences)
        raise Unsupported(f'is on sort {s}')

    def contains(self, cont, x, node=None):
        cont = self.unwrap(cont, node)
        if isinstance(cont, VStruct):
            if cont.pycls is not None and '__contains__' in _mro_dict(cont.pycls):
                if isinstance(x, VOpt) and (x.none is False or (z3.is_expr(x.none) and z3.is_false(z3.simplify(x.none)))):
                    x = x.val
                return self.truth(self.call_method(cont, '__contains__', [x]))
            raise Unsupported('`in` on an object without __contains__')
        if isinstance(x, VOpt):
            # None is never an element / key of the containers modelled here
            return self.land(self.lnot(x.none), self.contains(cont, x.val, node))
        if isinstance(cont, PyList):
            return self.lor(*[self.eq(x, y) for y in cont.items])
        if isinstance(cont, PyDict):
            return self.lor(*[self.eq(x, y) for y in cont.d])
        if isinstance(cont, VBox):
            if cont.kind == 'set':
                if cont.term is None:
                    return False
                xs = self.zs.lift(x, cont.term.sort().domain())
                return z3.Select(cont.term, xs)
            if cont.kind == 'dict':
                return z3.Select(cont.term, self.zs.lift(x, cont.term.sort().domain()))
            cont = cont.term
        if isinstance(cont, VObj) and (isinstance(x, str) or z3.is_string(x)):
            # membership of a string in an opaque container (PurePath.parts ...): an uninterpreted predicate
            self.assumptions.add('`s in <opaque object>` is an uninterpreted predicate of the object and the string')
            return self.ufun('obj_contains_str', cont.term.sort(), z3.StringSort(), z3.BoolSort())(cont.term, self.zs.lift(x, z3.StringSort()))
        if not is_sym(cont) and not contains_sym(cont):
            if not is_sym(x):
                return x in cont
            if isinstance(x, VObj) and isinstance(cont, (dict, set, frozenset, tuple, list)) and all(type(y) not in (bool, int, str, tuple, list) for y in cont):
                # an opaque object in a concrete collection of python objects (a table of the live module): it is one of
                # them (each interned as an Obj constant with its real attribute values)
                return self.lor(*[self.identical(x, y) for y in cont])
            if isinstance(cont, str):
                return z3.Contains(z3.StringVal(cont), self.zs.lift(x, z3.StringSort()))
            return self.lor(*[self.eq(x, y) for y in cont])
        if isinstance(cont, (tuple, list)):
            return self.lor(*[self.eq(x, y) for y in cont])
        if z3.is_string(cont):
            return z3.Contains(cont, self.zs.lift(x, z3.StringSort()))
        if isinstance(cont.sort(), z3.SeqSortRef):
            try:
                xs_ = self.zs.lift(x, cont.sort().basis())
            except TypeError:
                return False          # a value of another python type is never equal to an element
            return z3.Contains(cont, z3.Unit(xs_))
        if isinstance(cont.sort(), z3.ArraySortRef):
            return z3.Select(cont, self.zs.lift(x, cont.sort().domain()))
        raise Unsupported('in')

    # ---------------------------------------------------------------- subscripts
    def norm_index(self, idx, n):
        """python slice-bound clamping"""
        if isinstance(idx, int):
            if idx >= 0:
                return z3.If(n < idx, n, z3.IntVal(idx))
            return z3.If(n + idx < 0, z3.IntVal(0), n + idx)
        return z3.If(idx < 0, z3.If(idx + n < 0, z3.IntVal(0), idx + n), z3.If(idx > n, n, idx))

    def ev_Subscript(self, e, fr):
        base = self.unwrap(self.ev(e.value, fr), e)
        if isinstance(e.slice, ast.Slice):
            lo = self.ev(e.slice.lower, fr) if e.slice.lower else None
            hi = self.ev(e.slice.upper, fr) if e.slice.upper else None
            if e.slice.step is not None:
                raise Unsupported('slice step')
            return self.slice(base, lo, hi)
        idx = self.ev(e.slice, fr)
        return self.index(base, idx, e)

    def slice(self, base, lo, hi):
        if isinstance(base, PyList):
            if is_sym(lo) or is_sym(hi):
                raise Unsupported('symbolic slice of concrete list')
            return PyList(base.items[lo:hi], base.kind)
        if not is_sym(base) and not is_sym(lo) and not is_sym(hi):
            return base[lo:hi]
        kind = base.kind if isinstance(base, VBox) else None
        t = self.seqterm(base)
        if isinstance(t, (tuple, list)):
            raise Unsupported('symbolic slice bounds on concrete tuple')
        if isinstance(t, str):
            t = z3.StringVal(t)
        n = z3.Length(t)
        if isinstance(lo, int) and not isinstance(lo, bool) and lo >= 0 and hi is None:
            # s[k:] with a literal k: one canonical term wherever it is written (code or contract text, under a quantifier or not)
            empty = z3.StringVal('') if z3.is_string(t) else z3.Empty(t.sort())
            sub = z3.SubString(t, lo, n - lo) if z3.is_string(t) else z3.SubSeq(t, z3.IntVal(lo), n - lo)
            res = sub if lo == 0 else z3.If(n >= lo, sub, empty)
            return VBox(kind, res, base.esort) if kind else res
        l = z3.IntVal(0) if lo is None else self.norm_index(lo, n)
        h = n if hi is None else self.norm_index(hi, n)
        ln = z3.If(h - l < 0, z3.IntVal(0), h - l)
        res = z3.SubString(t, l, ln) if z3.is_string(t) else z3.SubSeq(t, l, ln)
        res = simp(res)
        return VBox(kind, res, base.esort) if kind else res

    def index(self, base, idx, node=None):
        if isinstance(idx, VOpt):
            idx = self.unwrap(idx, node)
        if isinstance(base, VStruct) and base.pycls is not None and '__getitem__' in _mro_dict(base.pycls):
            return self.call_method(base, '__getitem__', [idx], {}, node)
        if isinstance(base, PyDict):
            if is_sym(idx):
                keys = list(base.d)
                if self.cur_pure():
                    if not keys:
                        return Bottom()
                    res = base.d[keys[-1]]
                    for k_ in reversed(keys[:-1]):
                        res = self.ite(self.truth(self.eq(idx, k_)), base.d[k_], res)
                    return res
                raise Unsupported('symbolic key into concrete dict')
            if idx not in base.d:
                raise PyRaise(KeyError, (idx,), node, implicit=True)
            return base.d[idx]
        if isinstance(base, PyList):
            base = base.items
        if isinstance(base, (tuple, list, str, dict)) or (not is_sym(base) and not isinstance(base, (VBox,))):
            if not is_sym(idx):
                try:
                    return base[idx]
                except (IndexError, KeyError) as ex:
                    raise PyRaise(type(ex), (), node, implicit=True)
            if isinstance(base, (tuple, list)) and not base and self.cur_pure():
                return Bottom()       # element of an empty sequence: only meaningful under a false guard
            if isinstance(base, (tuple, list)) and base:
                # symbolic index into a concrete sequence
                n = len(base)
                ok = z3.And(idx >= -n, idx < n)
                self.index_guard(ok, node)
                res = base[0]
                for k in range(1, n):
                    res = self.ite(z3.Or(idx == k, idx == k - n), base[k], res)
                return res
            if isinstance(base, str):
                base = z3.StringVal(base)
            elif isinstance(base, dict) and all(isinstance(k_, (str, int)) for k_ in base):
                # symbolic key into a concrete dict: one of its keys, else KeyError
                keys = list(base)
                if self.cur_pure():
                    if not keys:
                        return Bottom()
                    res = base[keys[-1]]
                    for k_ in reversed(keys[:-1]):
                        res = self.ite(self.eq(idx, k_), base[k_], res)
                    return res
                for k_ in keys:
                    if self.path.branch(self.eq(idx, k_)):
                        return base[k_]
                raise PyRaise(KeyError, (), node, implicit=True)
            else:
                raise Unsupported('symbolic index into concrete container')
        if isinstance(base, VBox) and base.kind == 'dict':
            k = self.zs.lift(idx, base.term.sort().domain())
            has = z3.Select(base.term, k)
            if not self.cur_pure():
                if self.implicit_as_paths:
                    if not self.path.branch(has):
                        raise PyRaise(KeyError, (), node, implicit=True)
                else:
                    self.oblige('safety:key', has, node)
                    self.path.assume(has)
            r_ = z3.Select(base.vsort, k)
            return self.wrap_sort(r_, base.keys) if base.keys is not None else r_
        if z3.is_expr(base) and base.sort().name() in self.zs.rec_by_sort:
            dt, S = self.zs.rec_by_sort[base.sort().name()]
            if not isinstance(idx, int) or not (-len(S.fields) <= idx < len(S.fields)):
                raise Unsupported('record index must be a constant in range')
            return simp(dt.accessor(0, idx % len(S.fields))(base))
        t = self.seqterm(base)
        n = z3.Length(t)
        if isinstance(idx, int):
            ok = (n > idx) if idx >= 0 else (n >= -idx)
            pos = z3.IntVal(idx) if idx >= 0 else n + idx
        elif self.cur_pure():
            # rule of the spec/contract language: symbolic indices are non-negative
            ok = True
            pos = idx
        else:
            ok = z3.And(idx >= -n, idx < n)
            pos = z3.If(idx < 0, idx + n, idx)
        self.index_guard(ok, node)
        if z3.is_string(t):
            return z3.SubString(t, pos, 1)
        return t[pos]

    def index_guard(self, ok, node):
        """IndexError is an implicit raise: either proved impossible or an explicit exceptional path"""
        if self.cur_pure():
            return
        if self.implicit_as_paths:
            if not self.path.branch(ok):
                raise PyRaise(IndexError, (), node, implicit=True)
        else:
            self.oblige('safety:index', ok, node)
            self.path.assume(ok)

    # ---------------------------------------------------------------- attributes
    def mangle(self, attr, fr):
        if attr.startswith('__') and not attr.endswith('__'):
            f = fr
            while f is not None:
                if f.fs is not None and f.fs.cls:
                    return f'_{f.fs.cls.lstrip("_")}{attr}'
                f = f.parent
        return attr

    def ev_Attribute(self, e, fr):
        base = self.ev(e.value, fr)
        return self.getattr(base, self.mangle(e.attr, fr), e)

    def getattr(self, base, attr, node=None):
        if isinstance(base, VOpt):
            base = self.unwrap(base, node)
        if z3.is_expr(base) and base.sort() == self.zs.zsort(api.Obj):
            base = VObj(base)          # a raw opaque-object term (element of a symbolic sequence of objects)
        if isinstance(base, VStruct):
            me = getattr(self.cur_contract, 'method_effects', None) or {}
            if ('self.' + attr) in me and attr not in base.f:
                # declared for the object under contract only: the event is named apart from the same method of other objects
                return Builtin('effect:self.' + attr, lambda a, k, n, f, attr=attr: self.do_effect('self.' + attr, a, k, me['self.' + attr], n, f))
            if attr in me and attr not in base.f:
                return Builtin('effect:' + attr, lambda a, k, n, f, attr=attr: self.do_effect(attr, a, k, me[attr], n, f))
            if attr in base.f:
                return base.f[attr]
            if base.pycls is not None:
                d = _mro_dict(base.pycls)
                if attr in d:
                    v = d[attr]
                    if isinstance(v, types.FunctionType):
                        return BoundMethod(base, attr, v)
                    if isinstance(v, property):
                        return self.call_function(v.fget, [base], {}, node)
                    if isinstance(v, (staticmethod, classmethod)):
                        return v.__func__ if isinstance(v, staticmethod) else BoundMethod(base.pycls, attr, v.__func__)
                    if isinstance(v, types.MemberDescriptorType):
                        raise Unsupported(f'unset slot {attr}')
                    return v
            raise Unsupported(f'attribute {attr} of {base.pycls.__name__ if base.pycls else base.sort}: not a declared field')
        if z3.is_expr(base) and base.sort().name() in self.zs.rec_by_sort:
            dt, S = self.zs.rec_by_sort[base.sort().name()]
            if attr in S.fields:
                return simp(dt.accessor(0, list(S.fields).index(attr))(base))
        if z3.is_expr(base) and base.sort().name() in self.zs.union_by_sort:
            # a field of a value of a union of record types: the arm(s) that have the field (AttributeError otherwise)
            dt, S = self.zs.union_by_sort[base.sort().name()]
            res, oks = None, []
            for i_, (ctor, (pyt, arm)) in enumerate(S.arms.items()):
                if isinstance(arm, api.Rec) and attr in arm.fields:
                    rdt, _ = self.zs.recs[arm.name] if arm.name in self.zs.recs else (self.zs.zsort(arm), None)
                    rdt = self.zs.recs[arm.name][0]
                    val = rdt.accessor(0, list(arm.fields).index(attr))(dt.accessor(i_, 0)(base))
                    isarm = dt.recognizer(i_)(base)
                    oks.append(isarm)
                    res = val if res is None else z3.If(isarm, val, res)
            if res is not None:
                if not self.cur_pure():
                    ok = z3.Or(*oks)
                    self.oblige('safety:attribute', ok, node, f'the value has an attribute {attr}')
                    self.path.assume(ok)
                return simp(res)
        if isinstance(base, (VBox, PyList, PyDict, VMatch)) or z3.is_expr(base):
            return BoundMethod(base, attr)
        if type(base).__name__ == 'ExcVal':
            at = base.__dict__.setdefault('attrs', {})
            if attr in at:
                return at[attr]
            if hasattr(base.cls, attr) and not callable(getattr(base.cls, attr)):
                # a data attribute every instance of the exception class has (UnicodeError.reason ...): an unknown value
                at[attr] = VObj(self.path.fresh(self.zs.zsort(api.Obj), f'exc_{attr}'))
                return at[attr]
        if isinstance(base, VObj) and attr == 'decode' and base.term.get_id() in self.__dict__.get('bytes_terms', ()):
            return BoundMethod(base, attr)
        if isinstance(base, VObj):
            me = getattr(self.cur_contract, 'method_effects', None) or {}
            if attr in me:
                return Builtin('effect:' + attr, lambda a, k, n, f, attr=attr, base=base: self.do_effect(attr, [base] + list(a), k, me[attr], n, f))
            return self.obj_attr(base, attr, node)
        if isinstance(base, types.ModuleType):
            og = getattr(self.cur_contract, 'opaque_globals', None) or {}
            if attr in og:
                return self.opaque_global(attr, og[attr])
            ef = getattr(self.cur_contract, 'effects', None) or {}
            if attr in ef:
                return Builtin('effect:' + attr, lambda a, k, n, f, attr=attr: self.do_effect(attr, a, k, ef[attr], n, f))
            of = getattr(self.cur_contract, 'opaque_fns', None) or {}
            if attr in of:
                from .zsorts import VFn
                return VFn(attr, api.Fn(of[attr][0], of[attr][1], attr))
        if type(base).__name__ == 'VFile':
            return BoundMethod(base, attr)
        if type(base).__name__ == 'SuperProxy':
            for c in base.mro:
                if attr in c.__dict__:
                    v = c.__dict__[attr]
                    if isinstance(v, types.FunctionType):
                        return BoundMethod(base.obj, attr, v)
                    raise Unsupported('super() attribute that is not a method')
            raise PyRaise(AttributeError, (attr,), node, implicit=True)
        if isinstance(base, Closure):
            raise Unsupported('attribute of closure')
        try:
            v = getattr(base, attr)
        except AttributeError:
            raise PyRaise(AttributeError, (attr,), node, implicit=True)
        return v

    def do_effect(self, name, args, kwargs, may_raise, node, fr):
        """a call that reaches the outside world: an event of the ghost trace; it may fail with the listed exceptions"""
        self.path.trace.append(Event((name,) + tuple(args), kwargs))
        self.ghost_record(name, self.path.trace[-1], False)
        ret = None
        if isinstance(may_raise, dict):
            ret, may_raise = may_raise.get('returns'), may_raise.get('raises', [])
        for exn in may_raise:
            fails = self.path.fresh(z3.BoolSort(), f'{name}_raises_{exn}')
            if self.path.branch(fails):
                self.path.trace.append(('raised', name, exn))
                self.ghost_record('raised ' + exn, self.path.trace[-1], False)
                raise PyRaise(self.exc_class(exn, fr.module if fr else None), (), node)
        if ret is not None:
            rv = self.sym_of_sort(ret, 'r_' + name, fr)
            self.path.trace[-1] = Event(tuple(self.path.trace[-1]) + (rv,), self.path.trace[-1].kw)      # the returned value is the last component of the event
            self.ghost_record(name, self.path.trace[-1], True)
            return rv
        return None

    def opaque_global(self, name, S):
        cache = self.path.__dict__.setdefault('oglobals', {})
        if name not in cache:
            cache[name] = self.sym_of_sort(S, 'g_' + name, None)
            self.assumptions.add(f'module-level object {name} is an arbitrary value of sort {S} (not modelled beyond this function)')
        return cache[name]

    def ghost_record(self, name, ev, returned):
        """ghost sequences declared by the contract (Contract.ghost_seqs): the chosen component of every event of the named kind
        is appended to a SYMBOLIC sequence, which loop invariants may speak about (it is havocked with the loop state)"""
        gs = getattr(self.path, 'gseq', None)
        if not gs:
            return
        for gname, (evname, idx, S) in (getattr(self.path, 'gseq_decl', None) or {}).items():
            if evname != name:
                continue
            if isinstance(idx, (str, tuple)):
                # a keyword argument of the event ('name'), or one component of a tuple-valued keyword argument (('name', j))
                if returned:
                    continue
                kwn, comp = (idx, None) if isinstance(idx, str) else idx
                kws = getattr(ev, 'kw', None) or {}
                if kwn not in kws:
                    raise Unsupported(f'ghost sequence {gname}: the event {name} has no keyword argument {kwn}')
                v = kws[kwn]
                if comp is not None:
                    v = v[comp]
            elif (idx is not None and idx < 0) != returned:
                continue
            else:
                v = 1 if idx is None else ev[idx]          # (no component: the ghost sequence only counts the events)
            t = self.unwrap_term(v)
            if not z3.is_expr(t):
                t = self.zs.lift(t, self.zs.zsort(S))
            gs[gname] = z3.Concat(gs[gname], z3.Unit(t))

    def obj_attr(self, base, attr, node):
        om = getattr(self.cur_contract, 'opaque', None) or {}
        if attr in om:
            return BoundMethod(base, attr)
        bt_ = base.term if isinstance(base, VObj) else (base.val.term if isinstance(base, VOpt) and isinstance(base.val, VObj) else base)
        va = getattr(self.cur_contract, 'volatile_attrs', None) or {}
        if attr in va:
            self.path.trace.append(('read', attr))
            return self.sym_of_sort(va[attr], 'v_' + attr, None)
        oa = getattr(self.cur_contract, 'opaque_attrs', None) or {}
        if attr in oa:
            S = oa[attr]
            f = self.ufun(f'attr_{attr}', self.zs.zsort(api.Obj), self.zs.zsort(S.inner if isinstance(S, api.Opt) else S))
            v = self.wrap_sort(f(bt_), S.inner if isinstance(S, api.Opt) else S)
            if isinstance(S, api.Opt):
                nf = self.ufun(f'attr_{attr}_none', self.zs.zsort(api.Obj), z3.BoolSort())
                v = VOpt(nf(bt_), v)
            if not getattr(self, '_in_text', 0):
                # code reading an attribute that the code has assigned on this path: the last write to THIS object wins
                for wt, wa, wv in getattr(self.path, 'obj_writes', []):
                    if wa == attr:
                        same = simp(bt_ == wt)
                        if z3.is_true(same):
                            v = wv
                        elif not z3.is_false(same):
                            v = self.ite(same, wv, v)
            return v
        raise Unsupported(f'opaque attribute {attr}: declare it under Contract.opaque')

    def ev_Await(self, e, fr):
        # sequential reading of a coroutine: the awaited call is made and its result is the value (what else runs meanwhile is
        # outside the function; attributes the outside world changes must be declared volatile)
        return self.ev(e.value, fr)

    def ev_Starred(self, e, fr):
        raise Unsupported('starred')

    def ev_NamedExpr(self, e, fr):
        v = self.ev(e.value, fr)
        fr.env[e.target.id] = v
        return v

    # ---------------------------------------------------------------- comprehensions over concrete iterables
    def ev_ListComp(self, e, fr):
        if len(e.generators) == 1:
            it = self.unwrap(self.ev(e.generators[0].iter, fr), e)
            if isinstance(it, VBox) and it.kind == 'set' and it.term is not None:
                sv = self.symbolic_iter(it)
                return self.sym_comprehension(e, fr, VBox('list', sv.seqs[0], it.esort))
            if self.symbolic_iter(it) is not None and not self.has_concrete_len(it):
                return self.sym_comprehension(e, fr, it)
        return self.new_list(self.comp_items(e, fr), fr)

    def sym_comprehension(self, e, fr, it):
        """[elt for x in S if cond] over a symbolic sequence, elt and cond pure: a fresh list characterised by
        quantified facts (map: pointwise; filter: non-emptiness iff some element satisfies the condition, elements
        come from S and satisfy it).  Enough for the membership / emptiness reasoning of validation code."""
        g = e.generators[0]
        t = self.seqterm(it)
        j = z3.Int(f'comp!j!{self.qcount}')
        self.qcount += 1
        el = t[j]
        esort = getattr(it, 'esort', None)
        if esort is not None:
            el = self.wrap_sort(el, esort)
        f2 = Frame(None, {}, fr.module, fr, fr.contract)
        self._pure += 1
        try:
            self.assign(g.target, el, f2)
            conds = [self.truth(self.ev(c, f2)) for c in g.ifs]
            val = self.ev(e.elt, f2)
        finally:
            self._pure -= 1
        if not z3.is_expr(val):
            val = self.zs.lift(val, STR if isinstance(val, str) else z3.IntSort())
        p = self.path
        # the list is a deterministic function of the iterated sequence (and of the free variables of the element
        # expression): the same comprehension text over the same sequence denotes the same term in code and contract
        import hashlib
        free = sorted({n_.id for n_ in ast.walk(e.elt) if isinstance(n_, ast.Name)} | {n_.id for c_ in g.ifs for n_ in ast.walk(c_) if isinstance(n_, ast.Name)})
        tnames = {n_.id for n_ in ast.walk(g.target) if isinstance(n_, ast.Name)}
        fvals = []
        for nm in free:
            if nm in tnames:
                continue
            try:
                fv = self.lookup(nm, fr)
            except Unsupported:
                continue
            if z3.is_expr(fv):
                fvals.append(fv)
        key = hashlib.sha1((ast.dump(e.elt) + '|' + '|'.join(ast.dump(c_) for c_ in g.ifs) + '|' + ast.dump(g.target)).encode()).hexdigest()[:10]
        cf = self.ufun(f'comp_{key}', t.sort(), *[v_.sort() for v_ in fvals], z3.SeqSort(val.sort()))
        R = cf(t, *fvals)
        ident = isinstance(e.elt, ast.Name) or (isinstance(e.elt, ast.Call) and isinstance(e.elt.func, ast.Name) and e.elt.func.id == 'str' and t.sort().basis() == z3.StringSort())
        self.comp_info[R.get_id()] = (ident and not g.ifs, t)
        rng = z3.And(j >= 0, j < z3.Length(t))
        if not g.ifs:
            p.assume(z3.Length(R) == z3.Length(t), heavy=True)
            p.assume(z3.ForAll([j], z3.Implies(rng, R[j] == val)), heavy=True)
        else:
            c = self.land(*conds)
            c = z3.BoolVal(c) if isinstance(c, bool) else c
            k = z3.Int(f'comp!k!{self.qcount}')
            p.assume(z3.And(z3.Length(R) >= 0, z3.Length(R) <= z3.Length(t)), heavy=True)
            p.assume((z3.Length(R) > 0) == z3.Exists([j], z3.And(rng, c)), heavy=True)
            if isinstance(e.elt, ast.Name) and isinstance(g.target, ast.Name) and e.elt.id == g.target.id:
                p.assume(z3.ForAll([k], z3.Implies(z3.And(k >= 0, k < z3.Length(R)), z3.Contains(t, z3.Unit(R[k])))), heavy=True)
        self.assumptions.add('list comprehension over a symbolic sequence: fresh list with quantified characterisation (element expression and filter assumed pure)')
        return VBox('list', R)

    def ev_GeneratorExp(self, e, fr):
        if len(e.generators) == 1 and not e.generators[0].ifs:
            it = self.unwrap(self.ev(e.generators[0].iter, fr), e)
            if self.symbolic_iter(it) is not None and not self.has_concrete_len(it):
                return LazyGen(it, e.generators[0].target, e.elt, fr)
            return PyList(self.comp_items_over(e, fr, it), 'gen')
        return PyList(self.comp_items(e, fr), 'gen')

    def has_concrete_len(self, it):
        if isinstance(it, VBox) and it.kind == 'set':
            return it.term is None
        return self.seq_concrete_items(simp(self.seqterm(it))) is not None

    def comp_items_over(self, e, fr, it):
        out = []
        g = e.generators[0]
        for x in self.concrete_iter(it, g.iter):
            f2 = Frame(fr.fs, {}, fr.module, fr, fr.contract)
            self.assign(g.target, x, f2)
            out.append(self.ev(e.elt, f2))
        return out

    def quantify_gen(self, lg, exists):
        """any()/all() over a generator on a symbolic sequence: the element expression must be pure"""
        t = self.seqterm(lg.seq)
        j = z3.Int(f'gen!j!{self.qcount}')
        self.qcount += 1
        el = t[j]
        esort = getattr(lg.seq, 'esort', None)
        if esort is not None:
            el = self.wrap_sort(el, esort)
        f2 = Frame(None, {}, lg.frame.module, lg.frame, lg.frame.contract)
        self._pure += 1
        try:
            self.assign(lg.target, el, f2)
            body = self.truth(self.ev(lg.elt, f2))
        finally:
            self._pure -= 1
        rng = z3.And(j >= 0, j < z3.Length(t))
        if exists:
            return z3.Exists([j], z3.And(rng, body))
        return z3.ForAll([j], z3.Implies(rng, body))

    def ev_SetComp(self, e, fr):
        items = self.comp_items(e, fr)
        if any(is_sym(x) for x in items):
            raise Unsupported('symbolic set comprehension')
        return set(items)

    def comp_items(self, e, fr):
        out = []

        def rec(gi, f):
            if gi == len(e.generators):
                out.append(self.ev(e.elt, f))
                return
            g = e.generators[gi]
            it = self.ev(g.iter, f)
            for x in self.concrete_iter(it, g.iter):
                f2 = Frame(f.fs, {}, f.module, f, f.contract)
                f2.pure = f.pure
                self.assign(g.target, x, f2)
                ok = True
                for c in g.ifs:
                    t = self.truth(self.ev(c, f2))
                    if not isinstance(t, bool):
                        if self.cur_pure():
                            raise Unsupported('symbolic filter in comprehension (pure mode)')
                        t = self.path.branch(t)
                    if not t:
                        ok = False
                        break
                if ok:
                    rec(gi + 1, f2)
        rec(0, fr)
        return out

    def concrete_iter(self, it, node=None):
        it = self.unwrap(it, node)
        if isinstance(it, VBox) and it.kind == 'set' and it.term is None:
            return []
        if isinstance(it, PyList):
            return list(it.items)
        if isinstance(it, PyDict):
            return list(it.d)
        if isinstance(it, (tuple, list, set, frozenset, dict, range, str)):
            return list(it) if not isinstance(it, (set, frozenset)) else sorted(it, key=repr)
        if isinstance(it, (VBox,)) or z3.is_expr(it):
            t = simp(self.seqterm(it))
            items = self.seq_concrete_items(t)
            if items is not None:
                return items
            raise Unsupported('iteration over a symbolic sequence outside a loop with invariant')
        if hasattr(it, '__iter__') and not is_sym(it):
            return list(it)
        raise Unsupported(f'iteration over {type(it).__name__}')

    def seq_concrete_items(self, t):
        """items of a sequence term of syntactically known length, else None"""
        k = t.decl().kind()
        if k == z3.Z3_OP_SEQ_EMPTY:
            return []
        if k == z3.Z3_OP_SEQ_UNIT:
            return [t.arg(0)]
        if k == z3.Z3_OP_SEQ_CONCAT:
            out = []
            for c in t.children():
                r = self.seq_concrete_items(c)
                if r is None:
                    return None
                out += r
            return out
        return None


class Bottom:
    """a value that does not exist (element of an empty sequence at a symbolic index); comparisons with it are unconstrained"""


class LazyGen:
    """generator expression over a symbolic sequence (consumed by any()/all())"""
    def __init__(self, seq, target, elt, frame):
        self.seq, self.target, self.elt, self.frame = seq, target, elt, frame


class PyList:
    """python list of statically known length holding arbitrary values (mutable)"""
    def __init__(self, items, kind='list'):
        self.items = list(items)
        self.kind = kind

    def __repr__(self):
        return f'PyList({self.items})'


class PyDict:
    def __init__(self, d):
        self.d = dict(d)

    def __repr__(self):
        return f'PyDict({self.d})'
