"""python -m pyvc.nativecli  — native side of the checker (run by /venv/bin/python).
stdin: JSON {op: replay|bounded, modules: [...], key: [file, qual, variant], inputs: {...}}; stdout: JSON."""
import importlib, json, sys, os
sys.path.insert(0, os.path.dirname(os.path.dirname(os.path.abspath(__file__))))


def main():
    req = json.load(sys.stdin)
    real_stdout = sys.stdout
    sys.stdout = sys.stderr          # anything the code under test prints (mlog warnings ...) must not disturb the JSON reply
    try:
        _main(req, real_stdout)
    finally:
        sys.stdout = real_stdout


def _main(req, out):
    from contracts import REG
    for m in req['modules']:
        importlib.import_module(m)
    from pyvc import native
    if req['op'] == 'replay':
        out_ = []
        for item in req['items']:
            c = REG.contracts[tuple(item['key'])]
            st, info = native.replay_inputs(REG, c, item['inputs'])
            out_.append({'status': st, 'info': info})
        json.dump(out_, out, default=repr)
    elif req['op'] == 'bounded':
        mod = importlib.import_module(req['enumerator'])
        if req.get('replay') is not None:
            fn, conv = mod.CHECKS[req['part']]
            ev, nt, fails = fn([conv(req['replay'])])
            json.dump({'failures': fails, 'evaluations': ev}, out, default=repr)
            return
        res = getattr(mod, req.get('fn') or 'run')(REG, req.get('tier', 'quick'), int(req.get('seed', 0)), req.get('jobs', 16))
        json.dump(res, out, default=repr)


if __name__ == '__main__':
    main()
