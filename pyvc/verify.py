"""pyvc.verify — VC generation per contract, solver portfolio, result records."""
from __future__ import annotations
import ast, collections, os, re, subprocess, sys, tempfile, time, traceback, json, hashlib
import z3
from . import api, src
from .core import (Unsupported, PathEnd, ReturnSig, BreakSig, ContinueSig, PyRaise, Obligation, Path, explore)
from .zsorts import ZS, VStruct, VOpt, VBox, VObj, VAbs, VMatch
from .interp import Interp, Frame, Builtin, SpecRef, is_sym
from .exprs import ExprMixin, PyList, PyDict
from .stmts import StmtMixin, ExcVal
from .calls import CallMixin
from .methods import MethodMixin

Z3_TIMEOUT_MS = int(os.environ.get('PYVC_Z3_TIMEOUT_MS', '10000'))
CVC5_TIMEOUT_MS = int(os.environ.get('PYVC_CVC5_TIMEOUT_MS', '20000'))
CVC5 = '/usr/bin/cvc5'
Z3OLD = '/usr/bin/z3'


class Engine(Interp, ExprMixin, StmtMixin, CallMixin, MethodMixin):
    def __init__(self, registry):
        Interp.__init__(self, registry)
        from .interp import _SHARED
        self.ufuns = _SHARED['ufuns']
        self.text_cache = {}
        self._pure = 0
        self._guards = []
        self.qcount = 0
        self.implicit_as_paths = False
        self.cur_fs = None
        self.lemmas_used = set()
        self.revealed = set()
        self.comp_info = {}
        self.iter_info = {}
        self.scoped = []
        self.pure_modules = {'builtins', 'operator', 're', 'os', 'posixpath', 'typing', 'itertools', 'functools', 'collections', 'enum', 'string', 'textwrap'}
        self.effect_modules = {'mesonbuild.mlog', 'mesonbuild.interpreterbase.decorators'}
        self.init_specials()

    # ------------------------------------------------------------------ names in contract text
    def contract_names_for(self, c, mod):
        names = CallMixin.contract_names_for(self, c, mod)
        import operator as _op
        names.update({'Int': api.Int, 'Str': api.Str, 'Bool': api.Bool, 'Obj': api.Obj, 'operator': _op})
        return names

    # ------------------------------------------------------------------ one contract
    def gen(self, c: api.Contract):
        """-> dict(obligations=[Obligation], paths=int, fs=FuncSrc, inputs={name: value}, error=None|str)"""
        fs = src.find(c.file, c.qual)
        mod = src.import_module(c.file)
        self.cur_fs = fs
        self.cur_contract = c
        self.revealed = set(c.reveal)
        self.implicit_as_paths = any(k in c.raises for k in ('IndexError', 'ValueError', 'KeyError', 'ZeroDivisionError', 'TypeError'))
        info = {'fs': fs, 'inputs': None, 'outcomes': []}
        body_stmts = fs.node.body
        if c.region is not None:
            tname, needle = c.region
            cands = [n for n in ast.walk(fs.node) if isinstance(n, ast.stmt) and type(n).__name__ == tname and needle in ast.unparse(n)]
            if not cands:
                raise Unsupported(f'region {c.region!r} not found in {fs.qual}')
            stmt = min(cands, key=lambda n: (n.end_lineno - n.lineno))
            body_stmts = [stmt]
            info['region_lines'] = (stmt.lineno, stmt.end_lineno)
        names = self.contract_names_for(c, mod)
        resolver = None
        # module-level mutable state written by the function (a cache, a registry) makes the result depend on the history of
        # calls: a contract over the arguments alone cannot be verified against it
        from .interp import MUTATORS
        local_ = {a.arg for a in fs.node.args.args + fs.node.args.kwonlyargs} | {n.id for n in ast.walk(fs.node) if isinstance(n, ast.Name) and isinstance(n.ctx, ast.Store)}
        for n in ast.walk(fs.node):
            nm = None
            if isinstance(n, ast.Subscript) and isinstance(n.ctx, (ast.Store, ast.Del)) and isinstance(n.value, ast.Name):
                nm = n.value.id
            elif isinstance(n, ast.Call) and isinstance(n.func, ast.Attribute) and n.func.attr in MUTATORS and isinstance(n.func.value, ast.Name):
                nm = n.func.value.id
            if nm and nm not in local_ and nm not in c.params and isinstance(vars(mod).get(nm), (dict, list, set, collections.deque)):
                raise Unsupported(f'the function writes module-level state `{nm}`: its result may depend on earlier calls, which a contract over the arguments cannot express')

        def run(p: Path):
            self.path = p
            self.qcount = 0
            fr = Frame(fs, {}, mod, None, c)
            res = self.resolver(fr)
            env = {k: self.zs.sym(S, k, res) for k, S in c.params.items()}
            for k, g in c.ghosts.items():
                env[k] = self.zs.sym(g, k, res)
            fr.env = env
            for v_ in env.values():
                if isinstance(v_, VMatch):
                    self.assume_match_facts(v_)
            if c.yields is not None:
                p.yields = VBox('list', z3.Empty(self.zs.zsort(api.Seq(c.yields))), c.yields)
                fr.extra['__yield__'] = p.yields
            p.gseq_decl = dict(getattr(c, 'ghost_seqs', None) or {})
            clash = set(p.gseq_decl) & ({a.arg for a in fs.node.args.args + fs.node.args.kwonlyargs} | {n.id for n in ast.walk(fs.node) if isinstance(n, ast.Name)})
            if clash:
                raise Unsupported(f'ghost sequence(s) {sorted(clash)} have the name of a variable of the function: the ghost would shadow it')
            p.gseq = {g: z3.Empty(z3.SeqSort(self.zs.zsort(S_))) for g, (_e, _i, S_) in p.gseq_decl.items()}
            live = dict(env)
            entry = {k: self.snapshot(v) for k, v in env.items()}
            for k, v in entry.items():
                fr.extra['old_' + k] = v          # entry values, for loop invariants
            if info['inputs'] is None:
                info['inputs'] = entry
            fpre = Frame(None, dict(entry), mod, None, c)
            fpre.extra = dict(names)
            for txt in list(c.requires) + list(c.assumes):
                p.assume(self.ev_text(txt, fpre))
            self.scoped = []
            for use in c.uses:
                lname, subst = use[0], use[1]
                inst = self.lemma_instance(lname, subst, fpre)
                if len(use) > 2:
                    self.scoped.append((use[2], inst))      # only for obligations whose kind contains use[2]
                else:
                    p.assume(inst, heavy=True)
            outcome = None
            try:
                try:
                    self.exec_block(body_stmts, fr)
                    outcome = ('return', None)
                except ReturnSig as r:
                    outcome = ('return', r.value)
                except PyRaise as ex:
                    outcome = ('raise', ex)
                except (BreakSig, ContinueSig):
                    raise Unsupported('break/continue outside loop')
            except PathEnd:
                return None
            fpost = Frame(None, dict(entry), mod, None, c)
            fpost.extra = dict(names)
            fpost.extra['new'] = Builtin('new', lambda a, k, n, f: self._new(a, live, entry))
            fpost.extra['__yield__'] = p.yields if isinstance(p.yields, VBox) else PyList(list(p.yields), 'gen')
            if c.then_call is not None and outcome[0] == 'return':
                # the function returns a closure: call it on the ghost arguments (path mode) and expose result2
                try:
                    r2 = self.call(outcome[1], [env[g] for g in c.then_call], {}, fs.node, fr)
                    fpost.extra['result2'] = r2
                except PyRaise as ex:
                    outcome = ('raise', ex)
            fpost.extra['__trace__'] = PyList(list(p.trace), 'gen')
            fpost.extra['final'] = Builtin('final', lambda a, k, n, f: fr.env[a[0]])
            if outcome[0] == 'return':
                fpost.extra['result'] = outcome[1] if c.yields is None else p.yields
                for j, txt in enumerate(c.ensures):
                    try:
                        g_ = self.ev_text(txt, fpost)
                    except PyRaise as ex_:
                        if not getattr(ex_, 'implicit', False):
                            raise
                        # the clause speaks of something that does not exist on this path (e.g. the first event of a kind
                        # that never happened): it does not hold here
                        g_ = False
                        txt = f'{txt}   [undefined on this path: {ex_.cls.__name__}]'
                    self.oblige(f'post#{j}', g_, fs.node, txt)
                if c.exact_raises:
                    for exc, cond in c.raises.items():
                        self.oblige(f'no-raise[{exc}]', self.lnot(self.ev_text(cond, fpre)), fs.node, cond)
                self.frame_obligations(c, entry, live, fs)
            else:
                ex = outcome[1]
                fpost.extra['__exc__'] = ex.cls.__name__
                for j, txt in enumerate(c.on_raise):
                    self.oblige(f'on-raise#{j}', self.ev_text(txt, fpost), ex.node or fs.node, txt)
                matched = False
                for exc, cond in c.raises.items():
                    cls = self.exc_class(exc, mod)
                    if issubclass(ex.cls, cls):
                        matched = True
                        self.oblige(f'raises[{exc}]', self.ev_text(cond, fpre), ex.node or fs.node, cond)
                        break
                if not matched:
                    self.oblige(f'unexpected-exception[{ex.cls.__name__}]', False, ex.node or fs.node,
                                f'{ex.cls.__name__} escapes but is not listed under raises')
            return outcome[0] if outcome[0] == 'return' else f'raise {outcome[1].cls.__name__}'

        import itertools
        case_keys = list(c.cases)
        combos = list(itertools.product(*[c.cases[k] for k in case_keys])) if case_keys else [()]
        results = []
        saved_params = dict(c.params)
        try:
            for combo in combos:
                tag = ','.join(f'{k}={v!r}' for k, v in zip(case_keys, combo))
                for k, v in zip(case_keys, combo):
                    c.params[k] = api.Const(v)
                for p_, r_ in explore(run):
                    if tag:
                        for o in p_.obligs:
                            o.name = f'{o.name}[{tag}]'
                    results.append((p_, r_))
        finally:
            c.params.clear()
            c.params.update(saved_params)
        obls = []
        seen = set()
        if case_keys:
            # the case split must cover the precondition
            p0 = Path([])
            self.path = p0
            fr0 = Frame(None, {k: self.zs.sym(S, k, self.resolver(Frame(fs, {}, mod))) for k, S in c.params.items()}, mod, None, c)
            fr0.extra = dict(names)
            pre = [self.ev_text(t, fr0) for t in c.requires]
            alts = [self.land(*[fr0.env[k] == v for k, v in zip(case_keys, combo)]) for combo in combos]
            obls.append(Obligation('cases-exhaustive', 'cases', [x for x in pre if x is not True], self.lor(*alts), fs.lines[0], '', f'requires imply one of the verified cases of {case_keys}'))
        for p, res in results:
            for o in p.obligs:
                if o.name in seen:
                    k = 2
                    while f'{o.name}~{k}' in seen:
                        k += 1
                    o.name = f'{o.name}~{k}'
                seen.add(o.name)
                obls.append(o)
        info['obligations'] = obls
        info['paths'] = len(results)
        info['outcomes'] = [r for _, r in results]
        return info

    def lemma_instance(self, lname, subst, fr):
        """instance of a (separately proved) lemma at the given terms: requires => goal"""
        lem = self.reg.lemmas[lname]
        self.lemmas_used.add(lname)
        env = {}
        qvars = []
        for v, S in lem.vars.items():
            if subst[v] == '*':
                # universally quantified instance
                qv = z3.Const(f'lq!{lname}!{v}', self.zs.zsort(S))
                qvars.append(qv)
                env[v] = self.wrap_sort(qv, S)
                continue
            val = self.ev_text_value(subst[v], fr)
            if z3.is_expr(val) or not is_sym(val):
                try:
                    val = self.zs.lift(val, self.zs.zsort(S))
                except TypeError:
                    pass
            env[v] = val
        f2 = Frame(None, env, fr.module, None, None)
        f2.extra = dict(fr.extra)
        # the lemma's own variables win over ghost sequences of the same name (a ghost sequence used to shadow them: the instance
        # was then a statement about the EMPTY sequence — useless, and it made the solver answer `sat` with a bogus model)
        saved_gs = getattr(self.path, 'gseq', None)
        if saved_gs:
            self.path.gseq = {k_: v_ for k_, v_ in saved_gs.items() if k_ not in lem.vars}
        try:
            pre = [self.ev_text(t, f2) for t in lem.requires]
            goal = self.ev_text(lem.goal, f2)
        finally:
            if saved_gs is not None:
                self.path.gseq = saved_gs
        body = self.lor(self.lnot(self.land(*pre)), goal)
        if qvars and not isinstance(body, bool):
            # a trigger helps the solvers (and keeps MBQI from answering `sat` with a candidate model that breaks the recursive
            # definitions): the left-hand side of an equational goal, when it mentions every quantified variable
            pats = []
            if (z3.is_expr(goal) and z3.is_eq(goal) and goal.num_args() == 2 and z3.is_app(goal.arg(0)) and goal.arg(0).num_args() > 0
                    and goal.arg(0).decl().kind() in (z3.Z3_OP_UNINTERPRETED, getattr(z3, 'Z3_OP_RECURSIVE', -1))):
                lhs = goal.arg(0)
                names_ = {c_.decl().name() for c_ in free_consts([lhs])}
                if all(q_.decl().name() in names_ for q_ in qvars):
                    pats = [lhs]
            if not pats and z3.is_expr(goal):
                # otherwise: the first application of a spec function in the goal that mentions every quantified variable
                stack_ = [goal]
                while stack_ and not pats:
                    t_ = stack_.pop(0)
                    if z3.is_quantifier(t_):
                        continue
                    if z3.is_app(t_) and t_.num_args() > 0 and t_.decl().kind() in (z3.Z3_OP_UNINTERPRETED, getattr(z3, 'Z3_OP_RECURSIVE', -1)):
                        names_ = {c_.decl().name() for c_ in free_consts([t_])}
                        if all(q_.decl().name() in names_ for q_ in qvars):
                            pats = [t_]
                            break
                    stack_.extend(t_.children())
            if pats:
                # remembered for oblige(): instantiated by matching the trigger against the ground terms of each obligation
                self.qlemmas = getattr(self, 'qlemmas', [])
                self.qlemmas.append((list(qvars), body, pats[0]))
            try:
                return z3.ForAll(qvars, body, patterns=pats) if pats else z3.ForAll(qvars, body)
            except z3.Z3Exception:
                return z3.ForAll(qvars, body)
        return body

    def ev_text_value(self, txt, fr):
        node = ast.parse(txt.strip(), mode='eval').body
        self._pure += 1
        try:
            return self.ev(node, fr)
        finally:
            self._pure -= 1

    def gen_lemma(self, lem: api.Lemma):
        """obligations of a lemma: well-founded induction on the clamped measure"""
        p = Path([])
        self.path = p
        self.cur_fs = None
        self.revealed = set(lem.reveal)
        names = self.contract_names_for(None, None)
        env = {v: self.zs.sym(S, v) for v, S in lem.vars.items()}
        fr = Frame(None, env, None, None, None)
        fr.extra = dict(names)
        pc = [self.ev_text(t, fr) for t in lem.requires]
        if lem.measure:
            m0 = self.ev_text_value(lem.measure, fr)
            m0 = z3.If(m0 < 0, 0, m0)
        for sub in lem.ih:
            env2 = dict(env)
            for v, txt in sub.items():
                env2[v] = self.ev_text_value(txt, fr)
            f2 = Frame(None, env2, None, None, None)
            f2.extra = dict(names)
            m1 = self.ev_text_value(lem.measure, f2)
            m1 = z3.If(m1 < 0, 0, m1)
            pre = [self.ev_text(t, f2) for t in lem.requires]
            inst = self.lor(self.lnot(self.land(*pre)), self.ev_text(lem.goal, f2))
            pc.append(z3.Implies(m1 < m0, inst))
        for lname, subst in lem.uses:
            pc.append(self.lemma_instance(lname, subst, fr))
        goal = self.ev_text(lem.goal, fr)
        obls = []
        pc = [x for x in pc if x is not True]
        for hi, h in enumerate(lem.hints):
            ht = self.ev_text(h, fr)
            obls.append(Obligation(f'hint{hi}', 'lemma', list(pc), ht, 0, '', h))
            pc.append(ht)
        if lem.cases:
            cs = [self.ev_text(t, fr) for t in lem.cases]
            for i, cse in enumerate(cs):
                obls.append(Obligation(f'case{i}', 'lemma', pc + [cse], goal, 0, '', lem.cases[i]))
            obls.append(Obligation('cases-exhaustive', 'lemma', pc, z3.Or(*cs), 0, '', 'case split covers everything'))
        else:
            obls.append(Obligation('goal', 'lemma', pc, goal, 0, '', lem.goal))
        return obls

    def frame_obligations(self, c, entry, live, fs):
        mods = set(c.modifies)
        for k, e in entry.items():
            l = live[k]
            if isinstance(e, VStruct):
                if k in mods:
                    continue
                for fld, ev in e.f.items():
                    if f'{k}.{fld}' in mods:
                        continue
                    lv = l.f.get(fld)
                    self.oblige(f'frame[{k}.{fld}]', self.same(ev, lv), fs.node, f'{k}.{fld} unchanged')
            elif isinstance(e, VBox):
                if k in mods:
                    continue
                self.oblige(f'frame[{k}]', self.same(e, l), fs.node, f'{k} unchanged')

    def same(self, a, b):
        """structural sameness used by frame obligations"""
        if isinstance(a, VBox) and isinstance(b, VBox):
            if a.term is None or b.term is None:
                return a.term is None and b.term is None
            return a.term == b.term
        if isinstance(a, VStruct) and isinstance(b, VStruct):
            return self.land(*[self.same(a.f[k], b.f.get(k)) for k in a.f])
        if isinstance(a, tuple) and isinstance(b, tuple):
            return len(a) == len(b) and self.land(*[self.same(x, y) for x, y in zip(a, b)])
        if isinstance(a, VOpt) or isinstance(b, VOpt) or a is None or b is None:
            oa, ob = self.as_opt(a), self.as_opt(b)
            na = oa.none if z3.is_expr(oa.none) else z3.BoolVal(bool(oa.none))
            nb = ob.none if z3.is_expr(ob.none) else z3.BoolVal(bool(ob.none))
            if oa.val is None or ob.val is None:
                return z3.And(na, nb)
            return self.land(na == nb, self.lor(na, self.same(oa.val, ob.val)))
        if isinstance(a, VAbs) and isinstance(b, VAbs):
            return a.term == b.term
        if isinstance(a, VObj) and isinstance(b, VObj):
            return a.term == b.term
        if z3.is_expr(a) or z3.is_expr(b):
            try:
                a2, b2 = self.zs.common(a, b)
            except TypeError:
                return False
            return a2 == b2
        if type(a) is not type(b):
            return False
        return a == b if not isinstance(a, (PyList, PyDict)) else a is b


# ---------------------------------------------------------------------- solving
_RECAPP = re.compile(r'\(\(_ ([^\s()]+) \d+\)')


def to_smt2(solver):
    s = solver.to_smt2()
    s = _RECAPP.sub(r'(\1', s)
    # z3 stores recursive definitions simplified: seq.nth_i (in bounds) / seq.nth_u (out of bounds) are the two halves of seq.nth
    s = s.replace('seq.nth_i', 'seq.nth').replace('seq.nth_u', 'seq.nth')
    return s


def run_cli(cmd, text, timeout_s):
    with tempfile.NamedTemporaryFile('w', suffix='.smt2', delete=False, dir=os.environ.get('PYVC_TMP', None)) as f:
        f.write(text)
        fn = f.name
    try:
        r = subprocess.run(cmd + [fn], capture_output=True, text=True, timeout=timeout_s + 5)
        out = (r.stdout or '').strip().splitlines()
        return out[0].strip() if out else 'unknown'
    except subprocess.TimeoutExpired:
        return 'unknown'
    finally:
        os.unlink(fn)


def _z3api(o, timeout_ms):
    s = z3.Solver()
    s.set('timeout', timeout_ms)
    for a in o.pc:
        s.add(a)
    s.add(z3.Not(o.goal))
    return s, s.check()


Z3_FAST_MS = int(os.environ.get('PYVC_Z3_FAST_MS', '2500'))
REFUTE_MS = int(os.environ.get('PYVC_REFUTE_MS', '4000'))
_SMALL_STRINGS = ['a', 'b', '-c']


def free_consts(terms):
    seen, out, stack = set(), {}, list(terms)
    while stack:
        t = stack.pop()
        if t.get_id() in seen:
            continue
        seen.add(t.get_id())
        if z3.is_quantifier(t):
            stack.append(t.body())
            continue
        if z3.is_const(t) and t.decl().kind() == z3.Z3_OP_UNINTERPRETED:
            out[t.decl().name()] = t
        stack.extend(t.children())
    return list(out.values())


def refute_bounded(o: Obligation, max_len=2):
    """guard against an unsound `unsat` (observed with z3's sequence theory + recursive functions): search for a
    counter-model of the SAME verification condition over small domains (sequences of length <= max_len, strings from a
    3-element pool, small integers).  A model is accepted only after it has been validated by evaluation."""
    s = z3.Solver()
    s.set('timeout', REFUTE_MS)
    fs = list(o.pc) + [z3.Not(o.goal)]
    for f in fs:
        s.add(f)
    pool = [z3.StringVal(x) for x in _SMALL_STRINGS]
    for c in free_consts(fs):
        srt = c.sort()
        if srt == z3.StringSort():
            s.add(z3.Or(*[c == p for p in pool]))
        elif isinstance(srt, z3.SeqSortRef):
            s.add(z3.Length(c) <= max_len)
            if srt.basis() == z3.StringSort():
                for k in range(max_len):
                    s.add(z3.Implies(z3.Length(c) > k, z3.Or(*[c[k] == p for p in pool])))
        elif srt == z3.IntSort():
            s.add(c >= -1, c <= max_len + 1)
    r = s.check()
    if r != z3.sat:
        return None
    m = s.model()
    for f in fs:
        if z3.is_quantifier(f) or _has_quant(f):
            continue
        v = m.eval(f, model_completion=True)
        if not z3.is_true(v):
            return None          # the model does not validate: ignore it
    return m


def _has_quant(t):
    stack = [t]
    seen = set()
    while stack:
        x = stack.pop()
        if x.get_id() in seen:
            continue
        seen.add(x.get_id())
        if z3.is_quantifier(x):
            return True
        stack.extend(x.children())
    return False


def seq_simplify(t, cache=None):
    """equivalence-preserving rewriting of sequence terms built by appending (ghost sequences, yields): the solvers are slow on
    Nth / Length over Concat, fast on the rewritten form (uninterpreted Nth of the base sequences + linear arithmetic).
      Length(Concat(p, q)) = Length(p) + Length(q), Length(Unit(x)) = 1, Length(Empty) = 0
      Nth(Concat(p, Unit(x)), k) = If(0 <= k < Length(p), Nth(p, k), If(k == Length(p), x, <the term itself>))
      Concat(p, Unit(x)) == Concat(q, Unit(y))  iff  p == q and x == y
    Quantified sub-formulas are left as they are."""
    if cache is None:
        cache = {}

    def tail_unit(c):
        # c = Concat(..., Unit(x)) -> (prefix term, x)
        if z3.is_app(c) and c.decl().kind() == z3.Z3_OP_SEQ_CONCAT and c.num_args() >= 2:
            last = c.arg(c.num_args() - 1)
            if z3.is_app(last) and last.decl().kind() == z3.Z3_OP_SEQ_UNIT:
                pre = c.arg(0) if c.num_args() == 2 else z3.Concat(*[c.arg(i) for i in range(c.num_args() - 1)])
                return pre, last.arg(0)
        return None

    def length(x):
        if z3.is_app(x):
            k = x.decl().kind()
            if k == z3.Z3_OP_SEQ_CONCAT:
                return z3.Sum([length(c) for c in x.children()])
            if k == z3.Z3_OP_SEQ_UNIT:
                return z3.IntVal(1)
            if k == z3.Z3_OP_SEQ_EMPTY:
                return z3.IntVal(0)
        return z3.Length(x)

    def nth(sq, k, orig):
        tu = tail_unit(sq)
        if tu is None:
            return orig if orig is not None else sq[k]
        pre, x = tu
        lp = length(pre)
        return z3.If(z3.And(0 <= k, k < lp), nth(pre, k, None), z3.If(k == lp, x, orig if orig is not None else sq[k]))

    def rw(t):
        i = t.get_id()
        if i in cache:
            return cache[i]
        if z3.is_quantifier(t) or not z3.is_app(t) or t.num_args() == 0:
            cache[i] = t
            return t
        ch = [rw(c) for c in t.children()]
        kind = t.decl().kind()
        if kind == z3.Z3_OP_SEQ_LENGTH and not z3.is_string(ch[0]):
            r = length(ch[0])
        elif kind == z3.Z3_OP_SEQ_NTH and not z3.is_string(ch[0]):
            r = nth(ch[0], ch[1], ch[0][ch[1]])
        elif kind == z3.Z3_OP_EQ and isinstance(ch[0].sort(), z3.SeqSortRef) and not z3.is_string(ch[0]) and tail_unit(ch[0]) and tail_unit(ch[1]):
            (p1, x1), (p2, x2) = tail_unit(ch[0]), tail_unit(ch[1])
            r = z3.And(rw(p1 == p2), x1 == x2)
        else:
            try:
                r = t.decl()(*ch) if any(a.get_id() != b.get_id() for a, b in zip(ch, t.children())) else t
            except Exception:
                r = t
        cache[i] = r
        return r
    return rw(t)


def discharge(o: Obligation, second=False, want_model=True):
    rec = _discharge(o, second, want_model)
    if rec['status'] == 'unsat':
        t1 = time.time()
        try:
            m = refute_bounded(o)
        except z3.Z3Exception:
            m = None
        rec['refute_s'] = round(time.time() - t1, 4)
        rec['time_s'] = round(rec['time_s'] + rec['refute_s'], 4)
        if m is not None:
            rec['unsound_unsat'] = rec['backend']
            rec['status'] = 'sat'
            rec['model'] = m
            rec['backend'] = 'z3-' + z3.get_version_string() + ' (bounded refutation of the same VC; validated model)'
    return rec


def _discharge(o: Obligation, second=False, want_model=True):
    """portfolio: z3 5.1 API (short) -> z3 4.8.12 CLI -> cvc5 CLI -> z3 5.1 API (long).
    -> dict(status=unsat|sat|unknown, backend, time_s, model)"""
    t0 = time.time()
    s, r = _z3api(o, Z3_FAST_MS)
    rec = {'status': str(r), 'backend': 'z3-' + z3.get_version_string(), 'time_s': round(time.time() - t0, 4), 'model': None}
    if r == z3.sat:
        rec['model'] = s.model()
        return rec
    if r == z3.unsat and not second:
        return rec
    # second attempt (the fast one came back `unknown`): without the quantified assumptions (sound for `unsat`: fewer assumptions).  Goals are skolemised and the quantified
    # invariants / lemma instances are already instantiated at the skolem constants and at the matching ground terms, so the
    # quantifier-free part usually suffices — and the solvers decide it in milliseconds where the full VC takes cvc5 many seconds
    if r == z3.unknown and not second and any(z3.is_quantifier(a) or _has_quant(a) for a in o.pc):
        s0 = z3.Solver()
        s0.set('timeout', 4 * Z3_FAST_MS)
        cache_ = {}
        for a in o.pc:
            if not (z3.is_quantifier(a) or _has_quant(a)):
                s0.add(seq_simplify(a, cache_))
        s0.add(z3.Not(seq_simplify(o.goal, cache_) if not _has_quant(o.goal) else o.goal))
        try:
            r0 = s0.check()
        except z3.Z3Exception:
            r0 = z3.unknown
        if r0 == z3.unsat:
            return {'status': 'unsat', 'backend': 'z3-' + z3.get_version_string() + ' (quantifier-free part of the assumptions)', 'time_s': round(time.time() - t0, 4), 'model': None}
    text = '(set-logic ALL)\n' + to_smt2(s)
    if second and r == z3.unsat:
        t1 = time.time()
        st = run_cli([CVC5, '--strings-exp', f'--tlimit={CVC5_TIMEOUT_MS}'], text, CVC5_TIMEOUT_MS / 1000)
        be = 'cvc5-1.0.3'
        if st not in ('unsat', 'sat'):
            st = run_cli([Z3OLD, f'-T:{CVC5_TIMEOUT_MS // 1000}'], text, CVC5_TIMEOUT_MS / 1000)
            be = 'z3-4.8.12'
        rec['second'] = {'backend': be, 'status': st, 'time_s': round(time.time() - t1, 4)}
        return rec
    # unknown on the fast attempt
    st = st2 = None
    if 'forall' in text and 'String' in text:
        # quantified facts over strings (sequences of strings): cvc5 decides these in seconds where both z3 versions time out
        st2 = run_cli([CVC5, '--strings-exp', f'--tlimit={CVC5_TIMEOUT_MS}'], text, CVC5_TIMEOUT_MS / 1000)
        if st2 == 'unsat':
            return {'status': 'unsat', 'backend': 'cvc5-1.0.3', 'time_s': round(time.time() - t0, 4), 'model': None}
    st = run_cli([Z3OLD, f'-T:{Z3_TIMEOUT_MS // 1000}'], text, Z3_TIMEOUT_MS / 1000)
    if st == 'unsat':
        return {'status': 'unsat', 'backend': 'z3-4.8.12', 'time_s': round(time.time() - t0, 4), 'model': None}
    if st2 is None:
        st2 = run_cli([CVC5, '--strings-exp', f'--tlimit={CVC5_TIMEOUT_MS}'], text, CVC5_TIMEOUT_MS / 1000)
        if st2 == 'unsat':
            return {'status': 'unsat', 'backend': 'cvc5-1.0.3', 'time_s': round(time.time() - t0, 4), 'model': None}
    s, r = _z3api(o, 3 * Z3_TIMEOUT_MS)
    rec = {'status': str(r), 'backend': 'z3-' + z3.get_version_string(), 'time_s': round(time.time() - t0, 4), 'model': None}
    if r == z3.sat:
        rec['model'] = s.model()
    elif r == z3.unknown:
        rec['reason'] = s.reason_unknown() + f' (z3-4.8.12: {st}, cvc5: {st2})'
    return rec


def verify_contract(registry, c, second=False, shard=None):
    """generate + discharge; returns a JSON-able record"""
    t0 = time.time()
    eng = Engine(registry)
    rec = {'file': c.file, 'qual': c.qual, 'prop': c.prop, 'trusted': c.trusted, 'obligations': [], 'error': None,
           'undecided': None}
    try:
        info = eng.gen(c)
    except Unsupported as ex:
        rec['undecided'] = f'unsupported: {str(ex)[:300]}'
        rec['wall_s'] = round(time.time() - t0, 3)
        try:
            fs = src.find(c.file, c.qual)
            rec.update(lines=list(fs.lines), sha256=fs.sha256, dropped=fs.dropped())
        except Exception:
            pass
        return rec
    except Exception:
        rec['error'] = traceback.format_exc()
        rec['wall_s'] = round(time.time() - t0, 3)
        return rec
    fs = info['fs']
    rec.update(lines=list(fs.lines), sha256=fs.sha256, dropped=fs.dropped() + list(c.dropped), paths=info['paths'],
               outcomes=sorted({str(o) for o in info['outcomes']}), gen_s=round(time.time() - t0, 3))
    if info.get('region_lines'):
        rec['dropped'] = rec['dropped'] + [f"only the statement at lines {info['region_lines'][0]}-{info['region_lines'][1]} of the function is verified (region contract); its live-in variables are the contract parameters"]
    # vacuity: the assumptions of the contract must be satisfiable and some path must end normally or exceptionally
    if not any(o is not None for o in info['outcomes']):
        rec['error'] = 'VACUOUS: no feasible path through the function under the stated requires'
    rec['n_generated'] = len(info['obligations'])
    for oi, o in enumerate(info['obligations']):
        if shard is not None and oi % shard[1] != shard[0]:
            continue
        try:
            r = discharge(o, second)
        except z3.Z3Exception as ex:
            r = {'status': 'unknown', 'backend': 'z3', 'time_s': 0, 'model': None, 'reason': str(ex)}
        item = {'name': f'{c.prop}/{c.name}/{o.name}', 'kind': o.kind, 'status': r['status'], 'backend': r['backend'],
                'time_s': r['time_s'], 'line': o.line, 'note': o.note, 'size': sum(len(str(x)) for x in o.pc) + len(str(o.goal))}
        if 'second' in r:
            item['second'] = r['second']
        if r.get('reason'):
            item['reason'] = r['reason']
        if r['status'] == 'sat' and r['model'] is not None:
            try:
                item['inputs'] = {k: eng.zs.to_py(r['model'], v) for k, v in info['inputs'].items()}
            except Exception as ex:
                item['inputs'] = {'__error__': str(ex)}
            item['model'] = str(r['model'])[:4000]
        rec['obligations'].append(item)
    rec['assumptions'] = sorted(eng.assumptions)
    rec['callees'] = dict(eng.callees)
    rec['lemmas_used'] = sorted(eng.lemmas_used)
    rec['wall_s'] = round(time.time() - t0, 3)
    return rec


def verify_lemma(registry, lem, second=False):
    t0 = time.time()
    eng = Engine(registry)
    rec = {'lemma': lem.name, 'prop': lem.prop, 'obligations': [], 'error': None, 'undecided': None, 'note': lem.note}
    try:
        obls = eng.gen_lemma(lem)
    except Unsupported as ex:
        rec['undecided'] = f'unsupported: {ex}'
        return rec
    except AttributeError as ex:
        # the constant / table the audit reads no longer exists in the live module: the audit cannot be generated (undecided)
        rec['undecided'] = f'unsupported: the object this audit reads is gone from the code ({ex})'
        return rec
    except Exception:
        rec['error'] = traceback.format_exc()
        return rec
    for o in obls:
        r = discharge(o, second)
        item = {'name': f'{lem.prop}/lemma.{lem.name}/{o.name}', 'kind': 'lemma', 'status': r['status'], 'backend': r['backend'],
                'time_s': r['time_s'], 'note': o.note, 'size': sum(len(str(x)) for x in o.pc) + len(str(o.goal))}
        if 'second' in r:
            item['second'] = r['second']
        if r['status'] == 'sat':
            item['model'] = str(r['model'])[:3000]
        rec['obligations'].append(item)
    rec['lemmas_used'] = sorted(eng.lemmas_used)
    rec['assumptions'] = sorted(eng.assumptions)
    rec['wall_s'] = round(time.time() - t0, 3)
    return rec


def verify_custom(registry, name, second=False):
    t0 = time.time()
    prop, gen, note = registry.customs[name]
    eng = Engine(registry)
    rec = {'lemma': name, 'prop': prop, 'obligations': [], 'error': None, 'undecided': None, 'note': note}
    try:
        obls = gen(eng)
    except Unsupported as ex:
        rec['undecided'] = f'unsupported: {ex}'
        return rec
    except AttributeError as ex:
        # the constant / table the audit reads no longer exists in the live module: the audit cannot be generated (undecided)
        rec['undecided'] = f'unsupported: the object this audit reads is gone from the code ({ex})'
        return rec
    except Exception:
        rec['error'] = traceback.format_exc()
        return rec
    for o in obls:
        r = discharge(o, second)
        item = {'name': f'{prop}/{name}/{o.name}', 'kind': o.kind, 'status': r['status'], 'backend': r['backend'], 'time_s': r['time_s'],
                'note': o.note, 'size': sum(len(str(x)) for x in o.pc) + len(str(o.goal))}
        if r['status'] == 'sat':
            item['model'] = str(r['model'])[:2000]
        rec['obligations'].append(item)
    rec['assumptions'] = sorted(eng.assumptions)
    rec['wall_s'] = round(time.time() - t0, 3)
    return rec
