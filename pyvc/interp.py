"""pyvc.interp — symbolic interpreter of (a subset of) Python over z3 values.

One call of Interp.run_function executes ONE path of the real function's AST
under the decision prefix held by the Path object.  Control flow of the analysed
code is the control flow of this interpreter: `if` asks Path.branch, Python
exceptions of the analysed code are PyRaise, return/break/continue are signals.
Concrete values stay concrete Python objects (constants, tables, classes of the
real module); symbolic values are z3 terms or the wrappers of pyvc.zsorts.
"""
from __future__ import annotations
import ast, builtins, copy, operator, types, collections, inspect, textwrap
import z3
from . import api, src
from .core import (Unsupported, PathEnd, ReturnSig, BreakSig, ContinueSig, PyRaise, Obligation, Path)
from .zsorts import ZS, VStruct, VOpt, VBox, VObj, VAbs, VMatch

MUTATORS = {'append', 'appendleft', 'extend', 'extendleft', 'clear', 'add', 'insert', 'pop', 'popleft',
            'remove', 'discard', 'update', 'sort', 'reverse', 'setdefault'}


class Frame:
    def __init__(self, fs, env, module, parent=None, contract=None):
        self.fs = fs                # src.FuncSrc or None (contract text evaluation)
        self.env = env
        self.module = module
        self.parent = parent        # enclosing frame for closures
        self.contract = contract
        self.pure = False           # pure mode: no forking, if -> ite  (spec functions, contract text)
        self.extra = {}             # names visible in contract text (result, new, old, spec functions)


class Closure:
    def __init__(self, node, frame, fs=None):
        self.node, self.frame, self.fs = node, frame, fs


class BoundMethod:
    def __init__(self, recv, name, fn=None):
        self.recv, self.name, self.fn = recv, name, fn


class SpecRef:
    """reference to a spec function in contract text"""
    def __init__(self, spec):
        self.spec = spec


class Builtin:
    def __init__(self, name, fn):
        self.name, self.fn = name, fn


_SHARED = {'zs': None, 'recfuns': {}, 'ufuns': {}}


def shared_zs():
    if _SHARED['zs'] is None:
        _SHARED['zs'] = ZS()
    return _SHARED['zs']


def is_sym(v):
    return z3.is_expr(v) or isinstance(v, (VStruct, VOpt, VBox, VObj, VAbs, VMatch)) or type(v).__name__ in ('VFn', 'VFile')


def contains_sym(v):
    if is_sym(v):
        return True
    if isinstance(v, (tuple, list)):
        return any(contains_sym(x) for x in v)
    return False


class Interp:
    def __init__(self, registry, zs=None):
        self.reg = registry
        self.zs = zs or shared_zs()
        self.zs.on_intern = self.interned_object
        self.path: Path = None
        self.recfuns = _SHARED['recfuns']   # spec name -> z3 RecFunction / Function (process-wide: z3 names are global)
        self.assumptions = set()    # textual list of assumptions actually used
        self.callees = {}           # qual -> how it was treated
        self.stats = collections.Counter()
        self.cur_contract = None
        self.trace_calls = set()

    # ================================================================ obligations
    def oblige(self, kind, goal, node=None, note=''):
        p = self.path
        if not p.live or self.cur_pure():
            return
        if goal is True:
            goal = z3.BoolVal(True)
        if goal is False:
            goal = z3.BoolVal(False)
        line = getattr(node, 'lineno', 0) if node is not None else 0
        base = self.cur_fs.lines[0] if getattr(self, 'cur_fs', None) and line else 0
        rel = line - base if line else 0
        n = p.counter.get(('obl', kind, rel), 0)
        p.counter[('obl', kind, rel)] = n + 1
        name = f'{kind}@L{rel}#{n}/p{p.pid()}'
        extra = [t for k, t in getattr(self, 'scoped', []) if k in kind]
        goal, inst = self.skolemize_goal(goal, list(p.pc) + extra)
        inst = inst + self.match_lemmas([goal] + inst + list(p.pc) + extra)
        p.obligs.append(Obligation(name, kind, list(p.pc) + extra + inst, goal, line, p.pid(), note))

    def match_lemmas(self, terms, cap=60):
        """instances of the universally quantified lemma instances (uses=[(lemma, {v: '*'})]) at the ground terms of this obligation that
        match the lemma's trigger (the left-hand side of its equational goal): plain first-order matching, one level — what E-matching
        would do, done here so that every back end gets the instances (the quantified lemma itself stays among the assumptions)"""
        ql = getattr(self, 'qlemmas', None)
        if not ql:
            return []
        heads = {pat.decl().name() for _q, _b, pat in ql}
        cache = self.__dict__.setdefault('_cand_cache', {})      # formula id -> (formula, candidate terms): the path condition is shared by many obligations

        def candidates(f):
            got = cache.get(f.get_id())
            if got is not None and got[0].eq(f):
                return got[1]
            found, seen_, stack_ = [], set(), [f]
            while stack_:
                t = stack_.pop()
                if t.get_id() in seen_:
                    continue
                seen_.add(t.get_id())
                if z3.is_quantifier(t) or not z3.is_app(t) or t.num_args() == 0:
                    continue
                if t.decl().name() in heads:
                    found.append(t)
                stack_.extend(t.children())
            cache[f.get_id()] = (f, found)
            return found
        ground, seen = [], set()
        for f in terms:
            if z3.is_expr(f):
                for t in candidates(f):
                    if t.get_id() not in seen:
                        seen.add(t.get_id())
                        ground.append(t)
        out, done = [], set()
        for _round in (0, 1):
          # (second round: the terms of the first round's instances — an unfolding nsel(s, n) = nsel(s, n - 1) + ... brings nsel(s, n - 1))
          if _round == 1:
            if not out:
                break
            for f in list(out):
                for t in candidates(f):
                    if t.get_id() not in seen:
                        seen.add(t.get_id())
                        ground.append(t)
          for qvars, body, pat in ql:
              qids = {q.get_id(): q for q in qvars}

              def match(pt, gt, b):
                  if pt.get_id() in qids:
                      if pt.sort() != gt.sort():
                          return False
                      if pt.get_id() in b:
                          return b[pt.get_id()].get_id() == gt.get_id()
                      b[pt.get_id()] = gt
                      return True
                  if not (z3.is_app(pt) and z3.is_app(gt)) or pt.decl().name() != gt.decl().name() or pt.num_args() != gt.num_args() or pt.sort() != gt.sort():
                      return False
                  if pt.num_args() == 0:
                      return pt.get_id() == gt.get_id()
                  return all(match(pc_, gc_, b) for pc_, gc_ in zip(pt.children(), gt.children()))
              for g in ground:
                  if g.decl().name() != pat.decl().name():
                      continue
                  b = {}
                  if match(pat, g, b) and len(b) == len(qvars):
                      key = (body.get_id(),) + tuple(b[q.get_id()].get_id() for q in qvars)
                      if key not in done and len(out) < cap:
                          done.add(key)
                          out.append(z3.substitute(body, *[(q, b[q.get_id()]) for q in qvars]))
        return out

    def skolemize_goal(self, goal, pc):
        """a goal `forall k: Int. body(k)` (or a conjunction with such parts) is proved for a fresh constant instead, and every
        assumption of the same shape (forall over one Int) is additionally instantiated at that constant (and its neighbours):
        sound both ways — the quantified assumptions stay — and it spares the solver the instantiation search over
        sequence terms, where MBQI was observed to give up (unknown after 40 s on a three-line invariant)"""
        if not z3.is_expr(goal):
            return goal, []
        sks = []

        def sk(g):
            if z3.is_quantifier(g) and g.is_forall() and all(g.var_sort(i) == z3.IntSort() for i in range(g.num_vars())):
                cs = [self.path.fresh(z3.IntSort(), 'sk_' + g.var_name(i)) for i in range(g.num_vars())]
                sks.extend(cs)
                return sk(z3.substitute_vars(g.body(), *reversed(cs)))
            if z3.is_and(g):
                return z3.And(*[sk(c) for c in g.children()])
            if z3.is_implies(g):
                return z3.Implies(g.arg(0), sk(g.arg(1)))
            return g
        g2 = sk(goal)
        if not sks:
            return goal, []
        inst = []
        for a in pc:
            if z3.is_quantifier(a) and a.is_forall() and a.num_vars() == 1 and a.var_sort(0) == z3.IntSort():
                for c in sks:
                    for t in (c, c - 1, c + 1):
                        inst.append(z3.substitute_vars(a.body(), t))
        return g2, inst

    # ================================================================ truth / equality / lifting
    def interned_object(self, fact, const, obj):
        """a concrete python object used where an opaque object is expected: distinct from the other interned objects, and
        its declared opaque attributes have their real values"""
        p = getattr(self, 'path', None)
        if p is None:
            return
        p.assume(fact)
        for an, S in (getattr(getattr(self, 'cur_contract', None), 'opaque_attrs', None) or {}).items():
            if not hasattr(obj, an):
                continue
            rv = getattr(obj, an)
            inner = S.inner if isinstance(S, api.Opt) else S
            try:
                f = self.ufun(f'attr_{an}', self.zs.zsort(api.Obj), self.zs.zsort(inner))
                if isinstance(S, api.Opt):
                    nf = self.ufun(f'attr_{an}_none', self.zs.zsort(api.Obj), z3.BoolSort())
                    p.assume(nf(const) == (rv is None))
                    if rv is not None:
                        p.assume(f(const) == self.zs.lift(rv, self.zs.zsort(inner)))
                else:
                    p.assume(f(const) == self.zs.lift(rv, self.zs.zsort(inner)))
            except TypeError:
                pass

    def truth(self, v):
        """python truthiness -> python bool or z3 Bool"""
        if isinstance(v, bool):
            return v
        if z3.is_expr(v):
            if v.sort() == self.zs.zsort(api.Obj):
                return self.ufun('obj_truthy', v.sort(), z3.BoolSort())(v)       # a raw opaque-object term (element of a ghost sequence)
            if z3.is_bool(v):
                return v
            if z3.is_int(v):
                return v != 0
            if z3.is_string(v) or isinstance(v.sort(), z3.SeqSortRef):
                return z3.Length(v) > 0
            if v.sort().name() in self.zs.union_by_sort:
                dt, S = self.zs.union_by_sort[v.sort().name()]
                alts = []
                for i, (ctor, (pyt, arm)) in enumerate(S.arms.items()):
                    alts.append(z3.And(dt.recognizer(i)(v), self.truth(dt.accessor(i, 0)(v))))
                return z3.Or(*alts)
            if v.sort().name() in self.zs.enum_by_sort:
                return True
            if isinstance(v.sort(), z3.ArraySortRef) and v.sort().range() == z3.BoolSort():
                return z3.Not(v == z3.K(v.sort().domain(), False))          # a set is true iff it is not empty
            raise Unsupported(f'truth of sort {v.sort()}')
        if isinstance(v, VOpt):
            t = self.truth(v.val)
            return self.land(self.lnot(v.none), t)
        if isinstance(v, VBox):
            if v.kind in ('list', 'deque'):
                return z3.Length(v.term) > 0
            if v.kind == 'set':
                if v.term is None:
                    return False
                return z3.Not(v.term == z3.K(v.term.sort().domain(), False))
            raise Unsupported('truth of dict box')
        if type(v).__name__ == 'PyList':
            return len(v.items) > 0
        if type(v).__name__ == 'PyDict':
            return len(v.d) > 0
        if isinstance(v, VMatch):
            return True
        if isinstance(v, (VStruct, VObj, VAbs)):
            if isinstance(v, VStruct) and v.pycls is not None and issubclass(v.pycls, tuple) and hasattr(v.pycls, '_fields'):
                return len(v.pycls._fields) > 0
            if isinstance(v, VStruct) and v.pycls is not None and (hasattr(v.pycls, '__bool__') or hasattr(v.pycls, '__len__')):
                raise Unsupported('truth of object with __bool__/__len__')
            if isinstance(v, VObj) and z3.is_expr(getattr(v, 'term', None)):
                # an opaque object may be an empty container: its truthiness is an unknown (but fixed) function of the object
                return self.ufun('obj_truthy', v.term.sort(), z3.BoolSort())(v.term)
            return True
        return bool(v)

    def lnot(self, a):
        if isinstance(a, bool):
            return not a
        return z3.Not(a)

    def land(self, *xs):
        ys = []
        for x in xs:
            if x is False:
                return False
            if x is True:
                continue
            ys.append(x)
        if not ys:
            return True
        return ys[0] if len(ys) == 1 else z3.And(*ys)

    def lor(self, *xs):
        ys = []
        for x in xs:
            if x is True:
                return True
            if x is False:
                continue
            ys.append(x)
        if not ys:
            return False
        return ys[0] if len(ys) == 1 else z3.Or(*ys)

    def ite(self, c, a, b):
        """merge two values under condition c (pure mode)"""
        if c is True:
            return a
        if c is False:
            return b
        if a is b:
            return a
        if isinstance(a, VBox) != isinstance(b, VBox) and (isinstance(a, VBox) and a.kind in ('list', 'deque') or isinstance(b, VBox) and b.kind in ('list', 'deque')):
            a = a.term if isinstance(a, VBox) else a
            b = b.term if isinstance(b, VBox) else b
        if isinstance(a, tuple) and isinstance(b, tuple) and len(a) == len(b) and not (a and isinstance(a[0], tuple)):
            return tuple(self.ite(c, x, y) for x, y in zip(a, b))
        if isinstance(a, tuple) and isinstance(b, tuple):
            srt = self.infer_seq_sort(a)
            if srt is None:
                srt = self.infer_seq_sort(b)
            if srt is None:
                raise Unsupported('ite of tuples of different length and unknown element sort')
            return z3.If(c, self.zs.lift(a, srt), self.zs.lift(b, srt))
        if isinstance(a, VOpt) or isinstance(b, VOpt) or a is None or b is None:
            oa, ob = self.as_opt(a), self.as_opt(b)
            val = oa.val if ob.val is None else (ob.val if oa.val is None else self.ite(c, oa.val, ob.val))
            return VOpt(self.ite(c, oa.none, ob.none), val)
        if isinstance(a, VStruct) and isinstance(b, VStruct) and a.f.keys() == b.f.keys():
            return VStruct(a.sort, a.pycls, {k: self.ite(c, a.f[k], b.f[k]) for k in a.f})
        if isinstance(a, VAbs) and isinstance(b, VAbs):
            return VAbs(z3.If(c, a.term, b.term), a.sort)
        if isinstance(a, VObj) and isinstance(b, VObj):
            return VObj(z3.If(c, a.term, b.term), a.cls)
        if isinstance(a, VBox) and isinstance(b, VBox) and a.kind == b.kind:
            ta, tb = a.term, b.term
            if ta is None and tb is None:
                return a
            if ta is None:
                ta = z3.K(tb.sort().domain(), False)
            if tb is None:
                tb = z3.K(ta.sort().domain(), False)
            return VBox(a.kind, z3.If(c, ta, tb), a.esort)
        if not is_sym(a) and not is_sym(b):
            if type(a) is type(b) and a == b:
                return a
            if isinstance(a, bool) and isinstance(b, bool):
                return z3.If(c, z3.BoolVal(a), z3.BoolVal(b))
            if isinstance(a, int) and isinstance(b, int):
                return z3.If(c, z3.IntVal(a), z3.IntVal(b))
            if isinstance(a, str) and isinstance(b, str):
                return z3.If(c, z3.StringVal(a), z3.StringVal(b))
            for nm, (srt, terms, objs, S) in self.zs.enums.items():
                la = [l for l, o in objs.items() if o is a]
                lb = [l for l, o in objs.items() if o is b]
                if la and lb:
                    return z3.If(c, terms[la[0]], terms[lb[0]])
            raise Unsupported(f'ite of concrete {a!r} / {b!r}')
        a2, b2 = self.zs.common(a, b)
        return z3.If(c, a2, b2)

    def infer_seq_sort(self, items):
        """z3 sequence sort of a python tuple of values (elements: terms, or tuples matching a declared record sort)"""
        for x in items:
            if z3.is_expr(x):
                return z3.SeqSort(x.sort())
            if isinstance(x, tuple):
                for nm, (dt, S) in self.zs.recs.items():
                    if len(S.fields) == len(x):
                        try:
                            self.zs.lift(x, dt)
                            return z3.SeqSort(dt)
                        except (TypeError, z3.Z3Exception):
                            continue
            if isinstance(x, str):
                return z3.SeqSort(z3.StringSort())
            if isinstance(x, bool):
                return z3.SeqSort(z3.BoolSort())
            if isinstance(x, int):
                return z3.SeqSort(z3.IntSort())
        return None

    def as_opt(self, v):
        if isinstance(v, VOpt):
            return v
        if v is None:
            return VOpt(True, None)
        return VOpt(False, v)

    def unwrap(self, v, node=None):
        if isinstance(v, VOpt):
            self.oblige('safety:none-deref', self.lnot(v.none), node)
            self.path.assume(self.lnot(v.none)) if not self.cur_pure() else None
            return v.val
        return v

    def cur_pure(self):
        return getattr(self, '_pure', 0) > 0

    def eq(self, a, b):
        """python == -> bool or z3 Bool"""
        if type(a).__name__ == 'Bottom' or type(b).__name__ == 'Bottom':
            self.qcount += 1
            return z3.Bool(f'bottom!{self.qcount}')
        if isinstance(a, VOpt) or isinstance(b, VOpt):
            if a is None:
                return b.none
            if b is None:
                return a.none
            oa, ob = self.as_opt(a), self.as_opt(b)
            both_none = self.land(oa.none, ob.none)
            if oa.val is None or ob.val is None:
                return both_none
            return self.lor(both_none, self.land(self.lnot(oa.none), self.lnot(ob.none), self.eq(oa.val, ob.val)))
        if a is None or b is None:
            if a is None and b is None:
                return True
            return False       # a non-Opt value is never None
        if isinstance(a, VAbs) and isinstance(b, VAbs):
            _, rank = self.zs.abstract[a.sort.name]
            return rank(a.term) == rank(b.term)
        if isinstance(a, VObj) and isinstance(b, VObj):
            return a.term == b.term
        if isinstance(a, VStruct) or isinstance(b, VStruct):
            return self.struct_eq(a, b)
        if type(a).__name__ == 'PyList' and (z3.is_expr(b) or isinstance(b, (VBox, tuple, list))):
            a = tuple(a.items)
        if type(b).__name__ == 'PyList' and (z3.is_expr(a) or isinstance(a, (VBox, tuple, list))):
            b = tuple(b.items)
        if type(a).__name__ == 'PyList' and type(b).__name__ == 'PyList':
            a, b = tuple(a.items), tuple(b.items)
        if isinstance(a, VBox) or isinstance(b, VBox):
            ta = a.term if isinstance(a, VBox) else a
            tb = b.term if isinstance(b, VBox) else b
            if isinstance(a, VBox) and a.kind == 'set':
                if not isinstance(b, VBox):
                    raise Unsupported('set == non-set')
                if ta is None and tb is None:
                    return True
                if ta is None:
                    ta = z3.K(tb.sort().domain(), False)
                if tb is None:
                    tb = z3.K(ta.sort().domain(), False)
                return ta == tb
            return self.eq(ta, tb)
        if isinstance(a, tuple) and isinstance(b, tuple) and (contains_sym(a) or contains_sym(b)):
            if len(a) != len(b):
                return False
            return self.land(*[self.eq(x, y) for x, y in zip(a, b)])
        if not is_sym(a) and not is_sym(b) and not contains_sym(a) and not contains_sym(b):
            return a == b
        if isinstance(a, (tuple, list)) and z3.is_expr(b):
            a = self.zs.lift(tuple(a), b.sort())
        if isinstance(b, (tuple, list)) and z3.is_expr(a):
            b = self.zs.lift(tuple(b), a.sort())
        try:
            a2, b2 = self.zs.common(a, b)
        except TypeError:
            # different python types never compare equal (e.g. str vs int)
            return False
        if isinstance(a2.sort(), z3.SeqSortRef) and not z3.is_string(a2) and not self.cur_pure():
            # python == of the analysed CODE on sequences: index-recursive; in contract/spec TEXT == is mathematical equality
            return self.zs.seq_eq_fn(a2.sort())(a2, b2, z3.IntVal(0))
        return a2 == b2

    def struct_eq(self, a, b):
        if not (isinstance(a, VStruct) and isinstance(b, VStruct)):
            return False
        cls = a.pycls
        if cls is not None and issubclass(cls, tuple) and hasattr(cls, '_fields'):
            if a.pycls is not b.pycls:
                return False
            return self.land(*[self.eq(a.f[n], b.f[n]) for n in cls._fields])
        if cls is not None and getattr(cls, '__dataclass_params__', None) is not None and cls.__dataclass_params__.eq:
            if a.pycls is not b.pycls:
                return False
            import dataclasses
            names = [f.name for f in dataclasses.fields(cls) if f.compare]
            self.assumptions.add(f'dataclass-generated __eq__ of {cls.__name__} compares fields {names} in order with ==')
            return self.land(*[self.eq(a.f[n], b.f[n]) for n in names])
        if cls is not None and '__eq__' in _mro_dict(cls):
            return self.call_method(a, '__eq__', [b])
        if a is b:
            return True
        raise Unsupported('identity equality of distinct symbolic objects')

    def order(self, op, a, b, node=None):
        """a <op> b for op in lt/le/gt/ge -> bool or z3 Bool"""
        a, b = self.unwrap(a, node), self.unwrap(b, node)
        if isinstance(a, VAbs) and isinstance(b, VAbs):
            _, rank = self.zs.abstract[a.sort.name]
            ra, rb = rank(a.term), rank(b.term)
            return {'lt': ra < rb, 'le': ra <= rb, 'gt': ra > rb, 'ge': ra >= rb}[op]
        if isinstance(a, VStruct):
            r = self.call_method(a, f'__{op}__', [b])
            return r
        if isinstance(a, tuple) and isinstance(b, tuple) and (contains_sym(a) or contains_sym(b)):
            return self.tuple_order(op, a, b, node)
        if not is_sym(a) and not is_sym(b):
            return getattr(operator, op)(a, b)
        if isinstance(a, VBox):
            a = a.term
        if isinstance(b, VBox):
            b = b.term
        a2, b2 = self.zs.common(a, b)
        s = a2.sort()
        f = {'lt': lambda x, y: x < y, 'le': lambda x, y: x <= y, 'gt': lambda x, y: x > y, 'ge': lambda x, y: x >= y}[op]
        if s == z3.BoolSort():
            return f(z3.If(a2, 1, 0), z3.If(b2, 1, 0))
        if s == z3.IntSort() or s == z3.StringSort():
            return f(a2, b2)
        if s.name() in self.zs.union_by_sort:
            dt, S = self.zs.union_by_sort[s.name()]
            same = []
            res = z3.BoolVal(False)
            for i, (ctor, (pyt, arm)) in enumerate(S.arms.items()):
                both = z3.And(dt.recognizer(i)(a2), dt.recognizer(i)(b2))
                same.append(both)
                res = z3.If(both, self.order(op, dt.accessor(i, 0)(a2), dt.accessor(i, 0)(b2)), res)
            self.oblige('safety:order-same-type', z3.Or(*same), node, 'TypeError: < between different types')
            return res
        raise Unsupported(f'order on sort {s}')

    def tuple_order(self, op, a, b, node=None):
        """python's tuple comparison: the first position where the elements are not == decides (with the strict comparison of
        these two elements); if there is none, the lengths decide.  Comparing None with anything at the deciding position is a
        TypeError (safety obligation under the condition that this position decides)."""
        strict = {'lt': 'lt', 'le': 'lt', 'gt': 'gt', 'ge': 'gt'}[op]
        if not a or not b:
            return getattr(operator, op)(len(a), len(b))
        x, y = a[0], b[0]
        e = self.eq(x, y)
        rest = self.tuple_order(op, a[1:], b[1:], node)
        if e is True:
            return rest
        if isinstance(x, VOpt) or isinstance(y, VOpt):
            xn = x.none if isinstance(x, VOpt) else (x is None)
            yn = y.none if isinstance(y, VOpt) else (y is None)
            ne = self.lnot(e)
            ok = self.land(self.lnot(xn), self.lnot(yn))
            self.oblige('safety:order-none', self.lor(self.lnot(ne), ok), node, 'TypeError: < between None and a value')
            xv = x.val if isinstance(x, VOpt) else x
            yv = y.val if isinstance(y, VOpt) else y
            here = self.order(strict, xv, yv, node) if (xv is not None and yv is not None) else False
        else:
            here = self.order(strict, x, y, node)
        return self.lor(self.land(self.lnot(e), here), self.land(e, rest))

    # ================================================================ fresh / havoc / snapshot
    def fresh_like(self, v, base='h'):
        p = self.path
        if z3.is_expr(v):
            return p.fresh(v.sort(), base)
        if isinstance(v, VStruct):
            return VStruct(v.sort, v.pycls, {k: self.fresh_like(x, f'{base}.{k}') for k, x in v.f.items()})
        if isinstance(v, VOpt):
            return VOpt(p.fresh(z3.BoolSort(), base + '?none'), self.fresh_like(v.val, base + '!') if v.val is not None else None)
        if isinstance(v, VBox):
            return VBox(v.kind, p.fresh(v.term.sort(), base), v.esort)
        if isinstance(v, VAbs):
            return VAbs(p.fresh(v.term.sort(), base), v.sort)
        if isinstance(v, VObj):
            return VObj(p.fresh(v.term.sort(), base), v.cls)
        if isinstance(v, tuple):
            return tuple(self.fresh_like(x, f'{base}.{i}') for i, x in enumerate(v))
        if isinstance(v, bool):
            return p.fresh(z3.BoolSort(), base)
        if isinstance(v, int):
            return p.fresh(z3.IntSort(), base)
        if isinstance(v, str):
            return p.fresh(z3.StringSort(), base)
        if v is None:
            raise Unsupported(f'havoc of a None-valued variable {base}: declare its sort in Loop.locals')
        raise Unsupported(f'havoc of {type(v).__name__}')

    def havoc_inplace(self, v, base='h'):
        """havoc a mutable object in place (keeps aliasing)"""
        if isinstance(v, VBox):
            v.term = self.path.fresh(v.term.sort(), base)
        elif isinstance(v, VStruct):
            for k in list(v.f):
                x = v.f[k]
                if isinstance(x, (VBox, VStruct)):
                    self.havoc_inplace(x, f'{base}.{k}')
                else:
                    v.f[k] = self.fresh_like(x, f'{base}.{k}')
        else:
            raise Unsupported('havoc_inplace of immutable value')

    def snapshot(self, v, memo=None):
        """deep copy of a value graph (terms are immutable)"""
        if memo is None:
            memo = {}
        if id(v) in memo:
            return memo[id(v)]
        if isinstance(v, VStruct):
            n = VStruct(v.sort, v.pycls, {}, v.tag, v.oid)
            memo[id(v)] = n
            n.f = {k: self.snapshot(x, memo) for k, x in v.f.items()}
            return n
        if isinstance(v, VBox):
            n = VBox(v.kind, v.term, v.esort, v.keys, v.vsort)
            memo[id(v)] = n
            return n
        if isinstance(v, VOpt):
            return VOpt(v.none, self.snapshot(v.val, memo))
        if isinstance(v, tuple):
            return tuple(self.snapshot(x, memo) for x in v)
        return v

    def sym_of_sort(self, S, base, frame):
        return self.zs.sym(S, self.path.fresh_name(base), self.resolver(frame))

    def resolver(self, frame):
        mod = frame.module if frame is not None else None

        def res(expr):
            if ':' in expr:
                m, q = expr.split(':')
                return src.resolve_attr(src.import_module(m), q)
            ns = dict(vars(builtins))
            if mod is not None:
                ns.update(vars(mod))
            return eval(expr, ns)
        return res


def _mro_dict(cls):
    d = {}
    for c in reversed(cls.__mro__):
        if c is object:
            continue
        d.update(c.__dict__)
    return d
