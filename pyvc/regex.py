"""pyvc.regex — Python regular expressions of the REAL code: translation of the pattern (as parsed by Python's own
re._parser) into an SMT regular expression where possible, and analysis of capture groups.

Exact for: literals, classes, ranges, ., alternation, groups, greedy/lazy repetition (as languages), \\d \\s \\w on the
ASCII subset (listed assumption), anchors ^ $ \\A \\Z at the ends.  Not translated (-> None): back-references,
look-around, \\b.  Capture-group VALUES under backtracking priorities are never modelled: a group is an abstract string
constrained only by its sub-pattern's language."""
from __future__ import annotations
import re
import z3

try:
    import re._parser as sre_parse
    import re._constants as sre_c
except ImportError:          # pragma: no cover
    import sre_parse
    import sre_constants as sre_c

STR = z3.StringSort()
RES = z3.ReSort(STR)


class Untranslatable(Exception):
    pass


def parse(pattern: 're.Pattern'):
    return sre_parse.parse(pattern.pattern, pattern.flags)


def _chars(lo, hi):
    return z3.Range(chr(lo), chr(hi)) if lo != hi else z3.Re(chr(lo))


ALLCHAR = z3.AllChar(RES)


def _category(cat, flags):
    n = str(cat)
    asc = {
        'CATEGORY_DIGIT': z3.Range('0', '9'),
        'CATEGORY_SPACE': z3.Union(z3.Re(' '), z3.Range('\t', '\r')),
        'CATEGORY_WORD': z3.Union(z3.Range('a', 'z'), z3.Range('A', 'Z'), z3.Range('0', '9'), z3.Re('_')),
    }
    if not (flags & re.ASCII):
        # a str pattern without re.ASCII: \w and \s also match non-ASCII characters.  Representative ranges are added (Latin-1 /
        # Latin Extended letters, CJK ideographs; NBSP, NEL, the FS-US separators, LINE / PARAGRAPH SEPARATOR, IDEOGRAPHIC SPACE) so that
        # `[a-zA-Z0-9_]` and `\w` (or ` \t` and `\s`) are DIFFERENT languages, as they are in Python.  \d stays on the ASCII digits
        # (Unicode decimal digits are exercised by the bounded tokeniser checks).
        asc['CATEGORY_WORD'] = z3.Union(asc['CATEGORY_WORD'], z3.Range('\u00c0', '\u00d6'), z3.Range('\u00d8', '\u00f6'), z3.Range('\u00f8', '\u024f'), z3.Range('\u4e00', '\u9fff'))
        asc['CATEGORY_SPACE'] = z3.Union(asc['CATEGORY_SPACE'], z3.Range('\x1c', '\x1f'), z3.Re('\x85'), z3.Re('\xa0'), z3.Range('\u2028', '\u2029'), z3.Re('\u3000'))
    base = n.replace('CATEGORY_NOT_', 'CATEGORY_').replace('CATEGORY_UNI_', 'CATEGORY_').replace('CATEGORY_LOC_', 'CATEGORY_')
    if base not in asc:
        raise Untranslatable(n)
    r = asc[base]
    if 'NOT_' in n:
        return z3.Intersect(ALLCHAR, z3.Complement(r))
    return r


def to_re(sub, flags=0, notes=None, drop_assertions=False):
    """sre SubPattern (or list of items) -> z3 regular expression"""
    parts = []
    items = list(sub)
    for idx, (op, av) in enumerate(items):
        name = str(op)
        if name == 'LITERAL':
            parts.append(z3.Re(chr(av)))
        elif name == 'NOT_LITERAL':
            parts.append(z3.Intersect(ALLCHAR, z3.Complement(z3.Re(chr(av)))))
        elif name == 'ANY':
            if flags & re.DOTALL:
                parts.append(ALLCHAR)
            else:
                parts.append(z3.Intersect(ALLCHAR, z3.Complement(z3.Re('\n'))))
        elif name == 'IN':
            neg = False
            alts = []
            for o2, a2 in av:
                n2 = str(o2)
                if n2 == 'NEGATE':
                    neg = True
                elif n2 == 'LITERAL':
                    alts.append(z3.Re(chr(a2)))
                elif n2 == 'RANGE':
                    alts.append(_chars(a2[0], a2[1]))
                elif n2 == 'CATEGORY':
                    alts.append(_category(a2, flags))
                    if notes is not None:
                        notes.add('character categories (\\d \\s \\w) are modelled on the ASCII subset plus representative non-ASCII ranges for \\w and \\s')
                else:
                    raise Untranslatable(n2)
            r = alts[0] if len(alts) == 1 else z3.Union(*alts)
            parts.append(z3.Intersect(ALLCHAR, z3.Complement(r)) if neg else r)
        elif name == 'CATEGORY':
            parts.append(_category(av, flags))
        elif name == 'BRANCH':
            alts = [to_re(x, flags, notes, drop_assertions) for x in av[1]]
            parts.append(alts[0] if len(alts) == 1 else z3.Union(*alts))
        elif name == 'SUBPATTERN':
            parts.append(to_re(av[3], flags, notes, drop_assertions))
        elif name in ('MAX_REPEAT', 'MIN_REPEAT', 'POSSESSIVE_REPEAT'):
            lo, hi, body = av
            b = to_re(body, flags, notes, drop_assertions)
            if hi == sre_c.MAXREPEAT:
                if lo == 0:
                    parts.append(z3.Star(b))
                elif lo == 1:
                    parts.append(z3.Plus(b))
                else:
                    parts.append(z3.Concat(z3.Loop(b, lo, lo), z3.Star(b)))
            elif lo == 0 and hi == 1:
                parts.append(z3.Option(b))
            else:
                parts.append(z3.Loop(b, lo, hi))
        elif name in ('ASSERT', 'ASSERT_NOT') and drop_assertions:
            continue          # zero-width: contributes nothing to the matched text
        elif name == 'AT' and drop_assertions:
            continue
        elif name == 'AT':
            a = str(av)
            if a in ('AT_BEGINNING', 'AT_BEGINNING_STRING') and idx == 0:
                continue
            if a in ('AT_END_STRING',) and idx == len(items) - 1:
                continue
            if a == 'AT_END' and idx == len(items) - 1:
                # $ also matches before a trailing newline
                parts.append(z3.Option(z3.Re('\n')))
                continue
            raise Untranslatable(a)
        else:
            raise Untranslatable(name)
    if not parts:
        return z3.Re('')
    return parts[0] if len(parts) == 1 else z3.Concat(*parts)


def groups(pattern: 're.Pattern'):
    """-> {group number: (sub-pattern tree, always_participates)}"""
    tree = parse(pattern)
    out = {}

    def walk(sub, optional):
        for op, av in sub:
            name = str(op)
            if name == 'SUBPATTERN':
                g = av[0]
                if g is not None:
                    out[g] = (av[3], not optional)
                walk(av[3], optional)
            elif name == 'BRANCH':
                for x in av[1]:
                    walk(x, True)
            elif name in ('MAX_REPEAT', 'MIN_REPEAT', 'POSSESSIVE_REPEAT'):
                walk(av[2], optional or av[0] == 0)
            elif name in ('ASSERT', 'ASSERT_NOT'):
                walk(av[1], True)
    walk(tree, False)
    return out


def group_language(pattern, k, notes=None):
    """z3 RE of the strings group k can hold when it participates, or None if not translatable"""
    g = groups(pattern)
    if k not in g:
        return None
    try:
        return to_re(g[k][0], pattern.flags, notes)
    except Untranslatable:
        return None


def whole_language(pattern, notes=None):
    try:
        return to_re(parse(pattern), pattern.flags, notes)
    except Untranslatable:
        return None


def ident(pattern):
    import hashlib
    return 're' + hashlib.sha1((pattern.pattern + '|' + str(pattern.flags)).encode()).hexdigest()[:10]


def alternatives(pattern):
    """top-level alternation of the pattern: [(language of the matched text (assertions dropped) or None,
    groups that always participate in this alternative, all groups of this alternative)]"""
    tree = parse(pattern)
    items = list(tree)
    if len(items) == 1 and str(items[0][0]) == 'BRANCH':
        alts = items[0][1][1]
    else:
        alts = [tree]
    out = []
    for a in alts:
        always, allg = set(), set()

        def walk(sub, optional):
            for op, av in sub:
                name = str(op)
                if name == 'SUBPATTERN':
                    if av[0] is not None:
                        allg.add(av[0])
                        if not optional:
                            always.add(av[0])
                    walk(av[3], optional)
                elif name == 'BRANCH':
                    for x in av[1]:
                        walk(x, True)
                elif name in ('MAX_REPEAT', 'MIN_REPEAT', 'POSSESSIVE_REPEAT'):
                    walk(av[2], optional or av[0] == 0)
                elif name in ('ASSERT', 'ASSERT_NOT'):
                    walk(av[1], True)
        walk(a, False)
        try:
            lang = to_re(a, pattern.flags, None, drop_assertions=True)
        except Untranslatable:
            lang = None
        out.append((lang, always, allg))
    return out


def search_language(pattern, notes=None):
    """the set of SUBJECT strings in which pattern.search() finds a match, for patterns of the shape
       [ \\A | (alt | alt | \\A ...) ] body [ $ | \\Z ]
    (anchors only at the two ends, the start anchor possibly as one alternative of a leading group) — or None"""
    items = list(parse(pattern))
    flags = pattern.flags
    ANY = z3.Star(z3.AllChar(z3.ReSort(z3.StringSort())))
    tail = ANY
    if items and str(items[-1][0]) == 'AT':
        a = str(items[-1][1])
        if a == 'AT_END_STRING':
            tail = None
        elif a == 'AT_END' and not (flags & re.MULTILINE):
            tail = z3.Option(z3.Re('\n'))
        else:
            return None
        items = items[:-1]
    heads = None        # list of (anchored at the start?, language of this alternative of the first item)
    if items:
        op, av = items[0]
        name = str(op)
        first = None
        if name == 'AT' and str(av) in ('AT_BEGINNING', 'AT_BEGINNING_STRING') and not (flags & re.MULTILINE):
            heads, items = [(True, z3.Re(''))], items[1:]
        else:
            if name == 'SUBPATTERN' and len(list(av[3])) == 1 and str(list(av[3])[0][0]) == 'BRANCH':
                first = list(av[3])[0][1][1]
            elif name == 'BRANCH':
                first = av[1]
            if first is not None:
                heads = []
                for alt in first:
                    al = list(alt)
                    if len(al) == 1 and str(al[0][0]) == 'AT' and str(al[0][1]) in ('AT_BEGINNING', 'AT_BEGINNING_STRING') and not (flags & re.MULTILINE):
                        heads.append((True, z3.Re('')))
                    else:
                        try:
                            heads.append((False, to_re(alt, flags, notes)))
                        except Untranslatable:
                            return None
                items = items[1:]
    try:
        body = to_re(items, flags, notes) if items else z3.Re('')
    except Untranslatable:
        return None
    if heads is None:
        heads = [(False, z3.Re(''))]
    langs = []
    for anchored, h in heads:
        parts = ([] if anchored else [ANY]) + [h, body] + ([tail] if tail is not None else [])
        langs.append(z3.Concat(*parts))
    return langs[0] if len(langs) == 1 else z3.Union(*langs)
