"""pyvc.methods — builtins and methods of str / sequences / boxes on symbolic values."""
from __future__ import annotations
import ast, builtins, collections, copy, operator, typing, itertools
import z3
from . import api
from .core import simp, Unsupported, PathEnd, PyRaise
from .zsorts import VStruct, VOpt, VBox, VObj, VAbs, VMatch
from . import regex as rx
import re as _re
from .interp import Frame, Closure, BoundMethod, Builtin, is_sym, contains_sym
from .exprs import PyList, PyDict, LazyGen
from .stmts import IterView, ExcVal

STR = z3.StringSort()
INT = z3.IntSort()
DIGITS = z3.Plus(z3.Range('0', '9'))


class MethodMixin:
    def init_specials(self):
        self.special = {}
        self.special_obj = {}

        def reg(obj, fn):
            self.special[id(obj)] = fn
            self.special_obj[id(obj)] = obj
        reg(len, self.b_len)
        reg(isinstance, self.b_isinstance)
        reg(int, self.b_int)
        reg(str, self.b_str)
        reg(bool, lambda a, k, n, f: self.truth(a[0]) if a else False)
        reg(max, lambda a, k, n, f: self.b_minmax(a, True))
        reg(min, lambda a, k, n, f: self.b_minmax(a, False))
        reg(abs, lambda a, k, n, f: abs(a[0]) if not is_sym(a[0]) else z3.If(a[0] < 0, -a[0], a[0]))
        reg(tuple, self.b_tuple)
        reg(list, self.b_list)
        reg(set, self.b_set)
        reg(sorted, self.b_sorted)
        reg(reversed, self.b_reversed)
        reg(zip, self.b_zip)
        reg(enumerate, self.b_enumerate)
        reg(range, self.b_range)
        reg(any, lambda a, k, n, f: self.quantify_gen(a[0], True) if isinstance(a[0], LazyGen) else self.lor(*[self.truth(x) for x in self.concrete_iter(a[0])]))
        reg(all, lambda a, k, n, f: self.quantify_gen(a[0], False) if isinstance(a[0], LazyGen) else self.land(*[self.truth(x) for x in self.concrete_iter(a[0])]))
        reg(hash, self.b_hash)
        reg(iter, lambda a, k, n, f: a[0])
        reg(typing.cast, lambda a, k, n, f: a[1])
        reg(copy.copy, self.b_copy)
        reg(copy.deepcopy, self.b_deepcopy)
        reg(operator.lt, lambda a, k, n, f: self.order('lt', a[0], a[1], n))
        reg(operator.le, lambda a, k, n, f: self.order('le', a[0], a[1], n))
        reg(operator.gt, lambda a, k, n, f: self.order('gt', a[0], a[1], n))
        reg(operator.ge, lambda a, k, n, f: self.order('ge', a[0], a[1], n))
        reg(operator.eq, lambda a, k, n, f: self.eq(a[0], a[1]))
        reg(operator.ne, lambda a, k, n, f: self.compare(ast.NotEq(), a[0], a[1], n))
        reg(itertools.chain, self.b_chain)
        reg(print, lambda a, k, n, f: None)
        reg(repr, self.b_repr)
        reg(getattr, self.b_getattr)
        reg(hasattr, self.b_hasattr)
        reg(type, self.b_type)
        reg(sum, self.b_sum)
        import time as _time
        reg(_time.time, lambda a, k, n, f: (self.path.trace.append(('time.time',)), self.path.fresh(INT, 'now'))[1])
        reg(super, self.b_super)
        import os as _os
        reg(open, self.b_open)
        reg(_os.replace, lambda a, k, n, f: self.path.trace.append(('os.replace', a[0], a[1])))
        reg(_os.unlink, lambda a, k, n, f: self.path.trace.append(('os.unlink', a[0])))
        import sys as _sys
        def _exit(a, k, n, f):
            raise PyRaise(SystemExit, tuple(a), n)
        reg(_sys.exit, _exit)
        import codecs as _codecs
        reg(_codecs.decode, lambda a, k, n, f: self.bytes_decode(a[0], a[1] if len(a) > 1 else k.get('encoding', 'utf-8'), n))
        import os.path
        reg(os.path.join, lambda a, k, n, f: os.path.join(*a) if not any(is_sym(x) for x in a) else self.ufun(f'py_path_join{len(a)}', *([STR] * len(a)), STR)(*[self.zs.lift(x, STR) for x in a]))
        for nm_ in ('exists', 'isdir', 'isfile', 'islink'):
            reg(getattr(os.path, nm_), lambda a, k, n, f, nm_=nm_: getattr(os.path, nm_)(*a) if not is_sym(a[0]) else self.ufun('fs_' + nm_, STR, z3.BoolSort())(a[0]))
        for nm_ in ('basename', 'dirname', 'normpath', 'abspath', 'realpath'):
            reg(getattr(os.path, nm_), lambda a, k, n, f, nm_=nm_: getattr(os.path, nm_)(*a) if not is_sym(a[0]) else self.ufun('py_path_' + nm_, STR, STR)(a[0]))
        reg(os.remove, lambda a, k, n, f: self.path.trace.append(('os.remove', a[0])))
        import shutil as _shutil
        reg(_shutil.copymode, lambda a, k, n, f: self.path.trace.append(('shutil.copymode', a[0], a[1])))
        reg(os.rename, lambda a, k, n, f: self.path.trace.append(('os.rename', a[0], a[1])))
        reg(os.makedirs, lambda a, k, n, f: self.path.trace.append(('os.makedirs', a[0])))
        reg(os.path.isabs, lambda a, k, n, f: os.path.isabs(a[0]) if not is_sym(a[0]) else self.ufun('py_isabs', STR, z3.BoolSort())(a[0]))
        for nm in ('match', 'fullmatch', 'search'):
            reg(getattr(_re, nm), lambda a, k, n, f, nm=nm: self.m_pattern(a[0] if isinstance(a[0], _re.Pattern) else _re.compile(a[0], *a[2:]), nm, [a[1]], n) if is_sym(a[1]) else getattr(_re, nm)(*a))
        reg(_re.sub, self.b_re_sub)
        import shlex as _shlex
        reg(_shlex.quote, lambda a, k, n, f: _shlex.quote(a[0]) if not is_sym(a[0]) else self.ufun('py_shlex_quote', STR, STR)(self.zs.lift(a[0], STR)))
        reg(api.unit, lambda a, k, n, f: (a[0],))
        names_ = self.contract_names_for(None, None)
        for nm_ in ('re_match', 're_group', 're_group_none', 'emptyset', 'rangeset', 'setadd', 'rev', 'shlex_quote'):
            reg(getattr(api, nm_), names_[nm_].fn)
        reg(api.implies, lambda a, k, n, f: self.lor(self.lnot(self.truth(a[0])), self.truth(a[1])))

    # ------------------------------------------------------------------ builtins
    def b_len(self, a, k, n, f):
        v = self.unwrap(a[0], n)
        if isinstance(v, PyList):
            return len(v.items)
        if isinstance(v, PyDict):
            return len(v.d)
        if isinstance(v, VBox):
            if v.kind in ('list', 'deque'):
                return z3.Length(v.term)
            if v.kind == 'set':
                if v.term is None:
                    return 0
                self.assumptions.add('len(set) is an uninterpreted non-negative function of the set (cardinality is not modelled)')
                c = self.ufun('py_card_' + ''.join(ch if ch.isalnum() else '_' for ch in str(v.term.sort())), v.term.sort(), INT)(v.term)
                if not self.cur_pure():
                    self.path.assume(c >= 0)
                return c
            if v.kind == 'dict':
                return self.card(v.term)          # the number of keys
            raise Unsupported('len of dict box')
        if z3.is_expr(v):
            return z3.Length(v)
        if isinstance(v, VStruct):
            return self.call_method(v, '__len__', [], {}, n)
        return len(v)

    def isinst(self, v, t, n=None):
        if isinstance(t, tuple):
            return self.lor(*[self.isinst(v, x, n) for x in t])
        if isinstance(v, VOpt):
            if t is type(None):
                return v.none
            return self.land(self.lnot(v.none), self.isinst(v.val, t, n))
        if isinstance(v, VStruct):
            if v.pycls is None:
                raise Unsupported('isinstance on struct without class')
            return isinstance(t, type) and issubclass(v.pycls, t)
        if isinstance(v, VBox):
            return {'list': list, 'deque': collections.deque, 'set': set, 'dict': dict}[v.kind] is t or (t in (collections.abc.Iterable,))
        if isinstance(v, PyList):
            return t in (list,) if v.kind == 'list' else (t is collections.deque)
        if isinstance(v, PyDict):
            return t is dict
        if isinstance(v, ExcVal):
            return issubclass(v.cls, t)
        if isinstance(v, VAbs):
            raise Unsupported('isinstance on abstract element')
        if isinstance(v, VObj):
            return self.obj_isinstance(v, t)
        if z3.is_expr(v):
            s = v.sort()
            sub = lambda pyt: isinstance(t, type) and issubclass(pyt, t) or (t in (collections.abc.Iterable, collections.abc.Sequence) and pyt in (str, tuple))
            if s == z3.BoolSort():
                return sub(bool)
            if s == INT:
                return sub(int)
            if s == STR:
                return sub(str)
            if isinstance(s, z3.SeqSortRef):
                return sub(tuple) or t is list
            if s.name() in self.zs.union_by_sort:
                dt, S = self.zs.union_by_sort[s.name()]
                alts = []
                for i, (ctor, (pyt, arm)) in enumerate(S.arms.items()):
                    if isinstance(t, type) and issubclass(pyt, t):
                        alts.append(dt.recognizer(i)(v))
                return self.lor(*alts)
            if s.name() in self.zs.enum_by_sort:
                srt, terms, objs, S = self.zs.enum_by_sort[s.name()]
                return self.lor(*[v == terms[lb] for lb, o in objs.items() if isinstance(o, t)])
            if s == self.zs.zsort(api.Obj):
                return self.obj_isinstance(VObj(v), t)       # a raw opaque-object term (element of a symbolic sequence of objects)
            raise Unsupported(f'isinstance on sort {s}')
        return isinstance(v, t)

    def b_isinstance(self, a, k, n, f):
        return self.isinst(a[0], a[1], n)

    def obj_isinstance(self, v, t):
        """class membership of an opaque object: an uninterpreted predicate per class"""
        if isinstance(t, tuple):
            return self.lor(*[self.obj_isinstance(v, x) for x in t])
        if t is type(None):
            return False
        return self.ufun(f'isinst_{t.__name__}', self.zs.zsort(api.Obj), z3.BoolSort())(v.term)

    def b_int(self, a, k, n, f):
        v = self.unwrap(a[0], n) if a else 0
        if not is_sym(v):
            try:
                return int(v, *a[1:]) if a[1:] else int(v)
            except ValueError as ex:
                raise PyRaise(ValueError, ex.args, n, implicit=True)
        if v.sort() == INT:
            return v
        if v.sort() == z3.BoolSort():
            return z3.If(v, 1, 0)
        if v.sort() == STR:
            # int(s): acceptance and value are abstract functions of the string (py_int_ok / py_int_val) shared by code
            # and spec; for [+-]?[0-9]+ they are pinned to the numeral's value.  Other spellings CPython accepts
            # (spaces, underscores, non-ASCII digits) are neither assumed accepted nor rejected.
            base = a[1] if len(a) > 1 else 10
            if is_sym(base):
                raise Unsupported('int() with a symbolic base')
            okf = self.ufun(f'py_int_ok_{base}', STR, z3.BoolSort())
            valf = self.ufun(f'py_int_val_{base}', STR, INT)
            ok = okf(v)
            if base == 10:
                digits = z3.InRe(v, DIGITS)
                neg = z3.And(z3.PrefixOf(z3.StringVal('-'), v), z3.InRe(z3.SubString(v, 1, z3.Length(v) - 1), DIGITS))
                pos = z3.And(z3.PrefixOf(z3.StringVal('+'), v), z3.InRe(z3.SubString(v, 1, z3.Length(v) - 1), DIGITS))
                facts = z3.And(z3.Implies(digits, z3.And(ok, valf(v) == z3.StrToInt(v))),
                               z3.Implies(neg, z3.And(ok, valf(v) == -z3.StrToInt(z3.SubString(v, 1, z3.Length(v) - 1)))),
                               z3.Implies(pos, z3.And(ok, valf(v) == z3.StrToInt(z3.SubString(v, 1, z3.Length(v) - 1)))),
                               z3.Implies(v == z3.StringVal(''), z3.Not(ok)))
            else:
                facts = z3.Implies(v == z3.StringVal(''), z3.Not(ok))
            if self.cur_pure():
                return valf(v)
            self.path.assume(facts)
            if self.implicit_as_paths:
                if not self.path.branch(ok):
                    raise PyRaise(ValueError, (), n, implicit=True)
            else:
                self.oblige('safety:int-of-str', ok, n)
                self.path.assume(ok)
            return valf(v)
        raise Unsupported('int()')

    def b_str(self, a, k, n, f):
        if not a:
            return ''
        v = a[0]
        if not is_sym(v):
            return str(v)
        if z3.is_expr(v):
            if v.sort() == STR:
                return v
            if v.sort() == INT:
                return z3.If(v >= 0, z3.IntToStr(v), z3.Concat(z3.StringVal('-'), z3.IntToStr(-v)))
            if v.sort() == z3.BoolSort():
                return z3.If(v, z3.StringVal('True'), z3.StringVal('False'))
            if v.sort().name() in self.zs.union_by_sort:
                dt, S = self.zs.union_by_sort[v.sort().name()]
                res = z3.StringVal('')
                for i, (ctor, (pyt, arm)) in reversed(list(enumerate(S.arms.items()))):
                    if pyt in (str, int, bool):
                        res = z3.If(dt.recognizer(i)(v), self.b_str([dt.accessor(i, 0)(v)], {}, n, f), res)
                    else:
                        res = z3.If(dt.recognizer(i)(v), self.ufun('py_str_of_' + ctor, self.zs.zsort(arm), STR)(dt.accessor(i, 0)(v)), res)
                return res
        if isinstance(v, VStruct) and v.pycls is not None:
            return self.call_method(v, '__str__', [], {}, n)
        raise Unsupported('str()')

    def b_minmax(self, a, is_max):
        items = list(a) if len(a) > 1 else self.concrete_iter(a[0])
        if not any(is_sym(x) for x in items):
            return max(items) if is_max else min(items)
        res = items[0]
        for x in items[1:]:
            c = self.order('gt' if is_max else 'lt', x, res)
            res = self.ite(c, x, res)
        return res

    def b_tuple(self, a, k, n, f):
        if not a:
            return ()
        v = a[0]
        if isinstance(v, VBox) and v.kind in ('list', 'deque'):
            return v.term
        if z3.is_expr(v) and isinstance(v.sort(), z3.SeqSortRef):
            return v
        return tuple(self.concrete_iter(v, n))

    def b_list(self, a, k, n, f):
        if not a:
            return PyList([])
        v = a[0]
        if isinstance(v, VBox) and v.kind in ('list', 'deque'):
            return VBox('list', v.term, v.esort)
        if z3.is_expr(v) and isinstance(v.sort(), z3.SeqSortRef) and not z3.is_string(v):
            return VBox('list', v)
        return self.new_list(self.concrete_iter(v, n), f)

    def b_set(self, a, k, n, f):
        if not a:
            return VBox('set', None)          # empty set of a not yet known element sort
        if isinstance(a[0], SymRange):
            x = z3.Int('rng!x')
            return VBox('set', z3.Lambda([x], z3.And(x >= a[0].lo, x < a[0].hi)), api.Int)
        sv = self.symbolic_iter(self.unwrap(a[0], n))
        if sv is not None and sv.kind == 'seq' and not self.has_concrete_len(a[0]):
            t = sv.seqs[0]
            x = z3.Const('setof!x', t.sort().basis())
            return VBox('set', z3.Lambda([x], z3.Contains(t, z3.Unit(x))))
        items = self.concrete_iter(a[0], n)
        if not any(is_sym(x) for x in items):
            return set(items)
        raise Unsupported('set(symbolic)')

    def card(self, setterm):
        self.assumptions.add('len(set) is an uninterpreted non-negative function of the set (cardinality is not modelled)')
        c = self.ufun('py_card_' + ''.join(ch if ch.isalnum() else '_' for ch in str(setterm.sort())), setterm.sort(), INT)(setterm)
        if not self.cur_pure():
            self.path.assume(c >= 0)
        return c

    def sorted_of_set(self, setterm, esort_api):
        """sorted(S) for a set of strings / integers without key: a function of the set whose value lists members of S only, strictly
        increasing (so each at most once), len(S) of them (so every member is there)"""
        esort = setterm.sort().domain()
        nm = 'py_sorted_set_' + ''.join(c for c in str(esort) if c.isalnum())
        r = self.ufun(nm, setterm.sort(), z3.SeqSort(esort))(setterm)
        if not self.cur_pure() and (esort == STR or esort == INT):
            i_, j_ = z3.Int('q!si'), z3.Int('q!sj')
            lt = lambda x, y: x < y          # (z3: str.< on strings, code-point lexicographic as in CPython)
            p = self.path
            p.assume(z3.ForAll([i_], z3.Implies(z3.And(0 <= i_, i_ < z3.Length(r)), z3.Select(setterm, r[i_]))), heavy=True)
            p.assume(z3.ForAll([i_, j_], z3.Implies(z3.And(0 <= i_, i_ < j_, j_ < z3.Length(r)), lt(r[i_], r[j_]))), heavy=True)
            p.assume(z3.Length(r) == self.card(setterm), heavy=True)
            self.assumptions.add('sorted(set): a function of the set — its members only, strictly increasing, len(set) of them')
        return VBox('list', r, esort_api)

    def b_sorted(self, a, k, n, f):
        v = a[0]
        if isinstance(v, IterView) and v.kind == 'dict' and len(v.parts) == 1 and v.parts[0][1] == 'keys' and k.get('key') is None and not k.get('reverse'):
            return self.sorted_of_set(v.parts[0][0].term, v.parts[0][0].esort)          # sorted(d.keys()) / sorted(d)
        if isinstance(v, VBox) and v.kind == 'dict' and k.get('key') is None and not k.get('reverse'):
            return self.sorted_of_set(v.term, v.esort)
        if isinstance(v, VBox) and v.kind == 'set' and v.term is not None:
            esort = v.term.sort().domain()
            nm = 'py_sorted_set_' + ''.join(c for c in str(esort) if c.isalnum())
            if k.get('key') is None and not k.get('reverse'):
                # sorted(set) without a key: a function of the SET (total order on the elements)
                return VBox('list', self.ufun(nm, v.term.sort(), z3.SeqSort(esort))(v.term), v.esort)
            # with a key (ties keep iteration order) the result also depends on the iteration order
            sv = self.symbolic_iter(v)
            return VBox('list', self.ufun(nm + '_key', sv.seqs[0].sort(), z3.SeqSort(esort))(sv.seqs[0]), v.esort)
        if isinstance(v, VBox) and v.kind in ('list', 'deque') and z3.is_expr(v.term):
            info = self.comp_info.get(v.term.get_id())
            if info and info[0] and k.get('key') is None and not k.get('reverse'):
                src = info[1]
                st = self.iter_info.get(src.get_id())
                if st is not None:
                    # sorted([str(x) for x in S]) for a set S of strings == sorted(S): independent of the iteration order
                    esort = st.sort().domain()
                    nm = 'py_sorted_set_' + ''.join(c for c in str(esort) if c.isalnum())
                    return VBox('list', self.ufun(nm, st.sort(), z3.SeqSort(esort))(st), v.esort)
            lsort = v.term.sort()
            nm = 'py_sorted_list_' + ''.join(c for c in str(lsort) if c.isalnum()) + ('_key' if k.get('key') is not None else '')
            return VBox('list', self.ufun(nm, lsort, lsort)(v.term), v.esort)
        if isinstance(v, PyList):
            v = v.items
        if not is_sym(v) and not contains_sym(v) and 'key' not in k:
            return PyList(sorted(v, reverse=bool(k.get('reverse', False))))
        raise Unsupported('sorted(symbolic)')

    def b_reversed(self, a, k, n, f):
        v = a[0]
        sv = self.symbolic_iter(v)
        if sv is None:
            return PyList(list(reversed(self.concrete_iter(v, n))), 'gen')
        if sv.kind != 'seq':
            raise Unsupported('reversed of a view')
        return IterView('rev', sv.seqs)

    def b_zip(self, a, k, n, f):
        views = [self.symbolic_iter(self.unwrap(x, n)) for x in a]
        if all(v is None for v in views):
            return PyList([tuple(t) for t in zip(*[self.concrete_iter(x, n) for x in a])], 'gen')
        if any(v is None for v in views):
            raise Unsupported('zip of concrete and symbolic sequences')
        iv = IterView('zip', [], views)
        return iv

    def b_enumerate(self, a, k, n, f):
        start = a[1] if len(a) > 1 else k.get('start', 0)
        sv = self.symbolic_iter(self.unwrap(a[0], n))
        if sv is None:
            return PyList([(i, x) for i, x in enumerate(self.concrete_iter(a[0], n), start)], 'gen')
        iv = IterView('enum', [], sv)
        iv.start = start
        return iv

    def b_range(self, a, k, n, f):
        if not any(is_sym(x) for x in a):
            return range(*a)
        if len(a) <= 2:
            return SymRange(a[0] if len(a) == 2 else 0, a[-1])
        raise Unsupported('range with symbolic bounds and a step')

    def b_hash(self, a, k, n, f):
        v = a[0]
        if not is_sym(v) and not contains_sym(v):
            return hash(v)
        if isinstance(v, VStruct):
            return self.call_method(v, '__hash__', [], {}, n)
        t = self.seqterm(v)
        if z3.is_expr(t):
            self.assumptions.add('hash() is an uninterpreted function of the value (equal values hash equally)')
            return self.ufun('py_hash_' + ''.join(c if c.isalnum() else '_' for c in str(t.sort())), t.sort(), INT)(t)
        raise Unsupported('hash')

    def b_deepcopy(self, a, k, n, f):
        v = a[0]
        inner = v.val if isinstance(v, VOpt) else v
        if isinstance(inner, VObj):
            # a deep copy of an opaque object is ANOTHER object (identity is observable: `is`, later mutation); nothing else is known of it
            new = VObj(self.ufun('py_deepcopy', inner.term.sort(), self.path.fresh(z3.IntSort(), 'copy_nonce').sort(), inner.term.sort())(inner.term, self.path.fresh(z3.IntSort(), 'copy_nonce')))
            if not self.cur_pure():
                self.path.assume(new.term != inner.term)
                self.path.trace.append(('deepcopy', v, new))
            return VOpt(v.none, new) if isinstance(v, VOpt) else new
        return self.snapshot(v)

    def b_copy(self, a, k, n, f):
        v = a[0]
        if isinstance(v, VStruct):
            self.assumptions.add('copy.copy of an object is a shallow field-wise copy')
            return VStruct(v.sort, v.pycls, dict(v.f), v.tag)
        if isinstance(v, VBox):
            return VBox(v.kind, v.term, v.esort, v.keys, v.vsort)
        if isinstance(v, PyList):
            return PyList(v.items, v.kind)
        if not is_sym(v):
            return copy.copy(v)
        return v

    def b_chain(self, a, k, n, f):
        views = [x for x in a if isinstance(x, IterView)]
        if views:
            if len(views) != len(a) or any(v.kind != 'dict' for v in views):
                raise Unsupported('itertools.chain of symbolic views other than dict views')
            return IterView('dict', [], parts=[p_ for v in views for p_ in v.parts])
        out = []
        for x in a:
            out.extend(self.concrete_iter(x, n))
        return PyList(out, 'gen')

    def b_repr(self, a, k, n, f):
        if not is_sym(a[0]) and not contains_sym(a[0]):
            return repr(a[0])
        return self.path.fresh(STR, 'repr')

    def b_getattr(self, a, k, n, f):
        if is_sym(a[1]):
            raise Unsupported('getattr with symbolic name')
        if isinstance(a[0], ExcVal) and not hasattr(a[0].cls, a[1]):
            # an attribute of an exception object raised by code outside the contracts: whether it was set there is unknown
            at = a[0].__dict__.setdefault('attrs', {})
            if a[1] in at:
                return at[a[1]]
            if self.path.branch(self.path.fresh(z3.BoolSort(), f'exc_has_{a[1]}')):
                at[a[1]] = VObj(self.path.fresh(self.zs.zsort(api.Obj), f'exc_{a[1]}'))
                return at[a[1]]
            if len(a) > 2:
                return a[2]
            raise PyRaise(AttributeError, (a[1],), n, implicit=True)
        try:
            return self.getattr(a[0], a[1], n)
        except PyRaise as ex:
            if ex.cls is AttributeError and len(a) > 2:
                return a[2]
            raise

    def b_hasattr(self, a, k, n, f):
        if isinstance(a[0], VStruct):
            return a[1] in a[0].f or (a[0].pycls is not None and hasattr(a[0].pycls, a[1]))
        if is_sym(a[0]):
            raise Unsupported('hasattr on symbolic value')
        return hasattr(a[0], a[1])

    def b_type(self, a, k, n, f):
        v = a[0]
        if isinstance(v, VStruct) and v.pycls is not None:
            return v.pycls
        if isinstance(v, ExcVal):
            return v.cls
        if not is_sym(v):
            return type(v)
        if z3.is_expr(v):
            s = v.sort()
            if s == INT:
                return int
            if s == STR:
                return str
            if s == z3.BoolSort():
                return bool
        raise Unsupported('type() of symbolic value')

    def b_open(self, a, k, n, f):
        """open(path, mode): the file system is abstract — existence and content are functions of the path (at the time
        of the call; the functions under contract read before they write)"""
        path = self.zs.lift(a[0], STR)
        mode = a[1] if len(a) > 1 else k.get('mode', 'r')
        if is_sym(mode):
            raise Unsupported('open with a symbolic mode')
        if 'r' in mode:
            ex = self.ufun('fs_exists', STR, z3.BoolSort())(path)
            if not self.path.branch(ex):
                raise PyRaise(FileNotFoundError, (), n)
        from .exprs import Event
        self.path.trace.append(Event(('open', path, mode), {k_: v_ for k_, v_ in k.items() if k_ != 'mode'}))
        return VFile(path, mode)

    def b_super(self, a, k, n, f):
        """zero-argument super(): the next class after the defining class in the MRO of self"""
        fr = f
        while fr is not None and (fr.fs is None or not fr.fs.cls):
            fr = fr.parent
        if fr is None or 'self' not in fr.env:
            raise Unsupported('super() outside a method')
        obj = fr.env['self']
        if not isinstance(obj, VStruct) or obj.pycls is None:
            raise Unsupported('super() on a non-object')
        mro = obj.pycls.__mro__
        here = [i for i, c in enumerate(mro) if c.__name__ == fr.fs.cls]
        if not here:
            raise Unsupported('defining class not in the MRO of self')
        return SuperProxy(obj, mro[here[0] + 1:])

    def b_re_sub(self, a, k, n, f):
        """re.sub(pattern, repl, string): opaque result, recorded in the ghost trace (the callback is verified separately)"""
        pat, repl, subj = a[0], a[1], a[2]
        if not is_sym(subj) and not isinstance(repl, Closure) and not is_sym(repl):
            return _re.sub(*a, **k)
        res = self.path.fresh(STR, 're_sub')
        self.path.trace.append(('re.sub', pat, subj, res))
        self.assumptions.add('re.sub is opaque: one left-to-right pass applying the callback to each non-overlapping match (re is trusted)')
        return res

    def b_sum(self, a, k, n, f):
        items = self.concrete_iter(a[0], n)
        res = a[1] if len(a) > 1 else 0
        for x in items:
            res = self.binop(ast.Add(), res, x, n)
        return res

    # ------------------------------------------------------------------ bound methods
    def call_bound(self, bm, args, kwargs, node, fr):
        recv, name = bm.recv, bm.name
        if bm.fn is not None:
            if isinstance(recv, type):
                return self.call_function(bm.fn, [recv] + list(args), kwargs, node)
            return self.call_function(bm.fn, [recv] + list(args), kwargs, node)
        if isinstance(recv, VObj) and name == 'decode' and recv.term.get_id() in self.__dict__.get('bytes_terms', ()):
            return self.bytes_decode(recv, args[0] if args else kwargs.get('encoding', 'utf-8'), node)
        if isinstance(recv, VObj):
            # method of an opaque object: an uninterpreted function of the object and the arguments (assumed pure),
            # recorded in the ghost effect trace
            spec_ = self.cur_contract.opaque[name]
            argsorts, ret = spec_[0], spec_[1]
            if isinstance(ret, api.Const):
                # this variant of the contract is about objects whose method answers this constant (a stated assumption)
                self.path.trace.append((name, ()))
                self.assumptions.add(f'this variant: opaque method {name} answers {ret.value!r}')
                return ret.value
            if len(spec_) > 2 and kwargs:
                # keyword arguments by declared name: ([sorts], ret, [names])
                from .calls import ABSENT
                args = list(args) + [ABSENT] * (len(spec_[2]) - len(args))
                for kn_, kv_ in kwargs.items():
                    args[spec_[2].index(kn_)] = kv_
            r, a2 = self.opaque_app(name, argsorts, ret, recv.term, args)      # extra arguments beyond the declared ones are ignored
            self.path.trace.append((name, tuple(a2)))
            self.assumptions.add(f'opaque method {name} is a pure function of the object and its arguments')
            if isinstance(ret, api.List):
                return VBox(ret.kind, r, ret.elem)
            return self.wrap_sort(r, ret)
        if isinstance(recv, VFile):
            if name == 'read':
                return self.ufun('fs_content', STR, STR)(recv.path)
            if name == 'readlines' and not args:
                # the lines of the file as the text layer cuts them (a function of the path at the time of the call)
                self.assumptions.add('file.readlines() is the function fs_lines of the path (the content cut into lines by the text layer, as configured by open(newline=...))')
                return VBox('list', self.ufun('fs_lines', STR, z3.SeqSort(STR))(recv.path), api.Str)
            if name in ('write', 'writelines'):
                self.path.trace.append(('file.' + name, recv.path, args[0] if args else None))
                return None
            raise Unsupported(f'file.{name}')
        if isinstance(recv, _re.Pattern):
            return self.m_pattern(recv, name, args, node)
        if isinstance(recv, VMatch):
            return self.m_match(recv, name, args, node)
        if isinstance(recv, PyList):
            return self.m_pylist(recv, name, args, kwargs, node)
        if isinstance(recv, PyDict):
            return self.m_pydict(recv, name, args, kwargs, node)
        if isinstance(recv, VBox):
            return self.m_box(recv, name, args, kwargs, node)
        if isinstance(recv, str) or (z3.is_expr(recv) and recv.sort() == STR):
            return self.m_str(recv, name, args, kwargs, node)
        if z3.is_expr(recv) and isinstance(recv.sort(), z3.SeqSortRef):
            return self.m_seq(recv, name, args, kwargs, node)
        if z3.is_expr(recv) and recv.sort().name() in self.zs.enum_by_sort:
            srt, terms, objs, S = self.zs.enum_by_sort[recv.sort().name()]
            cls = type(next(iter(objs.values())))
            fn = getattr(cls, name, None)
            import types as _t
            if isinstance(fn, _t.FunctionType):
                return self.call_function(fn, [recv] + list(args), kwargs, node)
            raise Unsupported(f'method {name} on an enum value')
        if z3.is_expr(recv) and recv.sort().name() in self.zs.union_by_sort:
            # a method called on a value of a union sort: decided by the arm the value is in (AttributeError where the
            # arm's type has no such method)
            dt, S = self.zs.union_by_sort[recv.sort().name()]
            arms = list(S.arms.items())
            for i, (ctor, (pyt, arm)) in enumerate(arms):
                last = i == len(arms) - 1
                isarm = dt.recognizer(i)(recv)
                if (self.path.assume(isarm) or True) if last else self.path.branch(isarm):
                    if not hasattr(pyt, name):
                        raise PyRaise(AttributeError, (name,), node, implicit=True)
                    return self.call_bound(BoundMethod(simp(dt.accessor(i, 0)(recv)), name), args, kwargs, node, fr)
        if isinstance(recv, (tuple, list, set, frozenset, dict)):
            if name == 'index' and isinstance(recv, (tuple, list)):
                raise Unsupported('tuple.index with symbolic argument')
            if name == 'get' and isinstance(recv, dict):
                raise Unsupported('dict.get with symbolic key')
        raise Unsupported(f'method {name} on {type(recv).__name__}')

    # ------------------------------------------------------------------ regular expressions (abstract matches)
    def re_syms(self, pat, method):
        i = rx.ident(pat)
        f = self.ufun(f'{i}_{method}', STR, z3.BoolSort())
        self.assumptions.add(f'regex {pat.pattern!r}: match result and group values are abstract functions of the subject (group languages from the sub-patterns); re itself is trusted')
        return i, f

    def re_group_syms(self, pat, method, k):
        i = rx.ident(pat)
        return (self.ufun(f'{i}_{method}_g{k}', STR, STR), self.ufun(f'{i}_{method}_n{k}', STR, z3.BoolSort()))

    def m_pattern(self, pat, name, args, node):
        if name == 'sub':
            return self.b_re_sub([pat] + list(args), {}, node, None)
        if name not in ('match', 'fullmatch', 'search'):
            raise Unsupported(f'Pattern.{name}')
        subj = self.unwrap(args[0], node)
        s = self.zs.lift(subj, STR)
        offset = 0
        if len(args) > 1:
            # match(string, pos): the same as matching string[pos:] for a pattern without anchors / look-behind / \b
            if len(args) > 2 or name == 'search':
                raise Unsupported(f'Pattern.{name} with endpos / search with pos')
            tree_ = rx.parse(pat)
            if any(str(op_) in ('AT', 'ASSERT', 'ASSERT_NOT') for op_, _av in self._re_walk(tree_)):
                raise Unsupported('match(string, pos) of a pattern with anchors or look-around')
            offset = args[1]
            off_t = self.zs.lift(offset, INT)
            if not self.cur_pure():
                self.oblige('safety:match-pos', z3.And(off_t >= 0, off_t <= z3.Length(s)), node, 'pos within the string')
                self.path.assume(z3.And(off_t >= 0, off_t <= z3.Length(s)))
            s = simp(z3.SubString(s, off_t, z3.Length(s) - off_t))
            self.assumptions.add('Pattern.match(string, pos) is modelled as a match on string[pos:] (patterns without anchors / look-around)')
        i, f = self.re_syms(pat, name)
        matched = f(s)
        notes = set()
        if not self.cur_pure() and (len(args) > 1 or getattr(self.cur_contract, 'match_text_facts', False)):
            # the matched text: a piece of the subject (a prefix for match, everything for fullmatch), in the language of the
            # pattern when that is translatable
            g0 = self.re_group_syms(pat, name, 0)[0](s)
            st = self.ufun(f'{i}_{name}_start', STR, INT)(s)
            facts = [st >= 0, st + z3.Length(g0) <= z3.Length(s), g0 == z3.SubString(s, st, z3.Length(g0))]
            if name in ('match', 'fullmatch'):
                facts.append(st == 0)
            if name == 'fullmatch':
                facts.append(g0 == s)
            try:
                wl = rx.to_re(rx.parse(pat), pat.flags, notes, drop_assertions=True)
                facts.append(z3.InRe(g0, wl))
            except rx.Untranslatable:
                pass
            self.path.assume(z3.Implies(matched, z3.And(*facts)))
        for k, (tree, always) in rx.groups(pat).items():
            g, n = self.re_group_syms(pat, name, k)
            if always:
                self.path.assume(z3.Implies(matched, z3.Not(n(s)))) if not self.cur_pure() else None
            lang = rx.group_language(pat, k, notes)
            if lang is not None and not self.cur_pure():
                self.path.assume(z3.Implies(z3.And(matched, z3.Not(n(s))), z3.InRe(g(s), lang)))
        self.assumptions.update(notes)
        if not self.cur_pure():
            self.assume_alt_facts(pat, name, s, matched)
        return VOpt(z3.Not(matched), VMatch(pat, s, name, offset))

    def _re_walk(self, sub):
        for op_, av in sub:
            yield op_, av
            n_ = str(op_)
            if n_ == 'SUBPATTERN':
                yield from self._re_walk(av[3])
            elif n_ == 'BRANCH':
                for x in av[1]:
                    yield from self._re_walk(x)
            elif n_ in ('MAX_REPEAT', 'MIN_REPEAT', 'POSSESSIVE_REPEAT'):
                yield from self._re_walk(av[2])
            elif n_ in ('ASSERT', 'ASSERT_NOT'):
                yield from self._re_walk(av[1])

    def assume_match_facts(self, m):
        """language facts of the groups of a match object received as a parameter"""
        notes = set()
        langs = []
        nones = []
        for k, (tree, always) in rx.groups(m.pattern).items():
            g, n = self.re_group_syms(m.pattern, m.method, k)
            nones.append((k, n(m.subject), always))
            if always:
                self.path.assume(z3.Not(n(m.subject)))
            lang = rx.group_language(m.pattern, k, notes)
            if lang is not None:
                self.path.assume(z3.Implies(z3.Not(n(m.subject)), z3.InRe(g(m.subject), lang)))
        self.assumptions.update(notes)
        self.assume_alt_facts(m.pattern, m.method, m.subject, True)

    def assume_alt_facts(self, pat, method, subj, matched):
        """exactly one top-level alternative of the pattern produced the match: its text lies in that alternative's
        language (zero-width assertions dropped), its mandatory groups participate, the groups of the others do not"""
        alts = rx.alternatives(pat)
        if len(alts) < 2:
            return
        i = rx.ident(pat)
        which = self.ufun(f'{i}_{method}_alt', STR, INT)(subj)
        g0 = self.re_group_syms(pat, method, 0)[0](subj)
        facts = [which >= 0, which < len(alts)]
        for k, (lang, always, allg) in enumerate(alts):
            fs = []
            if lang is not None:
                fs.append(z3.InRe(g0, lang))
            for g in always:
                fs.append(z3.Not(self.re_group_syms(pat, method, g)[1](subj)))
            for k2, (_, _, allg2) in enumerate(alts):
                if k2 != k:
                    for g in allg2 - allg:
                        fs.append(self.re_group_syms(pat, method, g)[1](subj))
            if fs:
                facts.append(z3.Implies(which == k, z3.And(*fs)))
        f = z3.And(*facts)
        self.path.assume(f if matched is True else z3.Implies(matched, f))

    def m_match(self, m, name, args, node):
        if name == 'group':
            k = args[0] if args else 0
            if is_sym(k):
                raise Unsupported('group() with a symbolic index')
            if isinstance(k, str):
                k = m.pattern.groupindex[k]
            if k == 0:
                g, n = self.re_group_syms(m.pattern, m.method, 0)
                return g(m.subject)
            if k > m.pattern.groups:
                raise PyRaise(IndexError, (), node, implicit=True)
            g, n = self.re_group_syms(m.pattern, m.method, k)
            return VOpt(n(m.subject), g(m.subject))
        if name in ('start', 'end'):
            k = args[0] if args else 0
            if k != 0:
                raise Unsupported('Match.start/end of a group')
            i = rx.ident(m.pattern)
            st = self.ufun(f'{i}_{m.method}_start', STR, INT)(m.subject)
            g0 = self.re_group_syms(m.pattern, m.method, 0)[0](m.subject)
            if not self.cur_pure():
                self.path.assume(st >= 0)
            off_ = getattr(m, 'offset', 0)
            base_ = st if name == 'start' else st + z3.Length(g0)
            return base_ if (isinstance(off_, int) and off_ == 0) else base_ + off_
        if name == 'groupdict':
            d = {}
            for gname, k in m.pattern.groupindex.items():
                g, n = self.re_group_syms(m.pattern, m.method, k)
                d[gname] = VOpt(n(m.subject), g(m.subject))
            return PyDict(d)
        raise Unsupported(f'Match.{name}')

    def m_pylist(self, recv, name, args, kwargs, node):
        it = recv.items
        if name == 'append':
            it.append(args[0])
        elif name == 'appendleft':
            it.insert(0, args[0])
        elif name == 'extend':
            it.extend(self.concrete_iter(args[0], node))
        elif name == 'insert':
            if is_sym(args[0]):
                raise Unsupported('insert at symbolic index')
            it.insert(args[0], args[1])
        elif name == 'pop':
            if args and is_sym(args[0]):
                raise Unsupported('pop at symbolic index')
            if not it:
                raise PyRaise(IndexError, (), node, implicit=True)
            return it.pop(*args)
        elif name == 'popleft':
            if not it:
                raise PyRaise(IndexError, (), node, implicit=True)
            return it.pop(0)
        elif name == 'clear':
            it.clear()
        elif name == 'copy':
            return PyList(it, recv.kind)
        elif name == 'reverse':
            it.reverse()
        else:
            raise Unsupported(f'list.{name}')
        return None

    def m_pydict(self, recv, name, args, kwargs, node):
        d = recv.d
        if name in ('get', 'pop', 'setdefault') and is_sym(args[0]):
            raise Unsupported(f'dict.{name} with symbolic key on a concrete dict')
        if name == 'get':
            return d.get(args[0], args[1] if len(args) > 1 else None)
        if name == 'items':
            return PyList(list(d.items()), 'gen')
        if name == 'keys':
            return PyList(list(d.keys()), 'gen')
        if name == 'values':
            return PyList(list(d.values()), 'gen')
        if name == 'pop':
            if args[0] in d:
                return d.pop(args[0])
            if len(args) > 1:
                return args[1]
            raise PyRaise(KeyError, (args[0],), node, implicit=True)
        if name == 'setdefault':
            return d.setdefault(args[0], args[1] if len(args) > 1 else None)
        if name == 'copy':
            return PyDict(d)
        if name == 'update':
            o = args[0]
            d.update(o.d if isinstance(o, PyDict) else o)
            return None
        raise Unsupported(f'dict.{name}')

    def m_box(self, recv, name, args, kwargs, node):
        t = recv.term
        if recv.kind == 'dict':
            dom = t.sort().domain()
            if name in ('items', 'keys', 'values'):
                return IterView('dict', [], parts=[(recv, name)])
            if name == 'copy':
                return VBox('dict', t, recv.esort, recv.keys, recv.vsort)
            if name == 'pop':
                k = self.zs.lift(self.unwrap(args[0], node), dom)
                has = z3.Select(t, k)
                val = z3.Select(recv.vsort, k)
                if recv.keys is not None:
                    val = self.wrap_sort(val, recv.keys)
                if len(args) < 2:
                    if self.implicit_as_paths:
                        if not self.path.branch(has):
                            raise PyRaise(KeyError, (), node, implicit=True)
                    else:
                        self.oblige('safety:key', has, node)
                        self.path.assume(has)
                    recv.term = z3.Store(t, k, False)
                    return val
                recv.term = z3.Store(t, k, False)
                if args[1] is None:
                    return VOpt(z3.Not(has), val)
                return self.ite(has, val, args[1])
            if name == 'get':
                k = self.zs.lift(self.unwrap(args[0], node), dom)
                has = z3.Select(t, k)
                val = z3.Select(recv.vsort, k)
                if recv.keys is not None:
                    val = self.wrap_sort(val, recv.keys)
                if len(args) > 1 and args[1] is not None:
                    return self.ite(has, val, args[1])
                return VOpt(z3.Not(has), val)
            raise Unsupported(f'dict.{name} on a symbolic dict')
        if recv.kind == 'set':
            if t is None:
                if name != 'add':
                    if name in ('discard', 'remove', 'clear'):
                        return None
                    if name == 'copy':
                        return VBox('set', None)
                    raise Unsupported(f'set.{name} on an untyped empty set')
                x0 = args[0]
                srt = x0.sort() if z3.is_expr(x0) else (z3.IntSort() if isinstance(x0, int) and not isinstance(x0, bool) else z3.StringSort() if isinstance(x0, str) else None)
                if srt is None:
                    raise Unsupported('set.add of an unmodelled element')
                t = z3.K(srt, False)
            dom = t.sort().domain()
            if name == 'add':
                recv.term = z3.Store(t, self.zs.lift(self.unwrap(args[0], node), dom), True)
                return None
            if name in ('discard', 'remove'):
                recv.term = z3.Store(t, self.zs.lift(args[0], dom), False)
                return None
            if name == 'clear':
                recv.term = z3.K(dom, False)
                return None
            if name == 'copy':
                return VBox('set', t, recv.esort)
            if name == 'update' and len(args) == 1:
                o = args[0]
                ot = o.term if isinstance(o, VBox) and o.kind == 'set' else (o if z3.is_expr(o) else None)
                if isinstance(o, VBox) and o.kind == 'set' and o.term is None:
                    return None             # update with the empty set
                if ot is not None and ot.sort() == t.sort():
                    recv.term = z3.SetUnion(t, ot)
                    return None
            raise Unsupported(f'set.{name}')
        es = t.sort().basis()
        n = z3.Length(t)
        if name == 'append':
            recv.term = z3.Concat(t, z3.Unit(self.zs.lift(args[0], es)))
        elif name == 'appendleft':
            recv.term = z3.Concat(z3.Unit(self.zs.lift(args[0], es)), t)
        elif name == 'extend':
            recv.term = z3.Concat(t, self.as_seq(args[0], t.sort()))
        elif name == 'extendleft':
            o = self.as_seq(args[0], t.sort())
            recv.term = z3.Concat(self.zs.seq_rev_fn(t.sort())(o, z3.Length(o)), t)
        elif name == 'clear':
            recv.term = z3.Empty(t.sort())
        elif name == 'copy':
            return VBox(recv.kind, t, recv.esort)
        elif name == 'insert':
            i = args[0]
            pos = self.norm_index(i, n)
            recv.term = simp(z3.Concat(z3.SubSeq(t, 0, pos), z3.Unit(self.zs.lift(args[1], es)), z3.SubSeq(t, pos, n - pos)))
        elif name == 'pop':
            if args:
                i = args[0]
                if isinstance(i, int):
                    ok = (n > i) if i >= 0 else (n >= -i)
                    pos = z3.IntVal(i) if i >= 0 else n + i
                else:
                    ok = z3.And(i >= -n, i < n)
                    pos = z3.If(i < 0, i + n, i)
            else:
                ok = n > 0
                pos = n - 1
            self.index_guard(ok, node)
            x = t[pos]
            recv.term = simp(z3.Concat(z3.SubSeq(t, 0, pos), z3.SubSeq(t, pos + 1, n - pos - 1)))
            return simp(x)
        elif name == 'popleft':
            self.index_guard(n > 0, node)
            x = t[0]
            recv.term = z3.SubSeq(t, 1, n - 1)
            return simp(x)
        elif name in ('index', 'count'):
            return self.m_seq(t, name, args, kwargs, node)
        else:
            raise Unsupported(f'list.{name}')
        return None

    def m_seq(self, t, name, args, kwargs, node):
        es = t.sort().basis()
        if name == 'index':
            x = self.zs.lift(args[0], es)
            has = z3.Contains(t, z3.Unit(x))
            if self.implicit_as_paths and not self.cur_pure():
                if not self.path.branch(has):
                    raise PyRaise(ValueError, (), node, implicit=True)
            elif not self.cur_pure():
                self.oblige('safety:index-of', has, node)
                self.path.assume(has)
            return z3.IndexOf(t, z3.Unit(x), 0)
        raise Unsupported(f'seq.{name}')

    _UTF = {'utf-8', 'utf8', 'utf_8', 'utf-16', 'utf16', 'utf-32', 'utf32', 'utf-16-le', 'utf-16-be', 'utf-32-le', 'utf-32-be'}

    def str_encode(self, s, enc, node):
        """str.encode: the bytes are an opaque object, a function of the text and the encoding.  A UTF encoding can encode every
        text (lone surrogates aside: a text decoded from a file has none — assumed); any other codec may fail"""
        if is_sym(enc):
            raise Unsupported('str.encode with a symbolic encoding')
        encn = str(enc).lower()
        if encn not in self._UTF:
            if self.path.branch(self.path.fresh(z3.BoolSort(), 'encode_fails')):
                raise PyRaise(UnicodeEncodeError, (), node)
        else:
            self.assumptions.add('str.encode to a UTF encoding never fails (texts hold no lone surrogates)')
        b = VObj(self.ufun('py_encode_' + ''.join(c for c in encn if c.isalnum()), STR, self.zs.zsort(api.Obj))(s))
        self.__dict__.setdefault('bytes_terms', set()).add(b.term.get_id())
        return b

    def bytes_decode(self, b, codec, node):
        if is_sym(codec):
            raise Unsupported('decode with a symbolic codec')
        if self.path.branch(self.path.fresh(z3.BoolSort(), 'decode_fails')):
            raise PyRaise(UnicodeDecodeError, (), node)
        self.assumptions.add('bytes.decode / codecs.decode: the text is a function of the bytes and the codec; it may fail with UnicodeDecodeError only')
        return self.ufun('py_decode_' + ''.join(c for c in str(codec).lower() if c.isalnum()), self.zs.zsort(api.Obj), STR)(self.unwrap_term(b))

    def m_str(self, recv, name, args, kwargs, node):
        lift = lambda v: self.zs.lift(v, STR)
        s = lift(recv)
        if name == 'encode':
            return self.str_encode(s, args[0] if args else kwargs.get('encoding', 'utf-8'), node)
        if name in ('startswith', 'endswith'):
            if len(args) != 1:
                raise Unsupported(f'{name} with start/end')
            pre = args[0]
            f = (lambda p: z3.PrefixOf(lift(p), s)) if name == 'startswith' else (lambda p: z3.SuffixOf(lift(p), s))
            if isinstance(pre, tuple):
                return self.lor(*[f(p) for p in pre])
            return f(pre)
        if name in ('strip', 'lstrip', 'rstrip'):
            if args and args[0] is not None:
                return self.ufun(f'py_{name}_chars', STR, STR, STR)(s, lift(args[0]))
            return self.ufun(f'py_{name}', STR, STR)(s)
        if name in ('lower', 'upper', 'casefold', 'title', 'capitalize', 'swapcase'):
            return self.ufun(f'py_{name}', STR, STR)(s)
        if name == 'replace' and len(args) == 2:
            return self.ufun('py_replace', STR, STR, STR, STR)(s, lift(args[0]), lift(args[1]))
        if name == 'find' and len(args) == 1:
            return z3.IndexOf(s, lift(args[0]), 0)
        if name == 'find' and len(args) == 2:
            st_ = self.zs.lift(args[1], INT)
            if not self.cur_pure():
                self.oblige('safety:find-start', st_ >= 0, node, 'str.find with a non-negative start (a negative start counts from the end: not modelled)')
                self.path.assume(st_ >= 0)
            return z3.IndexOf(s, lift(args[0]), st_)
        if name in ('index', 'rindex') and len(args) == 1:
            r_ = self.m_str(recv, 'find' if name == 'index' else 'rfind', args, kwargs, node)
            if not self.cur_pure():
                if self.implicit_as_paths:
                    if self.path.branch(r_ < 0):
                        raise PyRaise(ValueError, (), node, implicit=True)
                else:
                    self.oblige('safety:str-index', r_ >= 0, node, 'str.index/rindex: the substring is present (ValueError otherwise)')
                    self.path.assume(r_ >= 0)
            return r_
        if name in ('rfind', 'count') and len(args) == 1:
            # abstract, with the range facts the callers rely on: rfind in [-1, len-len(sub)], -1 iff absent; count >= 0, 0 iff absent
            sub_ = lift(args[0])
            r_ = self.ufun(f'py_{name}', STR, STR, INT)(s, sub_)
            if not self.cur_pure():
                if name == 'rfind':
                    self.path.assume(z3.And(r_ >= -1, r_ <= z3.Length(s) - z3.Length(sub_), (r_ == -1) == z3.Not(z3.Contains(s, sub_)),
                                            z3.Implies(r_ >= 0, z3.SubString(s, r_, z3.Length(sub_)) == sub_)))
                else:
                    self.path.assume(z3.And(r_ >= 0, (r_ == 0) == z3.Not(z3.Contains(s, sub_))))
            return r_
        if name == 'isdigit':
            self.assumptions.add('str.isdigit modelled as ASCII [0-9]+')
            return z3.InRe(s, DIGITS)
        if name in ('split', 'rsplit', 'splitlines', 'partition'):
            seqsort = z3.SeqSort(STR)
            fn = self.ufun(f'py_{name}_{len(args)}', *([STR] * (1 + len(args))), seqsort)
            if any(not isinstance(a, str) and not (z3.is_expr(a) and a.sort() == STR) for a in args):
                raise Unsupported(f'str.{name} with maxsplit')
            res_ = fn(s, *[lift(a) for a in args])
            if name == 'split' and len(args) == 1 and isinstance(args[0], str) and args[0] and not self.cur_pure():
                # facts of str.split(sep) the callers rely on: at least one piece, count(sep)+1 pieces, the last piece is the text
                # after the last separator
                sep_ = lift(args[0])
                cnt_ = self.ufun('py_count', STR, STR, INT)(s, sep_)
                rf_ = self.ufun('py_rfind', STR, STR, INT)(s, sep_)
                last_ = res_[z3.Length(res_) - 1]
                self.path.assume(z3.And(z3.Length(res_) == cnt_ + 1, cnt_ >= 0, (cnt_ == 0) == z3.Not(z3.Contains(s, sep_)),
                                        rf_ >= -1, rf_ <= z3.Length(s) - z3.Length(sep_), (rf_ == -1) == (cnt_ == 0),
                                        last_ == z3.If(rf_ < 0, s, z3.SubString(s, rf_ + z3.Length(sep_), z3.Length(s) - rf_ - z3.Length(sep_)))))
                self.assumptions.add('str.split(sep): count(sep)+1 pieces, the last one is the text after the last separator (stdlib fact, assumed)')
            return VBox('list', res_)
        if name == 'join':
            it = self.unwrap(args[0], node)
            if isinstance(it, PyList):
                it = tuple(it.items)
            t = self.seqterm(it)
            if isinstance(t, (tuple, list)):
                t = self.zs.lift(tuple(t), z3.SeqSort(STR))
            return self.ufun('py_join', STR, z3.SeqSort(STR), STR)(s, t)
        if name == 'format':
            self.assumptions.add('str.format with symbolic parts is an opaque string')
            return self.path.fresh(STR, 'fmt')
        if name == 'encode':
            raise Unsupported('str.encode')
        raise Unsupported(f'str.{name} on a symbolic string')


class PySet(set):
    pass


class VFile:
    """abstract open file"""
    def __init__(self, path, mode):
        self.path, self.mode = path, mode


class SuperProxy:
    def __init__(self, obj, mro):
        self.obj, self.mro = obj, mro


class SymRange:
    """range(lo, hi) with symbolic bounds: only usable as the argument of set()"""
    def __init__(self, lo, hi):
        self.lo, self.hi = lo, hi
