"""pyvc.core — path context, signals, obligations."""
from __future__ import annotations
import z3


def simp(t):
    """z3.simplify, unless it introduces z3-internal symbols (seq.nth_i / seq.nth_u) that other solvers reject"""
    r = z3.simplify(t)
    if 'seq.nth_' in r.sexpr():
        return t
    return r


class Unsupported(Exception):
    """construct outside the encodable subset -> UNDECIDED, never a verdict"""


class PathEnd(Exception):
    """this path is finished (loop iteration closed, infeasible, assumed false)"""


class ReturnSig(Exception):
    def __init__(self, value):
        self.value = value


class BreakSig(Exception):
    pass


class ContinueSig(Exception):
    pass


class PyRaise(Exception):
    """a Python exception raised by the code under analysis"""
    def __init__(self, cls, args=(), node=None, implicit=False):
        self.cls, self.args_, self.node, self.implicit = cls, args, node, implicit


class Obligation:
    __slots__ = ('name', 'kind', 'pc', 'goal', 'line', 'path', 'note')

    def __init__(self, name, kind, pc, goal, line=0, path='', note=''):
        self.name, self.kind, self.pc, self.goal, self.line, self.path, self.note = name, kind, pc, goal, line, path, note


class Path:
    """one execution of the function under a decision prefix"""
    def __init__(self, prefix, feas_timeout=300):
        self.prefix = list(prefix)
        self.pos = 0
        self.decisions = []
        self.pc = []
        self.alts = []
        self.obligs = []
        self.counter = {}
        self.trace = []          # ghost effect trace (python list of events)
        self.yields = []         # ghost sequence of yielded values
        self.feas_timeout = feas_timeout
        self.solver = z3.Solver()
        self.solver.set('timeout', feas_timeout)
        self.nfeas = 0

    def fresh_name(self, base):
        n = self.counter.get(base, 0)
        self.counter[base] = n + 1
        return f'{base}!{n}'

    def fresh(self, zsort, base='t'):
        return z3.Const(self.fresh_name(base), zsort)

    @property
    def live(self):
        """True when executing beyond the replayed prefix: obligations are emitted only then"""
        return self.pos >= len(self.prefix)

    def pid(self):
        return ''.join('T' if d else 'F' for d in self.decisions) or '-'

    def assume(self, c, heavy=False):
        """heavy assumptions (invariants, callee postconditions: recursive functions, quantifiers) are kept out
        of the feasibility solver, which only prunes paths (over-approximating feasibility is sound)"""
        if c is True:
            return
        if c is False:
            raise PathEnd()
        cs = z3.simplify(c)
        if z3.is_true(cs):
            return
        if z3.is_false(cs):
            raise PathEnd()
        self.pc.append(c)        # the unsimplified formula: z3's simplifier introduces internal symbols (seq.nth_i) other solvers reject
        if not heavy:
            self.solver.add(c)

    def feasible(self, c):
        self.nfeas += 1
        self.solver.push()
        self.solver.add(c)
        r = self.solver.check()
        self.solver.pop()
        return r != z3.unsat

    def branch(self, c):
        """decide a condition; returns python bool and extends the path condition"""
        if isinstance(c, bool):
            return c
        cs = z3.simplify(c)
        if z3.is_true(cs):
            return True
        if z3.is_false(cs):
            return False
        if self.pos < len(self.prefix):
            d = self.prefix[self.pos]
        else:
            ft = self.feasible(c)
            ff = self.feasible(z3.Not(c))
            if ft and ff:
                d = True
                self.alts.append(self.decisions + [False])
            elif ft:
                d = True
            elif ff:
                d = False
            else:
                raise PathEnd()
        self.pos += 1
        self.decisions.append(d)
        cc = c if d else z3.Not(c)
        self.pc.append(cc)
        self.solver.add(cc)
        return d


def explore(run, max_paths=4000):
    """DFS over decision prefixes.  run(path) executes one path; returns list of
    (path, outcome) where outcome is whatever run returned (or None for PathEnd)."""
    stack = [[]]
    out = []
    while stack:
        prefix = stack.pop()
        p = Path(prefix)
        try:
            res = run(p)
        except PathEnd:
            res = None
        out.append((p, res))
        for a in reversed(p.alts):
            stack.append(a)
        if len(out) > max_paths:
            raise Unsupported(f'more than {max_paths} paths')
    return out
