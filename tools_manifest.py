#!/usr/bin/env python3
"""regenerate MANIFEST.json from props.py (claimed checks) and NOT_APPLICABLE below"""
import json, sys
sys.path.insert(0, '.')
from props import PROPS, NOT_APPLICABLE, TEXT
checks = []
for pid in sorted(PROPS):
    cfg = PROPS[pid]
    checks.append({
        'property_id': pid,
        'quick_cmd': f'./check {pid} --tier quick',
        'thorough_cmd': f'./check {pid} --tier thorough',
        'evidence_file': f'evidence/{pid}.json',
        'replay_cmd_template': './check --replay {path}',
        'engine': 'pyvc',
        'level_claimed': {'category': cfg['level'], 'text': cfg['level_text'], 'design_ref': cfg['design_ref']},
        'level_note': cfg['level_note'],
        'technique': cfg['technique'],
    })
m = {
    'version': 1,
    'setup_cmd': './setup.sh',
    'hooks': {'guard': 'MESON_VERIF', 'enable': 'none: contracts are sidecars under /verif, /repo is not instrumented',
              'baseline_off_cmd': 'cd /repo && /venv/bin/python -m pytest -ra -q -p no:cacheprovider --timeout=900 --continue-on-collection-errors',
              'source_commits': TEXT.get('source_commits', []), 'add_only': True},
    'engines': [{'name': 'pyvc', 'path': 'pyvc/', 'serves_properties': sorted(PROPS),
                 'kind_free_text': 'contract-based deductive verification: VC generator over the real Python AST of /repo (re-read every run) + sidecar contracts, discharged by z3 5.1 / cvc5 / z3 4.8; native replay of counter-models on the real functions; bounded stand-ins labelled as such'}],
    'checks': checks,
    'notes': TEXT['notes'],
    'not_applicable': [{'property_id': k, 'reason': v} for k, v in sorted(NOT_APPLICABLE.items())],
}
json.dump(m, open('MANIFEST.json', 'w'), indent=1)
print('MANIFEST.json:', len(checks), 'checks,', len(NOT_APPLICABLE), 'not applicable')
