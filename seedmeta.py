#!/usr/bin/env python3
"""./seedmeta.py <seed-id> <prop> "<what it breaks>" "<what it needs to manifest>" — run the registered check against the
seeded change (applied to /repo, undone straight afterwards) and record the outcome in seeded/<id>/meta.json"""
import json, subprocess, sys, os, re
sid, prop, breaks, needs = sys.argv[1:5]
tier = sys.argv[5] if len(sys.argv) > 5 else 'quick'
d = f'seeded/{sid}'
r = subprocess.run(['./seedtest.sh', f'{d}/patch.diff', prop, tier], capture_output=True, text=True)
out = r.stdout
viol = [l for l in out.splitlines() if l.startswith('VIOLATION')]
rc = re.search(r'exit=(\d+)', out)
detail = []
for l in viol[:3]:
    m = re.search(r'replay=(\S+)', l)
    if m and os.path.exists(m.group(1)):
        rp = json.load(open(m.group(1)))
        detail.append({'obligation': rp.get('obligation'), 'clause': rp.get('clause') or rp.get('detail'), 'inputs': rp.get('inputs'),
                       'native': (rp.get('native') or {}).get('status')})
meta = {'seed': sid, 'property': prop, 'breaks': breaks, 'needs_to_manifest': needs,
        'confirmed': open(f'{d}/confirm.txt').read(),
        'check_run': {'command': f'git -C /repo apply seeded/{sid}/patch.diff && ./check {prop} --tier {tier}; git -C /repo checkout -- .',
                      'exit': int(rc.group(1)) if rc else None, 'violation_lines': viol[:10], 'first_failed_obligations': detail,
                      'detected': bool(viol)}}
# a seed that was missed (or left undecided / crashed the checker) when it was written keeps that first outcome on record
prev = json.load(open(f'{d}/meta.json')) if os.path.exists(f'{d}/meta.json') else None
if prev:
    if prev.get('first_run'):
        meta['first_run'] = prev['first_run']
    elif not prev['check_run']['detected']:
        meta['first_run'] = {'exit': prev['check_run']['exit'], 'detected': False,
                             'note': 'not caught by the checks as they were when the seed was written (exit 0 missed, 2 undecided, 3 checker failure); the check was strengthened afterwards (see DESIGN.md §0.5)'}
json.dump(meta, open(f'{d}/meta.json', 'w'), indent=1, default=repr)
print(sid, 'detected' if viol else 'MISSED', 'exit', meta['check_run']['exit'], [x['obligation'] for x in detail])
