#!/usr/bin/env python3
"""./seedmeta.py <seed-id> <prop> "<what it breaks>" "<what it needs to manifest>" — run the registered check against the
seeded change (applied to /repo, undone straight afterwards) and record the outcome in seeded/<id>/meta.json"""
import json, subprocess, sys, os, re
sid, prop, breaks, needs = sys.argv[1:5]
tier = sys.argv[5] if len(sys.argv) > 5 else 'quick'
d = f'seeded/{sid}'
r = subprocess.run(['./seedtest.sh', f'{d}/patch.diff', prop, tier], capture_output=True, text=True)
out = r.stdout
viol = [l for l in out.splitlines() if l.startswith('VIOLATION')]
rc = re.search(r'exit=(\d+)', out)
detail = []
for l in viol[:3]:
    m = re.search(r'replay=(\S+)', l)
    if m and os.path.exists(m.group(1)):
        rp = json.load(open(m.group(1)))
        detail.append({'obligation': rp.get('obligation'), 'clause': rp.get('clause') or rp.get('detail'), 'inputs': rp.get('inputs'),
                       'native': (rp.get('native') or {}).get('status')})
meta = {'seed': sid, 'property': prop, 'breaks': breaks, 'needs_to_manifest': needs,
        'confirmed': open(f'{d}/confirm.txt').read(),
        'check_run': {'command': f'git -C /repo apply seeded/{sid}/patch.diff && ./check {prop} --tier {tier}; git -C /repo checkout -- .',
                      'exit': int(rc.group(1)) if rc else None, 'violation_lines': viol[:10], 'first_failed_obligations': detail,
                      'detected': bool(viol)}}
json.dump(meta, open(f'{d}/meta.json', 'w'), indent=1, default=repr)
print(sid, 'detected' if viol else 'MISSED', 'exit', meta['check_run']['exit'], [x['obligation'] for x in detail])
