"""C18 — contracts on mesonbuild/mtest.py (TAPParser, TestRunTAP)"""
from pyvc.api import Int, Bool, Str, Seq, Struct, Loop, Opt, List, Set, Obj, Const
from contracts import REG

M = 'mesonbuild/mtest.py'
PlanS = Struct('Plan', 'mesonbuild.mtest:TAPParser.Plan', num_tests=Int, late=Bool, skipped=Bool, explanation=Opt(Str))
TapS = Struct('TAPParser', 'mesonbuild.mtest:TAPParser', found_late_test=Bool, bailed_out=Bool, plan=Opt(PlanS), lineno=Int,
              num_tests=Int, last_test=Int, highest_test=Int, seen_tests=Opt(Set(Int)), yaml_lineno=Opt(Int), yaml_indent=Str,
              state=Int, version=Int)
ALLF = ['self.found_late_test', 'self.bailed_out', 'self.plan', 'self.lineno', 'self.num_tests', 'self.last_test', 'self.highest_test',
        'self.seen_tests', 'self.yaml_lineno', 'self.yaml_indent', 'self.state', 'self.version']

REG.contract('C18', M, 'TAPParser.parse_test', inline=True,
             params={'self': TapS, 'ok': Bool, 'num': Int, 'name': Str, 'directive': Opt(Str), 'explanation': Opt(Str)},
             ensures=["count(__yield__, 'Test') == 1",
                      "the(__yield__, 'Test').number == num", "the(__yield__, 'Test').name == strip_(name)",
                      "the(__yield__, 'Test').result.name == status(ok, directive is None, directive)",
                      "count(__yield__, 'Error') == (1 if bad_directive(directive is None, directive) else 0)",
                      "len(__yield__) == 1 + count(__yield__, 'Error')"],
             floor=20, note='exactly one subtest per test line, preceded by one error for an unknown directive')

E = '__yield__'
_STATES = [('s1', ['self.state == 1']), ('s2a', ['self.state == 2', 'self.version < 13']), ('s2b', ['self.state == 2', 'self.version >= 13']),
           ('s3', ['self.state == 3'])]
_PLANS = [('noplan', ['self.plan is None']), ('lateplan', ['self.plan is not None', 'self.plan.late and not self.found_late_test']),
          ('plan', ['self.plan is not None', 'not (self.plan.late and not self.found_late_test)'])]
for _st, _sta in _STATES:
  for _pl, _pla in _PLANS:
    REG.contract('C18', M, 'TAPParser.parse_line', variant=f'line-{_st}-{_pl}', params={'self': TapS, 'line': Str},
             requires=['tap_inv(self)'], assumes=_sta + _pla,
             ensures=[
                 'tap_inv(new(self))', 'new(self).lineno == self.lineno + 1',
                 # test lines
                 f'implies(is_test(self, line), test_events_ok({E}, self, line))',
                 f'implies(is_test(self, line), test_state_ok(self, new(self), line))',
                 f"implies(not is_test(self, line), count({E}, 'Test') == 0 and counters_same(self, new(self)))",
                 # plan lines
                 f'implies(is_plan(self, line), plan_ok({E}, self, new(self), line))',
                 f"implies(not is_plan(self, line), count({E}, 'Plan') == 0 and new(self).plan == self.plan)",
                 # bail out
                 f"implies(is_bailout(self, line), count({E}, 'Bailout') == 1 and len({E}) == 1 + (1 if yaml_unterminated(self, line) else 0) and new(self).bailed_out)",
                 f"implies(not is_bailout(self, line), count({E}, 'Bailout') == 0 and new(self).bailed_out == self.bailed_out)",
                 # version line: only valid as the first line, at least 13
                 f"implies(is_version(self, line), count({E}, 'Version') + count({E}, 'Error') == 1 + (1 if yaml_unterminated(self, line) else 0) and (count({E}, 'Version') == 1) == (self.lineno == 0 and int(re_group(self._RE_VERSION, 1, rstrip(line))) >= 13))",
                 f"implies(not is_version(self, line), count({E}, 'Version') == 0 and new(self).version == self.version)",
                 # anything else
                 f"implies(is_unknown(self, line), count({E}, 'UnknownLine') == 1)",
                 f"implies(not is_unknown(self, line), count({E}, 'UnknownLine') == 0)",
                 # YAML blocks and ignored lines
                 f"implies(not significant(self, line), count({E}, 'Error') == (1 if yaml_unterminated(self, line) else 0) and len({E}) == count({E}, 'Error'))",
                 'implies(self.state == 2 and self.version >= 13 and re_match(self._RE_YAML_START, line), new(self).state == 3)',
                 'implies(self.state == 3 and (re_match(self._RE_YAML_END, line) or line.startswith(self.yaml_indent)), new(self).state == (1 if re_match(self._RE_YAML_END, line) else 3))',
             ],
             modifies=ALLF, floor=30, shards=1,
             note='case split of the entry state (state x plan present) — together the cases cover tap_inv; no input makes it raise: raises is empty, so any exception (int() of a group, the assert) is a failed obligation')

REG.contract('C18', M, 'TAPParser.parse_line', variant='end', params={'self': TapS, 'line': Const(None)},
             requires=['tap_inv(self)'],
             ensures=[f"count({E}, 'Error') == nerr_end(self)", f"len({E}) == count({E}, 'Error')"],
             floor=8, note='end of stream')
