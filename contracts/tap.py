"""C18 — contracts on mesonbuild/mtest.py (TAPParser, TestRunTAP)"""
from pyvc.api import Int, Bool, Str, Seq, Struct, Loop, Opt, List, Set, Obj, Const
from contracts import REG

M = 'mesonbuild/mtest.py'
PlanS = Struct('Plan', 'mesonbuild.mtest:TAPParser.Plan', num_tests=Int, late=Bool, skipped=Bool, explanation=Opt(Str))
TapS = Struct('TAPParser', 'mesonbuild.mtest:TAPParser', found_late_test=Bool, bailed_out=Bool, plan=Opt(PlanS), lineno=Int,
              num_tests=Int, last_test=Int, highest_test=Int, seen_tests=Opt(Set(Int)), yaml_lineno=Opt(Int), yaml_indent=Str,
              state=Int, version=Int)
ALLF = ['self.found_late_test', 'self.bailed_out', 'self.plan', 'self.lineno', 'self.num_tests', 'self.last_test', 'self.highest_test',
        'self.seen_tests', 'self.yaml_lineno', 'self.yaml_indent', 'self.state', 'self.version']

REG.contract('C18', M, 'TAPParser.parse_test', inline=True,
             params={'self': TapS, 'ok': Bool, 'num': Int, 'name': Str, 'directive': Opt(Str), 'explanation': Opt(Str)},
             ensures=["count(__yield__, 'Test') == 1",
                      "the(__yield__, 'Test').number == num", "the(__yield__, 'Test').name == strip_(name)",
                      "the(__yield__, 'Test').result.name == status(ok, directive is None, directive)",
                      "count(__yield__, 'Error') == (1 if bad_directive(directive is None, directive) else 0)",
                      "len(__yield__) == 1 + count(__yield__, 'Error')"],
             floor=20, note='exactly one subtest per test line, preceded by one error for an unknown directive')

E = '__yield__'
_STATES = [('s1', ['self.state == 1']), ('s2a', ['self.state == 2', 'self.version < 13']), ('s2b', ['self.state == 2', 'self.version >= 13']),
           ('s3', ['self.state == 3'])]
_PLANS = [('noplan', ['self.plan is None']), ('lateplan', ['self.plan is not None', 'self.plan.late and not self.found_late_test']),
          ('plan', ['self.plan is not None', 'not (self.plan.late and not self.found_late_test)'])]
for _st, _sta in _STATES:
  for _pl, _pla in _PLANS:
    REG.contract('C18', M, 'TAPParser.parse_line', variant=f'line-{_st}-{_pl}', params={'self': TapS, 'line': Str},
             requires=['tap_inv(self)'], assumes=_sta + _pla,
             ensures=[
                 'tap_inv(new(self))', 'new(self).lineno == self.lineno + 1',
                 # test lines
                 f'implies(is_test(self, line), test_events_ok({E}, self, line))',
                 f'implies(is_test(self, line), test_state_ok(self, new(self), line))',
                 f"implies(not is_test(self, line), count({E}, 'Test') == 0 and counters_same(self, new(self)))",
                 # plan lines
                 f'implies(is_plan(self, line), plan_ok({E}, self, new(self), line))',
                 f"implies(not is_plan(self, line), count({E}, 'Plan') == 0 and new(self).plan == self.plan)",
                 # bail out
                 f"implies(is_bailout(self, line), count({E}, 'Bailout') == 1 and len({E}) == 1 + (1 if yaml_unterminated(self, line) else 0) and new(self).bailed_out)",
                 f"implies(not is_bailout(self, line), count({E}, 'Bailout') == 0 and new(self).bailed_out == self.bailed_out)",
                 # version line: only valid as the first line, at least 13
                 f"implies(is_version(self, line), count({E}, 'Version') + count({E}, 'Error') == 1 + (1 if yaml_unterminated(self, line) else 0) and (count({E}, 'Version') == 1) == (self.lineno == 0 and int(re_group(self._RE_VERSION, 1, rstrip(line))) >= 13))",
                 f"implies(not is_version(self, line), count({E}, 'Version') == 0 and new(self).version == self.version)",
                 # anything else
                 f"implies(is_unknown(self, line), count({E}, 'UnknownLine') == 1)",
                 f"implies(not is_unknown(self, line), count({E}, 'UnknownLine') == 0)",
                 # YAML blocks and ignored lines
                 f"implies(not significant(self, line), count({E}, 'Error') == (1 if yaml_unterminated(self, line) else 0) and len({E}) == count({E}, 'Error'))",
                 'implies(self.state == 2 and self.version >= 13 and re_match(self._RE_YAML_START, line), new(self).state == 3)',
                 'implies(self.state == 3 and (re_match(self._RE_YAML_END, line) or line.startswith(self.yaml_indent)), new(self).state == (1 if re_match(self._RE_YAML_END, line) else 3))',
             ],
             modifies=ALLF, floor=30, shards=1,
             note='case split of the entry state (state x plan present) — together the cases cover tap_inv; no input makes it raise: raises is empty, so any exception (int() of a group, the assert) is a failed obligation')

REG.contract('C18', M, 'TAPParser.parse_line', variant='end', params={'self': TapS, 'line': Const(None)},
             requires=['tap_inv(self)'],
             ensures=[f"count({E}, 'Error') == nerr_end(self)", f"len({E}) == count({E}, 'Error')"],
             floor=8, note='end of stream')

# ---- TestRunTAP.parse: the verdict of the whole TAP test is a fold over the parser's events.  Three regions of the function
# (the event loop, the all-skipped rule, the final assignment); the tail that formats warnings is not under contract.
try:
    from specs.taprun import Event
    from specs.mtest import TR
    from pyvc.api import Dict as _D
    if REG.lookup(M, 'TestResult.is_bad') is None:      # also under contract for C12 (contracts/mtest.py): same clause
        REG.contract('C18', M, 'TestResult.is_bad', params={'self': TR}, ensures=['result == (bad(self))'], pure_expr='bad(self)', result=Bool, floor=1)
    RunS = Struct('TestRunTAP', 'mesonbuild.mtest:TestRunTAP', results=List(Event), additional_error=Str, res=TR)
    CODE = "(0 if final('res') is None else (1 if final('res') is TestResult.FAIL else (2 if final('res') is TestResult.ERROR else 3)))"
    REG.contract('C18', M, 'TestRunTAP.parse', variant='event-loop', region=('AsyncFor', 'parse_async'),
                 params={'self': RunS, 'harness': Obj, 'lines': Obj, 'res': Const(None), 'warnings': List(Event), 'version': Int},
                 requires=['len(self.results) == 0'],
                 ensures=[f"{CODE} == tapres([e for e in __trace__ if e[0] == 'parse_async'][0][-1], len([e for e in __trace__ if e[0] == 'parse_async'][0][-1]))",
                          "len(new(self).results) <= len([e for e in __trace__ if e[0] == 'parse_async'][0][-1])",
                          "implies(final('res') is not None and final('res') is TestResult.FAIL, anybadres(new(self).results, len(new(self).results)))"],
                 loops={0: Loop(invariant=["(0 if res is None else (1 if res is TestResult.FAIL else (2 if res is TestResult.ERROR else 3))) == tapres(__seq, __i)",
                                           "len(self.results) <= __i",
                                           "implies(res is not None and res is TestResult.FAIL, anybadres(self.results, len(self.results)))"],
                                locals={'res': Opt(TR), 'warnings': List(Event)})},
                 method_effects={'parse_async': {'returns': Seq(Event), 'raises': []}, 'log_subtest': []}, opaque_classes=['TAPParser'],
                 modifies=['self.results', 'self.additional_error'], floor=6,
                 uses=[('L18.tapres_iff_anybad', {'evs': '*', 'n': '*'}), ('L18.anybadres_prefix', {'rs': '*', 'x': '*', 'n': '*'})],
                 note='after the loop the provisional result is ERROR / FAIL / none according to the LAST deciding event, hence set iff some event was an error, a bail-out or a bad subtest (L18.tapres_iff_anybad)')
    REG.contract('C18', M, 'TestRunTAP.parse', variant='all-skipped-rule', region=('If', 'all((t.result is TestResult.SKIP'),
                 params={'self': RunS, 'res': Opt(TR)},
                 requires=["implies(res is not None and res is TestResult.FAIL, anybadres(self.results, len(self.results)))"],
                 ensures=["implies(res is TestResult.ERROR, final('res') is TestResult.ERROR)",
                          "implies(res is not None and res is TestResult.FAIL, final('res') is TestResult.FAIL)",
                          "implies(res is None, (final('res') is None) or final('res') is TestResult.SKIP)"],
                 floor=3, uses=[('L18.allskip_not_anybadres', {'rs': 'self.results', 'n': 'len(self.results)'})],
                 note='the all-subtests-skipped rule never overrides an error or a failure: it can only turn "no verdict yet" (or a skip) into SKIP')
    REG.contract('C18', M, 'TestRunTAP.parse', variant='final-assignment', region=('If', 'self.res == TestResult.RUNNING'),
                 params={'self': RunS, 'res': Opt(TR)}, modifies=['self.res'],
                 ensures=["implies(res is not None and self.res is TestResult.RUNNING, new(self).res is res)",
                          "implies(res is None or self.res is not TestResult.RUNNING, new(self).res is self.res)"],
                 floor=2, note='the verdict of the fold is stored unless the run already has a final result (timeout, interrupt)')
except ImportError:      # pragma: no cover
    pass
