"""C13 — contracts on mesonbuild/arglist.py"""
from pyvc.api import Int, Bool, Str, Seq, Struct, Loop, Opt, List, Deque, Set, Obj, Const
from contracts import REG
from specs.arglist import SeqS, Dedup

A = 'mesonbuild/arglist.py'
CA = Struct('CompilerArgs', 'mesonbuild.arglist:CompilerArgs', compiler=Obj, _container=List(Str), pre=Deque(Str), post=List(Str),
            needs_override_check=Bool)

REG.contract('C13', A, 'CompilerArgs._can_dedup', trusted=True, params={'cls': Obj, 'arg': Str},
             ensures=['result is can(arg)'], result=Dedup, pure_expr='can(arg)',
             dropped=['decorators classmethod, lru_cache'],
             note='definitional abstraction: can(a) names the answer of the pure, deterministic classmethod for the class at hand')
REG.contract('C13', A, 'CompilerArgs._should_prepend', trusted=True, params={'cls': Obj, 'arg': Str},
             ensures=['result == prep(arg)'], result=Bool, pure_expr='prep(arg)',
             dropped=['decorators classmethod, lru_cache'],
             note='definitional abstraction: prep(a) names the answer of the pure classmethod')

REG.contract('C13', A, 'CompilerArgs.flush_pre_post', params={'self': CA},
             ensures=['new(self)._container == view(self._container, self.pre, self.post, self.needs_override_check)',
                      'new(self).pre == EMPTY', 'new(self).post == EMPTY', 'not new(self).needs_override_check'],
             modifies=['self._container', 'self.pre', 'self.post', 'self.needs_override_check'],
             loops={0: Loop(invariant=['new == kf(self.pre, __i)',
                                       'forall(Str, lambda x: (x in pre_flush_set) == (ovr(x) and memb(self.pre, __i, x)))'],
                            locals={'new': List(Str), 'pre_flush_set': Set(Str)}),
                    1: Loop(invariant=['post_flush == kl(self.post, len(self.post) - __i)',
                                       'forall(Str, lambda x: (x in post_flush_set) == (ovr(x) and membfrom(self.post, len(self.post) - __i, x)))'],
                            locals={'post_flush': Deque(Str), 'post_flush_set': Set(Str)}),
                    2: Loop(invariant=['new == kf(self.pre, len(self.pre)) + filt(self._container, __i, self.pre, self.post)'],
                            locals={'new': List(Str)})},
             reveal=['view'], floor=40)

REG.contract('C13', A, 'CompilerArgs.__iadd__', params={'self': CA, 'args': SeqS},
             ensures=['new(self).post == Qs(self._container, self.pre, self.post, args, len(args))',
                      'new(self).pre == rev(Pr(self._container, self.pre, self.post, args, len(args))) + self.pre',
                      'new(self).needs_override_check == (self.needs_override_check or anyovr(args, len(args)))',
                      'result is new(self)'],
             modifies=['self.pre', 'self.post', 'self.needs_override_check'],
             loops={0: Loop(invariant=['self.post == Qs(old_self._container, old_self.pre, old_self.post, args, __i)',
                                       'tmp_pre == Pr(old_self._container, old_self.pre, old_self.post, args, __i)',
                                       'self.needs_override_check == (old_self.needs_override_check or anyovr(args, __i))',
                                       'self._container == old_self._container', 'self.pre == old_self.pre'],
                            locals={'tmp_pre': Deque(Str)})},
             result=CA, returns='self', floor=20)

VIEW = 'view(self._container, self.pre, self.post, self.needs_override_check)'
FLUSHED = ['new(self).pre == EMPTY', 'new(self).post == EMPTY', 'not new(self).needs_override_check']
MODS = ['self._container', 'self.pre', 'self.post', 'self.needs_override_check']

REG.contract('C13', A, 'CompilerArgs.__iter__', params={'self': CA}, result=SeqS,
             ensures=[f'result == {VIEW}', f'new(self)._container == {VIEW}'] + FLUSHED, modifies=MODS, floor=4)
REG.contract('C13', A, 'CompilerArgs.__getitem__', params={'self': CA, 'index': Int},
             requires=[f'0 <= index', f'index < len({VIEW})'],
             ensures=[f'result == {VIEW}[index]', f'new(self)._container == {VIEW}'] + FLUSHED, modifies=MODS, floor=4)
REG.contract('C13', A, 'CompilerArgs.__setitem__', params={'self': CA, 'index': Int, 'value': Str},
             requires=[f'0 <= index', f'index < len({VIEW})'],
             ensures=[f'new(self)._container == {VIEW}[:index] + unit(value) + {VIEW}[index + 1:]'] + FLUSHED, modifies=MODS, floor=4)
REG.contract('C13', A, 'CompilerArgs.__delitem__', params={'self': CA, 'index': Int},
             requires=[f'0 <= index', f'index < len({VIEW})'],
             ensures=[f'new(self)._container == {VIEW}[:index] + {VIEW}[index + 1:]'] + FLUSHED, modifies=MODS, floor=4)
REG.contract('C13', A, 'CompilerArgs.insert', params={'self': CA, 'index': Int, 'value': Str},
             requires=[f'0 <= index', f'index <= len({VIEW})'],
             ensures=[f'new(self)._container == {VIEW}[:index] + unit(value) + {VIEW}[index:]'] + FLUSHED, modifies=MODS, floor=4)

# constructors
REG.contract('C13', A, 'CompilerArgs.__init__', variant='list', params={'self': CA, 'compiler': Obj, 'iterable': List(Str)},
             ensures=['new(self)._container == iterable', 'new(self).compiler is compiler'] + FLUSHED, modifies=['self'], floor=4)
REG.contract('C13', A, 'CompilerArgs.__init__', variant='none', params={'self': CA, 'compiler': Obj, 'iterable': Const(None)},
             ensures=['len(new(self)._container) == 0', 'new(self).compiler is compiler'] + FLUSHED, modifies=['self'], floor=4)
REG.contract('C13', A, 'CompilerArgs.__init__', variant='copy', params={'self': CA, 'compiler': Obj, 'iterable': CA},
             ensures=['new(self)._container == view(iterable._container, iterable.pre, iterable.post, iterable.needs_override_check)',
                      'new(iterable)._container == view(iterable._container, iterable.pre, iterable.post, iterable.needs_override_check)',
                      'new(iterable).pre == EMPTY', 'new(iterable).post == EMPTY', 'not new(iterable).needs_override_check',
                      'new(self).compiler is compiler'] + FLUSHED,
             modifies=['self', 'iterable._container', 'iterable.pre', 'iterable.post', 'iterable.needs_override_check'], floor=4)
REG.contract('C13', A, 'CompilerArgs.copy', params={'self': CA},
             ensures=[f'result._container == {VIEW}', 'result.pre == EMPTY', 'result.post == EMPTY', 'not result.needs_override_check',
                      'result.compiler is self.compiler', f'new(self)._container == {VIEW}'] + FLUSHED,
             modifies=MODS, result=CA, floor=4)

# += front ends
IADD1 = ['new(self).post == Qs(self._container, self.pre, self.post, unit(arg), 1)',
         'new(self).pre == rev(Pr(self._container, self.pre, self.post, unit(arg), 1)) + self.pre',
         'new(self).needs_override_check == (self.needs_override_check or ovr(arg))']
REG.contract('C13', A, 'CompilerArgs.append', params={'self': CA, 'arg': Str}, ensures=IADD1,
             modifies=['self.pre', 'self.post', 'self.needs_override_check'], floor=4)
REG.contract('C13', A, 'CompilerArgs.extend', params={'self': CA, 'args': SeqS},
             ensures=['new(self).post == Qs(self._container, self.pre, self.post, args, len(args))',
                      'new(self).pre == rev(Pr(self._container, self.pre, self.post, args, len(args))) + self.pre',
                      'new(self).needs_override_check == (self.needs_override_check or anyovr(args, len(args)))'],
             modifies=['self.pre', 'self.post', 'self.needs_override_check'], floor=4)
REG.contract('C13', A, 'CompilerArgs.__add__', params={'self': CA, 'args': SeqS},
             ensures=[f'result._container == {VIEW}',
                      f'result.post == Qs({VIEW}, EMPTY, EMPTY, args, len(args))',
                      f'result.pre == rev(Pr({VIEW}, EMPTY, EMPTY, args, len(args)))',
                      'result.needs_override_check == anyovr(args, len(args))',
                      f'new(self)._container == {VIEW}'] + FLUSHED,
             modifies=MODS, result=CA, floor=5, uses=[('L13.view_flushed', {'c': '*'})])

# direct appends: no reordering / de-dup except through += for absolute paths
REG.contract('C13', A, 'CompilerArgs.append_direct', params={'self': CA, 'arg': Str},
             ensures=[f'view(new(self)._container, new(self).pre, new(self).post, new(self).needs_override_check) == (app1({VIEW}, arg) if isabs(arg) else {VIEW} + unit(arg))'],
             modifies=MODS, floor=3, uses=[('L13.view_flushed', {'c': '*'})])
REG.contract('C13', A, 'CompilerArgs.extend_direct', params={'self': CA, 'iterable': SeqS},
             ensures=[f'view(new(self)._container, new(self).pre, new(self).post, new(self).needs_override_check) == direct({VIEW}, iterable, len(iterable))'],
             loops={0: Loop(invariant=['view(self._container, self.pre, self.post, self.needs_override_check) == direct(view(old_self._container, old_self.pre, old_self.post, old_self.needs_override_check), iterable, __i)',
                                       'self.compiler is old_self.compiler'])},
             modifies=MODS, floor=4, uses=[('L13.view_flushed', {'c': '*'})])
REG.contract('C13', A, 'CompilerArgs.to_native', params={'self': CA, 'copy': Bool},
             ensures=[f'result == obj_unix_args_to_native(self.compiler, {VIEW})', f'new(self)._container == {VIEW}'] + FLUSHED,
             modifies=MODS, opaque={'unix_args_to_native': ([SeqS], List(Str))}, floor=4, uses=[('L13.view_flushed', {'c': '*'})],
             note='the compiler object is opaque; the list handed to it is exactly the denoted list')

# ---- the classification itself, for the C-like compilers (gcc / clang / ...): the tables and the pattern of the real class
# against the kinds the statement names.  The other subclasses (D, Fortran via gnu mixins reuse this one) are not under contract.
try:
    from pyvc import src as _src
    _CL = _src.import_module('mesonbuild/compilers/mixins/clike.py').CLikeCompilerArgs
    _AL = _src.import_module('mesonbuild/arglist.py')
    BARE = "arg in ('-I', '-isystem', '-L', '-D', '-U', '-l', '-Wl,-l', '-Wl,-rpath,', '-Wl,-rpath-link,')"
    OVR = "(arg.startswith('-I') or arg.startswith('-isystem') or arg.startswith('-L') or arg.startswith('-D') or arg.startswith('-U'))"
    ONCE = ("(arg in ('-c', '-S', '-E', '-pipe', '-pthread', '-Wl,--export-dynamic') or arg.startswith('-l') or arg.startswith('-Wl,-l') or arg.startswith('-Wl,-rpath,') "
            "or arg.startswith('-Wl,-rpath-link,') or arg.endswith('.lib') or arg.endswith('.dll') or arg.endswith('.so') or arg.endswith('.dylib') or arg.endswith('.a') "
            "or re_match(CompilerArgs.dedup1_regex, arg, 'search'))")
    REG.contract('C13', A, 'CompilerArgs._can_dedup', variant='clike', params={'cls': Const(_CL), 'arg': Str},
                 ensures=[f"implies({BARE}, result is Dedup.NO_DEDUP)",
                          f"implies(not {BARE} and {OVR}, result is Dedup.OVERRIDDEN)",
                          f"implies(not {BARE} and not {OVR} and {ONCE}, result is Dedup.UNIQUE)",
                          f"implies(not {BARE} and not {OVR} and not {ONCE}, result is Dedup.NO_DEDUP)"],
                 result=Dedup, floor=4, dropped=['decorators classmethod / lru_cache: the function is pure, caching does not change its answers'],
                 note='C-like command lines: a bare prefix is never touched; -I -isystem -L -D -U are override-type; -l / -Wl,-l / rpath arguments, library files (by suffix, or a versioned shared library recognised by the pattern dedup1_regex SEARCHED anywhere in the word), -pthread and the like are once-only; everything else is left alone')
    REG.contract('C13', A, 'CompilerArgs._should_prepend', variant='clike', params={'cls': Const(_CL), 'arg': Str},
                 ensures=["result == (arg.startswith('-I') or arg.startswith('-L'))"], result=Bool, floor=1,
                 dropped=['decorators classmethod / lru_cache'], note='C-like command lines: exactly the -I and -L arguments go to the front')
except ImportError:       # pragma: no cover
    pass

# ---- the remaining readers: the LENGTH and EQUALITY of a command line are those of its eager meaning, whatever is still pending
VIEWO = 'view(other._container, other.pre, other.post, other.needs_override_check)'
REG.contract('C13', A, 'CompilerArgs.__len__', params={'self': CA},
             ensures=[f'result == len({VIEW})'], modifies=MODS, floor=1,
             note='len() counts the arguments of the eager meaning — not pending duplicates that the flush is going to drop (len(a) must equal len(list(a)))')
REG.contract('C13', A, 'CompilerArgs.__eq__', variant='args', params={'self': CA, 'other': CA}, requires=['self is not other'],
             ensures=[f'implies(self.compiler is other.compiler, result == seq_eq_from({VIEW}, {VIEWO}, 0))'],
             modifies=MODS + ['other._container', 'other.pre', 'other.post', 'other.needs_override_check'], floor=1,
             note='two argument lists of the same compiler are equal iff their eager meanings are — whichever of the two still has pending arguments (a == b iff b == a)')

# ---- extend_preserving_lflags (round ten): the batch is split, in order, into library flags and the rest; the rest is added
# by the ordinary += (callee contract of `extend`), the library flags by extend_direct (callee contract) — so no -l/-L of the
# batch is ever dropped as a repeat or moved to the front, and everything else gets exactly the += meaning
CAL = Struct('CompilerArgs', 'mesonbuild.arglist:CompilerArgs', compiler=Obj, _container=List(Str), pre=Deque(Str), post=List(Str),
             needs_override_check=Bool, always_dedup_args=Seq(Str))
_NF = 'nfl(self.always_dedup_args, iterable, len(iterable))'
_LF = 'lfl(self.always_dedup_args, iterable, len(iterable))'
REG.contract('C13', A, 'CompilerArgs.extend_preserving_lflags', params={'self': CAL, 'iterable': SeqS},
             ensures=['view(new(self)._container, new(self).pre, new(self).post, new(self).needs_override_check) == '
                      f'direct(view(self._container, rev(Pr(self._container, self.pre, self.post, {_NF}, len({_NF}))) + self.pre, '
                      f'Qs(self._container, self.pre, self.post, {_NF}, len({_NF})), '
                      f'self.needs_override_check or anyovr({_NF}, len({_NF}))), {_LF}, len({_LF}))'],
             loops={0: Loop(invariant=['normal_flags == nfl(self.always_dedup_args, iterable, __i)',
                                       'lflags == lfl(self.always_dedup_args, iterable, __i)',
                                       'self._container == old_self._container', 'self.pre == old_self.pre', 'self.post == old_self.post',
                                       'self.needs_override_check == old_self.needs_override_check'],
                            locals={'normal_flags': List(Str), 'lflags': List(Str)})},
             modifies=MODS, floor=4,
             note='always_dedup_args is the class attribute (a tuple of words) read as a field that nothing modifies')

# ---- `list + CompilerArgs` (round ten): __radd__ builds a new list from the plain words and adds SELF with += — so __iadd__ is
# also under contract for a CompilerArgs argument: the loop iterates through the iteration protocol (the engine calls the contract
# of __iter__: the argument is flushed and read as the list it denotes)
VA = 'view(args._container, args.pre, args.post, args.needs_override_check)'
VAO = VA.replace('args.', 'old_args.')
REG.contract('C13', A, 'CompilerArgs.__iadd__', variant='ca', params={'self': CA, 'args': CA}, requires=['self is not args'],
             ensures=[f'new(self).post == Qs(self._container, self.pre, self.post, {VA}, len({VA}))',
                      f'new(self).pre == rev(Pr(self._container, self.pre, self.post, {VA}, len({VA}))) + self.pre',
                      f'new(self).needs_override_check == (self.needs_override_check or anyovr({VA}, len({VA})))',
                      f'new(args)._container == {VA}', 'new(args).pre == EMPTY', 'new(args).post == EMPTY', 'not new(args).needs_override_check',
                      'result is new(self)'],
             modifies=['self.pre', 'self.post', 'self.needs_override_check', 'args._container', 'args.pre', 'args.post', 'args.needs_override_check'],
             loops={0: Loop(invariant=[f'self.post == Qs(old_self._container, old_self.pre, old_self.post, {VAO}, __i)',
                                       f'tmp_pre == Pr(old_self._container, old_self.pre, old_self.post, {VAO}, __i)',
                                       f'self.needs_override_check == (old_self.needs_override_check or anyovr({VAO}, __i))',
                                       'self._container == old_self._container', 'self.pre == old_self.pre'],
                            locals={'tmp_pre': Deque(Str)})},
             result=CA, returns='self', floor=20,
             note='the argument is another CompilerArgs: what is added is the list it denotes (all its pending arguments included), and it is left flushed')
REG.contract('C13', A, 'CompilerArgs.__radd__', params={'self': CA, 'args': List(Str)},
             ensures=['result._container == args',
                      f'result.post == Qs(args, EMPTY, EMPTY, {VIEW}, len({VIEW}))',
                      f'result.pre == rev(Pr(args, EMPTY, EMPTY, {VIEW}, len({VIEW})))',
                      f'result.needs_override_check == anyovr({VIEW}, len({VIEW}))',
                      'result.compiler is self.compiler',
                      f'new(self)._container == {VIEW}'] + FLUSHED,
             modifies=MODS, result=CA, floor=5, uses=[('L13.view_flushed', {'c': '*'})],
             note='`words + args`: the plain words first, then the whole denoted list of self as ONE increment (its -I/-L go in front of the words)')
