"""C06 — OptionKey ordering: every list of options that reaches generated text is put in order with sorted() over OptionKey,
so the comparison methods must define ONE strict total order (otherwise sorted() keeps the incoming, hash-dependent order)"""
from pyvc.api import Int, Bool, Str, Struct, Opt, Obj
from contracts import REG

O = 'mesonbuild/options.py'
KeyS = Struct('OptionKey', 'mesonbuild.options:OptionKey', subproject=Opt(Str), machine=Int, name=Str)
LEX = ('(self.subproject < other.subproject or (self.subproject == other.subproject and '
       '(self.machine < other.machine or (self.machine == other.machine and self.name {op} other.name))))')
TOP = '(self.machine < other.machine or (self.machine == other.machine and self.name {op} other.name))'
for meth, op, first in (('__lt__', '<', True), ('__le__', '<=', True), ('__gt__', '>', False), ('__ge__', '>=', False)):
    flip = (lambda t: t.replace('self.', '@.').replace('other.', 'self.').replace('@.', 'other.'))
    lex = LEX.format(op=op if first else {'>': '<', '>=': '<='}[op])
    top = TOP.format(op=op if first else {'>': '<', '>=': '<='}[op])
    if not first:
        lex, top = flip(lex), flip(top)
    REG.contract('C06', O, f'OptionKey.{meth}', params={'self': KeyS, 'other': KeyS},
                 ensures=[f'implies(self.subproject is None and other.subproject is None, result == {top})',
                          f'implies(self.subproject is None and other.subproject is not None, result == {first})',
                          f'implies(self.subproject is not None and other.subproject is None, result == {not first})',
                          f'implies(self.subproject is not None and other.subproject is not None, result == {lex})'],
                 result=Bool, floor=3,
                 note='top-level keys (no subproject) come first; within one group the order is lexicographic on (subproject, machine, name): a strict total order, the same one for < <= > >=')
REG.contract('C06', O, 'OptionKey._to_tuple', params={'self': KeyS}, inline=True)
for _c in list(REG.contracts.values()):
    if _c.prop == 'C06' and _c.qual.startswith('OptionKey.__'):
        _c.requires.append('0 <= self.machine and self.machine <= 1 and 0 <= other.machine and other.machine <= 1')
        _c.note += '; machine is modelled by its integer value (MachineChoice is an IntEnum: BUILD = 0, HOST = 1)'
