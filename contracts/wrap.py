"""C10 — contracts on mesonbuild/wrap/wrap.py (hash verification dominates use; cleanup after a failed patch step)"""
from pyvc.api import Int, Bool, Str, Seq, Struct, Loop, Opt, List, Set, Obj, Const, Dict
from contracts import REG

W = 'mesonbuild/wrap/wrap.py'
PkgS = Struct('PackageDefinition', 'mesonbuild.wrap.wrap:PackageDefinition', values=Dict(Str, Str), name=Str)
ResS = Struct('Resolver', 'mesonbuild.wrap.wrap:Resolver', wrap=PkgS, dirname=Str)
REG.contract('C10', W, 'PackageDefinition.get', params={'self': PkgS, 'key': Str},
             ensures=['result == self.values[key]'], raises={'WrapException': 'key not in self.values'}, result=Str, floor=2,
             note='a missing key of the wrap file is a WrapException, never a KeyError')
REG.contract('C10', W, 'Resolver.hash_file', trusted=True, params={'self': ResS, 'path': Str}, ensures=['result == sha256_of(path)'], result=Str,
             pure_expr='sha256_of(path)', note='SHA-256 of the file content (hashlib trusted); sha256_of is the abstract content hash of a path')
REG.contract('C10', W, 'Resolver.check_hash', params={'self': ResS, 'what': Str, 'path': Str, 'hash_required': Bool},
             ensures=["(what + '_hash' not in self.wrap.values and not hash_required) or sha256_of(path) == lower(self.wrap.values[what + '_hash'])"],
             raises={'WrapException': "(what + '_hash' in self.wrap.values or hash_required) and (what + '_hash' not in self.wrap.values or sha256_of(path) != lower(self.wrap.values[what + '_hash']))"},
             floor=4,
             note='returns normally only if the file hashes to the recorded value — or no hash is recorded and none is required (packagefiles)')

# the patch / diff step of _resolve: any failure removes the freshly prepared directory before the error propagates
EFF = {'apply_patch': ['WrapException', 'Exception'], 'apply_diff_files': ['WrapException', 'Exception']}
REG.contract('C10', W, 'Resolver._resolve', variant='patch-step', region=('Try', 'self.apply_patch(packagename)'),
             params={'self': ResS, 'packagename': Str},
             ensures=["[e[0] for e in __trace__ if e[0] != 'raised'] == ['apply_patch', 'apply_diff_files']"],
             on_raise=["[e for e in __trace__ if e[0] != 'raised'][-1][0] == 'windows_proof_rmtree' and [e for e in __trace__ if e[0] != 'raised'][-1][1] == self.dirname"],
             raises={'Exception': 'True'}, exact_raises=False,
             method_effects=EFF, effects={'windows_proof_rmtree': []}, floor=3,
             note='whatever exception the patch or diff step raises (not only WrapException), the unpacked directory is removed before it propagates, so no later run accepts a half-prepared subproject')

# every path returned by _get_file_internal was hash-checked on this call (cache hit / packagefiles) or was downloaded
# by _download (which renames the temporary into place only after its hash matched)
ResS2 = Struct('Resolver', 'mesonbuild.wrap.wrap:Resolver', wrap=Struct('PackageDefinition', 'mesonbuild.wrap.wrap:PackageDefinition', values=Dict(Str, Str), name=Str, filesdir=Str),
               dirname=Str, cachedir=Str)
T_ = "[e for e in __trace__ if e[0] in ('check_hash', '_download')]"
REG.contract('C10', W, 'Resolver._get_file_internal', params={'self': ResS2, 'what': Str, 'packagename': Str},
             ensures=[f"len({T_}) == 1 and {T_}[0][1] == what",
                      f"({T_}[0][0] == 'check_hash' and {T_}[0][2] == result) or ({T_}[0][0] == '_download' and {T_}[0][2] == result)",
                      f"implies({T_}[0][0] == 'check_hash' and what + '_url' in self.wrap.values, len({T_}[0]) == 3)"],
             raises={'WrapException': 'True'}, exact_raises=False,
             method_effects={'check_hash': ['WrapException'], '_download': ['WrapException']}, opaque_classes=['Path'],
             opaque={'exists': ([], Bool), 'as_posix': ([], Str)}, floor=6,
             note='no archive path is handed out unverified: the cached file and the packagefiles file pass through check_hash (hash required for downloaded-type entries), a fresh download through _download')

# _download: the temporary is renamed into place only if its hash equals the recorded one; otherwise it is removed
DL = Struct('Resolver', 'mesonbuild.wrap.wrap:Resolver', wrap=PkgS, dirname=Str)
REG.contract('C10', W, 'Resolver._download', variant='attempt', region=('Try', 'self.get_data_with_backoff(srcurl)'),
             params={'self': DL, 'what': Str, 'ofname': Str, 'packagename': Str, 'fallback': Const(True), 'srcurl': Str},
             ensures=["all(e[0] != 'os.remove' for e in __trace__)", "final('dhash') == lower(self.wrap.values[what + '_hash'])"],
             on_raise=["True"],
             raises={'WrapException': 'True'}, exact_raises=False,
             method_effects={'get_data_with_backoff': {'returns': __import__('pyvc.api', fromlist=['TupleS']).TupleS(Str, Str), 'raises': ['WrapException']}},
             floor=2,
             note='final (fallback) attempt: a hash mismatch removes the temporary file and raises; only a matching download leaves the try block normally')

# ---- candidate order of dependency(): cache -> existing subproject -> system (omitted iff forced and a fallback is known) -> configure subproject
D = 'mesonbuild/interpreter/dependencyfallbacks.py'
KINDS = '[c[0].name for c in result]'
for _names in (['n'], ['n', 'm']):
    k_ = len(_names)
    HolderS = Struct('DependencyFallbacksHolder', 'mesonbuild.interpreter.dependencyfallbacks:DependencyFallbacksHolder',
                     names=Const(list(_names)), subproject_name=Opt(Str), forcefallback=Bool)
    SUB = "(self.subproject_name is not None and self.subproject_name != '')"
    cache, system = ['_do_dependency_cache'] * k_, ['_do_dependency'] * k_
    REG.contract('C10', D, 'DependencyFallbacksHolder._get_candidates', variant=f'names{k_}', params={'self': HolderS},
                 ensures=[f"implies({SUB} and self.forcefallback, {KINDS} == {cache + ['_do_existing_subproject', '_do_subproject']!r})",
                          f"implies({SUB} and not self.forcefallback, {KINDS} == {cache + ['_do_existing_subproject'] + system + ['_do_subproject']!r})",
                          f"implies(not {SUB}, {KINDS} == {cache + system!r})",
                          f"[c[1] for c in result][:{k_}] == {_names!r}"],
                 floor=4, note=f'{k_} dependency name(s): overrides/cache first, then an already configured subproject, then the system (not consulted iff the fallback is forced and known), then configuring the subproject')

# ---- nodownload: no network access whatever the wrap file offers (fallback URL included)
from pyvc.api import Enum, TupleS
WM = Enum('WrapMode', {k: f'mesonbuild.wrap:WrapMode.{k}' for k in ('default', 'nofallback', 'nodownload', 'forcefallback', 'nopromote')})
DLS = Struct('Resolver', 'mesonbuild.wrap.wrap:Resolver', wrap=PkgS, dirname=Str, wrap_mode=WM)
REG.contract('C10', W, 'Resolver.check_can_download', params={'self': DLS},
             raises={'WrapException': 'self.wrap_mode is WrapMode.nodownload'}, floor=2,
             note='refuses exactly under wrap_mode=nodownload')
NET = "[e for e in __trace__ if e[0] in ('get_data_with_backoff', '_download', 'os.rename')]"
REG.contract('C10', W, 'Resolver._download', variant='whole', params={'self': DLS, 'what': Str, 'ofname': Str, 'packagename': Str, 'fallback': Bool},
             ensures=['self.wrap_mode is not WrapMode.nodownload',
                      # a successful first attempt moved a download whose hash matched into place
                      f"implies(len([e for e in __trace__ if e[0] == '_download']) == 0, [e[0] for e in __trace__ if e[0] != 'raised'][-1] == 'os.rename' and [e for e in __trace__ if e[0] == 'get_data_with_backoff'][0][-1][0] == lower(self.wrap.values[what + '_hash']))"],
             on_raise=[f"implies(self.wrap_mode is WrapMode.nodownload, len({NET}) == 0)"],
             raises={'WrapException': 'True'}, exact_raises=False,
             method_effects={'get_data_with_backoff': {'returns': TupleS(Str, Str), 'raises': ['WrapException']}, '_download': {'returns': Opt(Obj), 'raises': ['WrapException']}},
             floor=6,
             note='under nodownload neither the primary nor the fallback URL is contacted and nothing is moved into the cache; otherwise only a download whose hash matched is renamed into place (the fallback attempt is the recursive call, an effect here)')

# ---- consistency of repeated lookups: a dependency that a lookup has FOUND is pinned for every name of the call, so that any
# later lookup of the name in this configuration returns it (dependency_overrides is consulted first by _get_candidates'
# first candidate); an entry that exists already is never replaced.  Region: the verdict statement inside the candidate loop.
from pyvc.api import Dict as _Dict
U_ = 'mesonbuild/utils/universal.py'
B_ = 'mesonbuild/dependencies/detect.py'
REG.contract('C10', U_, 'PerMachine.__getitem__', inline=True, trusted=True, note='[self.build, self.host][machine.value]; inlined')
REG.contract('C10', B_, 'get_dep_identifier', trusted=True, params={'name': Str, 'kwargs': Obj}, ensures=['result is dep_identifier(name, kwargs)'], result=Obj,
             pure_expr='dep_identifier(name, kwargs)', note='the cache key of a lookup: a pure function of the name and the keyword arguments (assumed)')
_MC = __import__('pyvc.src', fromlist=['x']).import_module('mesonbuild/utils/universal.py').MachineChoice
for _names in (['n'], ['n', 'm']):
    for _mname in ('HOST', 'BUILD'):
        k_ = len(_names)
        fld = _mname.lower()
        PMS = Struct('PerMachine', 'mesonbuild.utils.universal:PerMachine', build=_Dict(Obj, Obj), host=_Dict(Obj, Obj))
        BuildS_ = Struct('Build', 'mesonbuild.build:Build', dependency_overrides=PMS)
        IntS_ = Struct('Interpreter', 'mesonbuild.interpreter.interpreter:Interpreter', current_node=Obj)
        HS = Struct('DependencyFallbacksHolder', 'mesonbuild.interpreter.dependencyfallbacks:DependencyFallbacksHolder',
                    names=Const(list(_names)), build=BuildS_, for_machine=Const(getattr(_MC, _mname)), interpreter=IntS_, _display_name=Str)
        FOUND = "(dep is not None and truthy(dep) and obj_found(dep))"
        OLD, NEW = f"self.build.dependency_overrides.{fld}", f"new(self).build.dependency_overrides.{fld}"
        OTHER_OLD, OTHER_NEW = (f"self.build.dependency_overrides.{'build' if fld == 'host' else 'host'}", f"new(self).build.dependency_overrides.{'build' if fld == 'host' else 'host'}")
        NEWOBJ = "[e for e in __trace__ if e[0] == 'new DependencyOverride']"
        ens = [f"implies({FOUND}, result is dep)"]
        ens += [f"implies({FOUND}, dep_identifier({n_!r}, kwargs) in {NEW})" for n_ in _names]
        ens += [f"forall(Obj, lambda q: implies(q in {OLD}, q in {NEW} and {NEW}[q] is {OLD}[q]))",
                f"forall(Obj, lambda q: implies(q in {NEW} and q not in {OLD}, {FOUND} and ({' or '.join(f'q is dep_identifier({n_!r}, kwargs)' for n_ in _names)})))",
                f"forall(Obj, lambda q: (q in {OTHER_NEW}) == (q in {OTHER_OLD}) and implies(q in {OTHER_OLD}, {OTHER_NEW}[q] is {OTHER_OLD}[q]))",
                f"all(e[1] is dep and e[2] is self.interpreter.current_node and kw(e, 'explicit', True) is False for e in {NEWOBJ})"]
        REG.contract('C10', D, 'DependencyFallbacksHolder.lookup', variant=f'pin-{fld}-{k_}', region=('If', 'dep.found()'),
                     params={'self': HS, 'dep': Opt(Obj), 'kwargs': Obj, 'required': Bool, 'i': Int, 'last': Int},
                     ensures=ens, raises={'DependencyException': f'not {FOUND} and required and ((dep is not None and truthy(dep)) or i == last)'},
                     opaque={'found': ([], Bool)}, opaque_classes=['DependencyOverride'],
                     modifies=['self.build'], floor=6,
                     note=f'{k_} name(s), {_mname} machine: a found dependency is returned AND recorded under the identifier of every name of the call unless an entry exists (which is kept); nothing else is recorded; a required dependency that is not found is an error at the last candidate (or when a candidate answered with a not-found dependency)')

# ---- the first candidate of every lookup (_get_cached_dep): an override wins; otherwise, when the fallback is FORCED and known, what an
# earlier configuration found on the system (the persisted cache coredata.deps) is not an answer — the system is not consulted, not
# even through its memory; otherwise the persisted entry is the answer when its version still fits
try:
    from mesonbuild.utils.universal import MachineChoice as _MC2
    _PM2 = Struct('PerMachine', 'mesonbuild.utils.universal:PerMachine', build=_Dict(Obj, Obj), host=_Dict(Obj, Obj))
    _HS2 = Struct('DependencyFallbacksHolder', 'mesonbuild.interpreter.dependencyfallbacks:DependencyFallbacksHolder',
                  build=Struct('Build', 'mesonbuild.build:Build', dependency_overrides=_PM2), coredata=Struct('CoreData', 'mesonbuild.coredata:CoreData', deps=_PM2),
                  for_machine=Const(_MC2.HOST), forcefallback=Bool, subproject_name=Opt(Str))
    _ID = "dep_identifier(name, kwargs)"
    _OV, _CA = "self.build.dependency_overrides.host", "self.coredata.deps.host"
    _HASOV = f"({_ID} in {_OV} and truthy({_OV}[{_ID}]))"
    _FORCED = "(self.forcefallback and self.subproject_name is not None and self.subproject_name != '')"
    _CV = "[e for e in __trace__ if e[0] == '_check_version']"
    REG.contract('C10', D, 'DependencyFallbacksHolder._get_cached_dep', variant='host', params={'self': _HS2, 'name': Str, 'kwargs': Obj},
                 ensures=[
                     # forced and known fallback, nothing overridden: no answer from the persisted system cache
                     f"implies(not {_HASOV} and {_FORCED}, result is None)",
                     # an override whose dependency is not found is the answer as it is
                     f"implies({_HASOV} and not obj_found(attr_dep({_OV}[{_ID}])), result is attr_dep({_OV}[{_ID}]))",
                     # an override that is found: the answer iff its version fits (a not-found dependency otherwise: the search ends here)
                     f"implies({_HASOV} and obj_found(attr_dep({_OV}[{_ID}])) and truthy(attr_dep({_OV}[{_ID}])), len({_CV}) == 1 and (result is attr_dep({_OV}[{_ID}]) if {_CV}[0][-1] else result is [e for e in __trace__ if e[0] == '_notfound_dependency'][0][-1]))",
                     # not forced, nothing overridden: the persisted entry iff there is one and its version still fits
                     f"implies(not {_HASOV} and not {_FORCED} and {_ID} in {_CA} and truthy({_CA}[{_ID}]), len({_CV}) == 1 and (result is {_CA}[{_ID}] if {_CV}[0][-1] else result is None))",
                     f"implies(not {_HASOV} and not {_FORCED} and not ({_ID} in {_CA} and truthy({_CA}[{_ID}])), result is None)"],
                 opaque={'found': ([], Bool), 'get_version': ([], Str)}, opaque_attrs={'dep': Obj, 'explicit': Bool},
                 opaque_fns={'stringlistify': ([Obj], List(Str))},
                 method_effects={'_log_found': [], '_check_version': {'returns': Bool, 'raises': []}, '_notfound_dependency': {'returns': Obj, 'raises': []}, 'get': {'returns': Obj, 'raises': []}},
                 floor=6,
                 note='the cache candidate: an override wins (a not-found one ends the search); with a forced, known fallback the persisted system lookups of earlier configurations are NOT consulted; otherwise the persisted entry answers iff its version still fits')
except ImportError:      # pragma: no cover
    pass
