"""Regular-expression CONSTANTS of the real code under contract: the language of the live pattern object (translated
from Python's own parse tree, pyvc/regex.py) is compared by SMT with the language the property prescribes.  The
patterns are read from the imported module on every run; a change of a pattern changes the obligation.

A pattern outside the translatable subset (look-around kept, back-references) makes the audit UNDECIDED, never a
violation."""
from contracts import REG

try:                      # the native side (/venv/bin/python, no z3) imports this module only for the registry
    import z3
    from pyvc import src, regex as rx
    from pyvc.core import Obligation, Unsupported
except ImportError:       # pragma: no cover
    z3 = None


def R(*chars):
    return z3.Union(*[z3.Re(c) for c in chars]) if len(chars) > 1 else z3.Re(chars[0])


if z3 is not None:
    DIG = z3.Range('0', '9')
    LET = z3.Union(z3.Range('a', 'z'), z3.Range('A', 'Z'))
    IDCH = z3.Union(DIG, LET, z3.Re('-'))           # SemVer identifier characters
    VARCH = z3.Union(DIG, LET, z3.Re('-'), z3.Re('_'))  # characters of a configuration variable name


def same_language(name, real, spec, note, line=0):
    s = z3.String('w')
    return Obligation(name, 'regex', [], z3.InRe(s, real) == z3.InRe(s, spec), line, '', note)


def need(lang, what):
    if lang is None:
        raise Unsupported(f'{what}: pattern outside the translatable regex subset')
    return lang


def alts_of(pat, n, what):
    alts = rx.alternatives(pat)
    if len(alts) != n:
        raise Unsupported(f'{what}: {len(alts)} top-level alternatives, the audit is written for {n}')
    return [need(a[0], what) for a in alts]


# ---- C03: what ninja_quote escapes
def ninja_quote_patterns(engine):
    mod = src.import_module('mesonbuild/backend/ninjabackend.py')
    notes = set()
    b = need(rx.whole_language(mod.NINJA_QUOTE_BUILD_PAT, notes), 'NINJA_QUOTE_BUILD_PAT')
    v = need(rx.whole_language(mod.NINJA_QUOTE_VAR_PAT, notes), 'NINJA_QUOTE_VAR_PAT')
    return [same_language('NINJA_QUOTE_BUILD_PAT', b, R('$', ' ', ':', '\n'), 'in a build line every single $, blank, colon and newline is escaped (each occurrence, whatever surrounds it)'),
            same_language('NINJA_QUOTE_VAR_PAT', v, R('$', ' ', '\n'), 'in a variable value every single $, blank and newline is escaped (each occurrence, whatever surrounds it)')]


REG.custom('C03', 'ninja_quote.patterns', ninja_quote_patterns, note='SMT comparison of the live quoting patterns with the set of characters ninja treats specially')


# ---- C13: which words are versioned shared libraries (searched anywhere in the word)
def dedup_pattern(engine):
    mod = src.import_module('mesonbuild/arglist.py')
    notes = set()
    real = need(rx.search_language(mod.CompilerArgs.dedup1_regex, notes), 'CompilerArgs.dedup1_regex')
    ANY = z3.Star(z3.AllChar(z3.ReSort(z3.StringSort())))
    NONL = z3.Star(z3.Intersect(z3.AllChar(z3.ReSort(z3.StringSort())), z3.Complement(z3.Re('\n'))))
    ver = z3.Concat(z3.Re('.'), z3.Plus(DIG))
    name = z3.Concat(z3.Re('lib'), NONL, z3.Re('.so'), z3.Option(ver), z3.Option(ver), z3.Option(ver), z3.Option(z3.Re('\n')))
    spec = z3.Union(name, z3.Concat(ANY, R('/', '\\'), name))
    for n_ in notes:
        engine.assumptions.add(n_)
    return [same_language('CompilerArgs.dedup1_regex', real, spec, 'a word is a (versioned) shared library iff a file name starting with lib - at the start of the word or after a / or \\ - ends with .so and at most three numeric version components')]


REG.custom('C13', 'CompilerArgs.dedup1_pattern', dedup_pattern, note='SMT comparison of the set of words the live pattern finds a match in with the shared-library names the statement means')


# ---- C19: the tokeniser of Version.__init__
def version_tokens(engine):
    mod = src.import_module('mesonbuild/utils/universal.py')
    a = alts_of(mod._VERSION_TOK_RE, 2, '_VERSION_TOK_RE')
    engine.assumptions.add('\\d is compared on the ASCII digits (Unicode decimal digits are exercised by the bounded tokeniser check)')
    return [same_language('_VERSION_TOK_RE/numeric', a[0], z3.Plus(DIG), 'a numeric component is a maximal run of digits'),
            same_language('_VERSION_TOK_RE/alphabetic', a[1], z3.Plus(LET), 'an alphabetic component is a maximal run of ASCII letters')]


REG.custom('C19', 'Version.token_pattern', version_tokens, note='SMT comparison of the live tokeniser pattern with the component grammar the order is specified over')


# ---- C20: the tokeniser of SemVer.__init__
def semver_tokens(engine):
    mod = src.import_module('mesonbuild/cargo/version.py')
    a = alts_of(mod._SEMVER_TOK_RE, 3, '_SEMVER_TOK_RE')
    s = z3.String('w')
    ident = z3.Plus(IDCH)
    return [same_language('_SEMVER_TOK_RE/numeric', a[0], z3.Plus(DIG), 'a numeric identifier is a run of digits'),
            Obligation('_SEMVER_TOK_RE/alnum-sound', 'regex', [z3.InRe(s, a[1])], z3.And(z3.InRe(s, ident), z3.Not(z3.InRe(s, z3.Plus(DIG)))), 0, '',
                       'what is tokenised as an alphanumeric identifier is a SemVer identifier and is not all digits'),
            Obligation('_SEMVER_TOK_RE/identifier-one-token', 'regex', [z3.InRe(s, ident)], z3.Or(z3.InRe(s, a[0]), z3.InRe(s, a[1])), 0, '',
                       'every SemVer identifier [0-9A-Za-z-]+ is ONE token (numeric or alphanumeric), never split'),
            same_language('_SEMVER_TOK_RE/build', a[2], z3.Concat(z3.Re('+'), z3.Star(z3.Intersect(z3.AllChar(z3.ReSort(z3.StringSort())), z3.Complement(z3.Re('\n'))))),
                          'build metadata is everything from the first + to the end of the line')]


REG.custom('C20', 'SemVer.token_pattern', semver_tokens, note='SMT comparison of the live tokeniser pattern with the SemVer 2.0 identifier grammar')


# ---- C14: the three alternatives of the meson-format scanner and the variable-name language of all three formats
def conf_patterns(engine):
    mod = src.import_module('mesonbuild/utils/universal.py')
    bs = z3.Re('\\')
    out = []
    pm = mod.get_variable_regex('meson')
    a = alts_of(pm, 3, "get_variable_regex('meson')")
    engine.assumptions.add('look-behind / look-ahead of the scanner pattern are dropped for the language comparison (what is matched, not where)')
    name = z3.Plus(VARCH)
    out.append(same_language('meson/backslash-run', a[0], z3.Plus(z3.Concat(bs, bs)), 'first alternative: a run of backslash PAIRS'))
    out.append(same_language('meson/variable', a[1], z3.Concat(z3.Re('@'), name, z3.Re('@')), 'second alternative: @NAME@ with NAME over [-a-zA-Z0-9_]+'))
    out.append(same_language('meson/escaped', a[2], z3.Concat(bs, z3.Re('@'), name, bs, z3.Re('@')), 'third alternative: \\@NAME\\@'))
    for fmt, spec in (('meson', name), ('cmake@', name), ('cmake', z3.Star(VARCH))):
        p = mod.get_variable_regex(fmt)
        g = p.groupindex.get('variable')
        if g is None:
            raise Unsupported(f'{fmt}: no group named variable')
        out.append(same_language(f'{fmt}/group-variable', need(rx.group_language(p, g), f'{fmt} variable group'), spec, f'{fmt}: the captured variable name ranges over the documented characters'))
    pc = rx.alternatives(mod.get_variable_regex('cmake'))
    if len(pc) == 1 and pc[0][0] is not None:
        out.append(same_language('cmake/whole', pc[0][0], z3.Concat(z3.Re('${'), z3.Star(VARCH), z3.Re('}')), 'cmake format: ${NAME}'))
    return out


REG.custom('C14', 'get_variable_regex.patterns', conf_patterns, note='SMT comparison of the live scanner patterns with the documented placeholder grammar')


# ---- C01 / C02: what counts as an escape sequence inside '...' (reference manual, "Strings": \\ \' \a \b \f \n \r \t \v, \ooo,
# \xhh, \uxxxx, \Uxxxxxxxx, \N{name}) — ONE pattern, applied in ONE pass (the contract of StringNode.escape), so that the text an escape
# produces is never read as the beginning of another escape
def escape_pattern(engine):
    mod = src.import_module('mesonbuild/mparser.py')
    notes = set()
    real = need(rx.whole_language(mod.ESCAPE_SEQUENCE_SINGLE_RE, notes), 'ESCAPE_SEQUENCE_SINGLE_RE')
    HEX = z3.Union(DIG, z3.Range('a', 'f'), z3.Range('A', 'F'))
    OCT = z3.Range('0', '7')
    NOTBRACE = z3.Intersect(z3.AllChar(z3.ReSort(z3.StringSort())), z3.Complement(z3.Re('}')))
    bs = z3.Re('\\')
    spec = z3.Union(z3.Concat(bs, z3.Re('U'), *([HEX] * 8)), z3.Concat(bs, z3.Re('u'), *([HEX] * 4)), z3.Concat(bs, z3.Re('x'), HEX, HEX),
                    z3.Concat(bs, OCT), z3.Concat(bs, OCT, OCT), z3.Concat(bs, OCT, OCT, OCT),
                    z3.Concat(bs, z3.Re('N{'), z3.Plus(NOTBRACE), z3.Re('}')),
                    z3.Concat(bs, R('\\', "'", 'a', 'b', 'f', 'n', 'r', 't', 'v')))
    for n_ in notes:
        engine.assumptions.add(n_)
    return [same_language('ESCAPE_SEQUENCE_SINGLE_RE', real, spec, "the escape sequences of a '...' literal are exactly the documented ones — the single-character escapes (the escaped backslash among them) in the SAME pattern as the numeric and named ones")]


for _p in ('C01', 'C02'):
    REG.custom(_p, 'StringNode.escape_pattern' + ('' if _p == 'C02' else '[C01]'), escape_pattern, note="SMT comparison of the live escape pattern with the documented escape sequences of '...' literals")
