"""C07 / C08 — OptionStore.set_option as a whole (mesonbuild/options.py): registered under both properties, since the
storing step carries C08 (what is persisted, the exact `changed` flag) and the validation / buildtype expansion carry
C07 (a stored value is a validated value; buildtype sets debug/optimization)."""
from pyvc.api import Int, Bool, Str, Seq, Struct, Loop, Opt, List, Set, Obj, Const, Dict
from contracts import REG

O = 'mesonbuild/options.py'


def register(PROP, SUF):
    # ---- OptionStore.set_option as a whole (keys other than prefix / buildtype; not deprecated): what is stored is the
    # VALIDATED value, where it is stored, and the returned "changed" flag is exact — `meson configure` saves iff it is true.
    SOS = Struct('OptionStore', 'mesonbuild.options:OptionStore', options=Dict(Obj, Obj), augments=Dict(Obj, Obj))
    T_ = lambda n: f"[e for e in __trace__ if e[0] == '{n}']"
    OPT_, VAL_ = f"{T_('resolve_option')}[0][-1]", f"{T_('validate_value')}[0][-1]"
    REG.contract(PROP, O, 'OptionStore.set_option', variant='whole' + SUF,
                 params={'self': SOS, 'key': Obj, 'new_value': Obj, 'first_invocation': Bool},
                 requires=['attr_name(key) != "prefix"', 'attr_name(key) != "buildtype"',
                           'forall(Obj, lambda o: not attr_deprecated(o))',
                           'implies(key not in self.options, attr_subproject(key) is not None)'],
                 ensures=[
                     f"len({T_('resolve_option')}) == 1 and len({T_('validate_value')}) == 1",
                     # the option itself: the validated value goes through set_value, once; the option stops yielding; no override is touched
                     f"implies(key in self.options, len({T_('set_value')}) == 1 and {T_('set_value')}[0][1] is {OPT_} and {T_('set_value')}[0][2] is {VAL_})",
                     f"implies(key in self.options, result == (attr_value({OPT_}) is not {VAL_} or attr_yielding({OPT_})))",
                     # an option that is given a value explicitly stops yielding to its parent — ALWAYS, also when the value equals the
                     # one it already holds (else the parent's value keeps winning although the user named this option)
                     f"implies(key in self.options, len({T_('setattr')}) == 1 and {T_('setattr')}[0][1] is {OPT_} and {T_('setattr')}[0][2] == 'yielding' and {T_('setattr')}[0][3] is False)" if False else
                     f"(len({T_('setattr')}) == 1 and {T_('setattr')}[0][1] is {OPT_} and {T_('setattr')}[0][2] == 'yielding' and {T_('setattr')}[0][3] == False) if len({T_('setattr')}) > 0 else key not in self.options",
                     "implies(key in self.options, forall(Obj, lambda k: ((k in new(self).augments) == (k in self.augments)) and implies(k in self.augments, new(self).augments[k] is self.augments[k])))",
                     # an override: exactly the validated value is stored under exactly this key; reported as a change iff it is new or differs
                     f"implies(key not in self.options, len({T_('set_value')}) == 0 and key in new(self).augments and new(self).augments[key] is {VAL_})",
                     f"implies(key not in self.options, result == (key not in self.augments or self.augments[key] is not {VAL_}))",
                     "implies(key not in self.options, forall(Obj, lambda k: implies(k is not key, ((k in new(self).augments) == (k in self.augments)) and implies(k in self.augments, new(self).augments[k] is self.augments[k]))))",
                     # no dependent options are touched for a key that is neither prefix nor buildtype
                     f"len({T_('set_option')}) == 0 and len({T_('reset_prefixed_options')}) == 0",
                 ],
                 raises={'MesonException': 'True', 'AssertionError': 'True'}, exact_raises=False,
                 method_effects={'is_builtin_option': {'returns': Bool, 'raises': []}, 'get_value_for': {'returns': Obj, 'raises': []},
                                 'sanitize_dir_option_value': {'returns': Obj, 'raises': ['MesonException']}, 'sanitize_prefix': {'returns': Obj, 'raises': ['MesonException']},
                                 'resolve_option': {'returns': Obj, 'raises': ['KeyError']}, 'validate_value': {'returns': Obj, 'raises': ['MesonException']},
                                 'set_value': [], 'reset_prefixed_options': [], 'set_option': {'returns': Bool, 'raises': ['MesonException']}},
                 opaque={'evolve': ([Opt(Str)], Obj, ['subproject'])},
                 opaque_attrs={'name': Str, 'subproject': Opt(Str), 'deprecated': Bool, 'readonly': Bool, 'value': Obj, 'yielding': Bool},
                 modifies=['self.augments'], floor=12,
                 note='the value stored is the one validate_value returned; an override touches no other key; the returned flag is true exactly when the stored state differs from before — the value, or whether the option yields to its parent (values compared as abstract values)')
    SO = T_('set_option')
    SOS2 = Struct('OptionStore', 'mesonbuild.options:OptionStore', options=Dict(Obj, Obj), augments=Dict(Obj, Str))
    REG.contract(PROP, O, 'OptionStore.set_option', variant='buildtype' + SUF,
                 params={'self': SOS2, 'key': Obj, 'new_value': Obj, 'first_invocation': Bool},
                 requires=['attr_name(key) == "buildtype"', 'forall(Obj, lambda o: not attr_deprecated(o))',
                           'implies(key not in self.options, attr_subproject(key) is not None)'],
                 ensures=[
                     # buildtype sets debug and optimization (same subproject and machine as the key) — exactly when the buildtype changed
                     # and is not 'custom' — to the documented pair, passing first_invocation on
                     f"(len({SO}) == 2) == (result and {VAL_} != 'custom')", f"len({SO}) == 2 or len({SO}) == 0",
                     f"({SO}[0][1] is obj_evolve(key, 'debug') and {SO}[1][1] is obj_evolve(key, 'optimization') and {SO}[0][3] == first_invocation and {SO}[1][3] == first_invocation) if len({SO}) == 2 else True",
                     f"all(implies({VAL_} == bt, {SO}[0][2] == dv[1] and {SO}[1][2] == dv[0]) for bt, dv in self.DEFAULT_DEPENDENTS.items()) if len({SO}) == 2 else True",
                     f"implies(key in self.options, result == (attr_value({OPT_}) != {VAL_} or attr_yielding({OPT_})))",
                 ],
                 raises={'MesonException': 'True', 'AssertionError': 'True', 'KeyError': f'True'}, exact_raises=False,
                 method_effects={'is_builtin_option': {'returns': Bool, 'raises': []}, 'get_value_for': {'returns': Obj, 'raises': []},
                                 'sanitize_dir_option_value': {'returns': Obj, 'raises': ['MesonException']}, 'sanitize_prefix': {'returns': Obj, 'raises': ['MesonException']},
                                 'resolve_option': {'returns': Obj, 'raises': ['KeyError']}, 'validate_value': {'returns': Str, 'raises': ['MesonException']},
                                 'set_value': [], 'reset_prefixed_options': [], 'set_option': {'returns': Bool, 'raises': ['MesonException']}},
                 opaque={'evolve': ([Opt(Str), Opt(Str)], Obj, ['name', 'subproject'])},
                 opaque_attrs={'name': Str, 'subproject': Opt(Str), 'deprecated': Bool, 'readonly': Bool, 'value': Str, 'yielding': Bool},
                 modifies=['self.augments'], floor=8,
                 note='buildtype expansion: debug/optimization of the same subproject are set from DEFAULT_DEPENDENTS iff the buildtype value changed and is not custom (a validated value outside the table is a KeyError, listed)')


register('C08', '')
register('C07', '@C07')
