"""C20 — contracts on mesonbuild/cargo/version.py and mesonbuild/cargo/cfg.py"""
from pyvc.api import Int, Bool, Str, Seq, Struct, Loop, Opt, TupleS, List, Const
from contracts import REG
from specs.version import IS, SeqIS, CMP6
from specs.cargo import Bound, SeqBound

V = 'mesonbuild/cargo/version.py'
SemVerS = Struct('SemVer', 'mesonbuild.cargo.version:SemVer', _v=List(IS), specified_count=Int)

REG.contract('C20', V, 'SemVer.__cmp',
             params={'self': SemVerS, 'other': List(IS), 'comparator': CMP6},
             requires=['comparator is not operator.eq', 'comparator is not operator.ne'],
             ensures=['result == apply_op(comparator, scmp(self._v, other, 0))'],
             loops={0: Loop(invariant=['scmp(self._v, other, 0) == scmp(self._v, other, __i)'])},
             result=Bool, floor=8)
for name, op in (('__lt__', 'lt'), ('__gt__', 'gt'), ('__le__', 'le'), ('__ge__', 'ge')):
    REG.contract('C20', V, f'SemVer.{name}', params={'self': SemVerS, 'other': SemVerS},
                 ensures=[f'result == apply_op(operator.{op}, scmp(self._v, other._v, 0))'], result=Bool, floor=2)
    REG.contract('C20', V, f'SemVer.{name}', variant='foreign', params={'self': SemVerS, 'other': Int},
                 ensures=['result is NotImplemented'], floor=1)
REG.contract('C20', V, 'SemVer.__eq__', params={'self': SemVerS, 'other': SemVerS},
             ensures=['result == seq_eq_from(self._v, other._v, 0)', 'result == (scmp(self._v, other._v, 0) == 0)'],
             uses=[('L20.scmp_zero_iff_eq', {'a': 'self._v', 'b': 'other._v', 'k': '0'})], result=Bool, floor=2)
REG.contract('C20', V, 'SemVer.__ne__', params={'self': SemVerS, 'other': SemVerS},
             ensures=['result == (not seq_eq_from(self._v, other._v, 0))', 'result == (scmp(self._v, other._v, 0) != 0)'],
             uses=[('L20.scmp_zero_iff_eq', {'a': 'self._v', 'b': 'other._v', 'k': '0'})], result=Bool, floor=2)
REG.contract('C20', V, 'SemVer.has_prerelease', params={'self': SemVerS}, requires=['len(self._v) >= 4'],
             ensures=['result == (self._v[3] == -1)'], result=Bool, floor=1,
             dropped=['decorator property: callers read the attribute, the engine calls fget'])

# __init__, list form: padded copy
REG.contract('C20', V, 'SemVer.__init__', params={'self': SemVerS, 'in_': List(IS)},
             ensures=['new(self)._v == padded(in_, max(4, len(in_)))', 'new(self).specified_count == min(3, len(in_))'],
             loops={2: Loop(invariant=['vec == padded(in_, len(vec))', 'len(vec) >= len(in_)', 'len(vec) <= max(4, len(in_))'],
                            decreases='4 - len(vec)')},
             modifies=['self'], floor=6)
# __init__, string form: the tokenisation is an assumed contract (checked bounded against a SemVer grammar)
REG.contract('C20', V, 'SemVer.__init__', variant='str', trusted=True, params={'self': SemVerS, 'in_': Str},
             ensures=['new(self)._v == sv_vec(in_)', 'new(self).specified_count == sv_count(in_)', 'wf(sv_vec(in_))',
                      '1 <= sv_count(in_) or len(in_) >= 0', '0 <= sv_count(in_)', 'sv_count(in_) <= 3'],
             modifies=['self'], note='regex tokenisation of a SemVer string; checked bounded against bounded.cargo.spec_semver')

REG.contract('C20', V, 'SemVer.next_ver', params={'self': SemVerS, 'bump_idx': Int},
             requires=['wf(self._v)', '0 <= bump_idx', 'bump_idx <= 2'],
             ensures=['result._v == bumped(self._v, bump_idx)', 'result.specified_count == 3', 'wf(result._v)'],
             cases={'bump_idx': [0, 1, 2]}, result=SemVerS, floor=9)

from specs.cargo import OpVer, SeqOpVer
REG.contract('C20', V, 'split', params={'cargo_ver': Str},
             ensures=['result == split_spec(cargo_ver)',
                      'forall(Int, lambda j: implies(0 <= j and j < len(result), op_ok(result[j][0])))'],
             loops={0: Loop(invariant=["__yield__ == split_all(split_on(strip(old_cargo_ver), ','), __i)", "strip(old_cargo_ver) != ''",

                                       "cargo_ver == strip(old_cargo_ver)"])},
             yields=OpVer, result=List(OpVer), reveal=['split_spec'], floor=8,
             uses=[('L20.split_all_ops', {'parts': "split_on(strip(cargo_ver), ',')", 'n': "len(split_on(strip(cargo_ver), ','))", 'j': '*'}, 'post#1')])

for k in (0, 1):
    REG.contract('C20', V, 'cargo_parse', variant=f'k{k}',
                 params={'cargo_ver': Str}, ghosts={'x': Str},
                 assumes=[f'len(split_spec(cargo_ver)) == {k}'],
                 requires=[f'wf_items(split_spec(cargo_ver), {k})'],
                 ensures=[f'result2 == accepts(split_spec(cargo_ver), {k}, x)'],
                 then_call=['x'], floor=1, shards=(12 if k == 1 else 1),
                 dropped=['decorator lru_cache: the function is pure, caching is transparent (assumed)'],
                 note=f'requirement with exactly {k} comparators after canonicalisation (loop count fixed, all values symbolic)')

# ---- cfg(): evaluator.  Structural induction over the finite IR tree: the generic contract is the induction
# hypothesis used at recursive calls; each node class is a verified variant whose postcondition is the defining
# equation of the denotation `sem` for that class.
from pyvc.api import Obj, Dict
C = 'mesonbuild/cargo/cfg.py'
CFGS = Dict(Str, Str)
IdentS = Struct('Identifier', 'mesonbuild.cargo.cfg:Identifier', value=Str)
StringS = Struct('String', 'mesonbuild.cargo.cfg:String', value=Str)
REG.contract('C20', C, '_eval_cfg', variant='Identifier', params={'ir': IdentS, 'cfgs': CFGS},
             ensures=['result == (ir.value in cfgs)'], floor=1)
REG.contract('C20', C, '_eval_cfg', variant='Equal',
             params={'ir': Struct('Equal', 'mesonbuild.cargo.cfg:Equal', lhs=IdentS, rhs=StringS), 'cfgs': CFGS},
             ensures=['result == (ir.lhs.value in cfgs and cfgs[ir.lhs.value] == ir.rhs.value)'], floor=1)
REG.contract('C20', C, '_eval_cfg', variant='Not',
             params={'ir': Struct('Not', 'mesonbuild.cargo.cfg:Not', value=Obj), 'cfgs': CFGS},
             ensures=['result == (not sem(ir.value, cfgs))'], floor=1)
REG.contract('C20', C, '_eval_cfg', variant='Any',
             params={'ir': Struct('Any', 'mesonbuild.cargo.cfg:Any', args=List(Obj)), 'cfgs': CFGS},
             ensures=['result == exists(Int, lambda j: 0 <= j and j < len(ir.args) and sem(ir.args[j], cfgs))'], floor=1)
REG.contract('C20', C, '_eval_cfg', variant='All',
             params={'ir': Struct('All', 'mesonbuild.cargo.cfg:All', args=List(Obj)), 'cfgs': CFGS},
             ensures=['result == forall(Int, lambda j: implies(0 <= j and j < len(ir.args), sem(ir.args[j], cfgs)))'], floor=1)
REG.contract('C20', C, '_eval_cfg', variant='other',
             params={'ir': Struct('IR', 'mesonbuild.cargo.cfg:IR'), 'cfgs': CFGS},
             raises={'MesonBugException': 'True'}, floor=1, note='a node of no known class is an internal error, never a value')
REG.contract('C20', C, '_eval_cfg', trusted=True, params={'ir': Obj, 'cfgs': CFGS},
             ensures=['result == sem(ir, cfgs)'], pure_expr='sem(ir, cfgs)', result=Bool,
             note='induction hypothesis of the structural induction over the IR tree (children are strictly smaller; IR trees built by the parser are finite)')

# ---- eval_cfg: the wrapper evaluates THIS expression against THIS configuration (a function of its two arguments)
REG.contract('C20', 'mesonbuild/cargo/cfg.py', 'eval_cfg', params={'raw': Str, 'cfgs': Obj},
             ensures=["result == (fn__eval_cfg(fn_parse(fn_lexer(raw[4:-1])), cfgs) if raw.startswith('cfg(') else False)"],
             # a text that opens a cfg( expression and does not close it is malformed: rejected, never read as "some other kind of
             # target name" and evaluated to false (the statement: malformed expressions are rejected rather than mis-evaluated)
             raises={'MesonException': "raw.startswith('cfg(') and not raw.endswith(')')"},
             opaque_fns={'lexer': ([Str], Obj), 'parse': ([Obj], Obj), '_eval_cfg': ([Obj, Obj], Bool)}, result=Bool, floor=1,
             note='lexer / parse / _eval_cfg are uninterpreted here (their own contracts and the bounded reference cover them): the wrapper adds nothing and remembers nothing; a text that is no cfg( expression at all (a target triple) is false, an unclosed cfg( is an error')
