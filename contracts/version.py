"""C19 — contracts on mesonbuild/utils/universal.py (Version, version_compare, Range)."""
from pyvc.api import Int, Bool, Str, Seq, Struct, Loop, Opt, TupleS, List, Abstract
from contracts import REG
from specs.version import IS, SeqIS, CMP6

U = 'mesonbuild/utils/universal.py'
VersionS = Struct('Version', 'mesonbuild.utils.universal:Version', _v=SeqIS)

REG.contract('C19', U, 'Version.__cmp',
             params={'self': VersionS, 'other': VersionS, 'comparator': CMP6},
             requires=['comparator is not operator.eq', 'comparator is not operator.ne'],
             ensures=['result == apply_op(comparator, vcmp(self._v, other._v, 0))'],
             loops={0: Loop(invariant=['vcmp(self._v, other._v, 0) == vcmp(self._v, other._v, __i)'])},
             result=Bool, floor=8)
