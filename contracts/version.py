"""C19 — contracts on mesonbuild/utils/universal.py (Version, version_compare, Range)."""
from pyvc.api import Int, Bool, Str, Seq, Struct, Loop, Opt, TupleS, List, Abstract
from contracts import REG
from specs.version import IS, SeqIS, CMP6

U = 'mesonbuild/utils/universal.py'
VersionS = Struct('Version', 'mesonbuild.utils.universal:Version', _s=Str, _v=SeqIS)

REG.contract('C19', U, 'Version.__cmp',
             params={'self': VersionS, 'other': VersionS, 'comparator': CMP6},
             requires=['comparator is not operator.eq', 'comparator is not operator.ne'],
             ensures=['result == apply_op(comparator, vcmp(self._v, other._v, 0))'],
             loops={0: Loop(invariant=['vcmp(self._v, other._v, 0) == vcmp(self._v, other._v, __i)'])},
             result=Bool, floor=8)

for name, op in (('__lt__', 'lt'), ('__gt__', 'gt'), ('__le__', 'le'), ('__ge__', 'ge')):
    REG.contract('C19', U, f'Version.{name}',
                 params={'self': VersionS, 'other': VersionS},
                 ensures=[f'result == apply_op(operator.{op}, vcmp(self._v, other._v, 0))'],
                 result=Bool, floor=2)
    REG.contract('C19', U, f'Version.{name}', variant='foreign',
                 params={'self': VersionS, 'other': Int},
                 ensures=['result is NotImplemented'], floor=1,
                 note='an operand that is not a Version (an int stands for any foreign object)')

# == / != : tuple equality of the component tuples; restated through the order by lemma L19.eq
REG.contract('C19', U, 'Version.__eq__',
             params={'self': VersionS, 'other': VersionS},
             ensures=['result == seq_eq_from(self._v, other._v, 0)',
                      'result == (vcmp(self._v, other._v, 0) == 0)'],
             uses=[('L19.vcmp_zero_iff_eq', {'a': 'self._v', 'b': 'other._v', 'k': '0'})],
             result=Bool, floor=2)
REG.contract('C19', U, 'Version.__ne__',
             params={'self': VersionS, 'other': VersionS},
             ensures=['result == (not seq_eq_from(self._v, other._v, 0))',
                      'result == (vcmp(self._v, other._v, 0) != 0)'],
             uses=[('L19.vcmp_zero_iff_eq', {'a': 'self._v', 'b': 'other._v', 'k': '0'})],
             result=Bool, floor=2)
REG.contract('C19', U, 'Version.__hash__',
             params={'self': VersionS},
             ensures=['result == hash(self._v)'], result=Int, floor=1,
             note='hash is a function of the component tuple alone; a == b => hash(a) == hash(b) for tuples is a CPython guarantee')

REG.contract('C19', U, 'Version.__init__', trusted=True,
             params={'self': VersionS, 's': Str},
             ensures=['new(self)._v == toks(s)', 'new(self)._s == s'],
             modifies=['self'],
             note='regex finditer tokenisation; checked bounded against specs.version.spec_toks')

REG.contract('C19', U, '_version_extract_cmpop',
             params={'vstr2': Str},
             ensures=['result[0] is op_of(vstr2)', 'result[1] == rest_of(vstr2)'],
             result=TupleS(CMP6, Str), floor=16, reveal=['op_of', 'rest_of'])

REG.contract('C19', U, 'version_compare',
             params={'vstr1': Str, 'vstr2': Str},
             ensures=['result == holds(vstr1, vstr2)'],
             result=Bool, floor=6)

from specs.version import SeqStr, Elem
REG.contract('C19', U, 'version_compare_many',
             params={'vstr1': Str, 'conditions': SeqStr},
             ensures=['result[0] == (len(sel(vstr1, conditions, len(conditions), False)) == 0)',
                      'result[0] == all_hold(vstr1, conditions, len(conditions))',
                      'result[1] == sel(vstr1, conditions, len(conditions), False)',
                      'result[2] == sel(vstr1, conditions, len(conditions), True)'],
             loops={0: Loop(invariant=['not_found == sel(vstr1, conditions, __i, False)',
                                       'found == sel(vstr1, conditions, __i, True)',
                                       '(len(not_found) == 0) == all_hold(vstr1, conditions, __i)'],
                            locals={'found': List(Str), 'not_found': List(Str)})},
             floor=6)
REG.contract('C19', U, 'version_compare_many', variant='single',
             params={'vstr1': Str, 'conditions': Str},
             ensures=['result[0] == holds(vstr1, conditions)',
                      'len(result[1]) + len(result[2]) == 1'],
             floor=2, note='a single constraint given as a string')

# ---- Range: proved generically for an abstract element sort with a total preorder ---------------
RangeS = Struct('Range', 'mesonbuild.utils.universal:Range', min=Opt(Elem), min_eq=Bool, max=Opt(Elem), max_eq=Bool, is_empty=Bool)
WF = 'not (self.is_empty and (self.min is not None or self.max is not None))'

REG.contract('C19', U, 'Range.__contains__',
             params={'self': RangeS, 'x': Elem},
             ensures=['result == mem(self, x)'], result=Bool, floor=4)
REG.contract('C19', U, 'Range.__post_init__',
             params={'self': RangeS}, requires=['not self.is_empty'],
             ensures=['forall(Elem, lambda e: mem(new(self), e) == mem(self, e))',
                      'not (new(self).is_empty and (new(self).min is not None or new(self).max is not None))'],
             modifies=['self.min', 'self.max', 'self.is_empty'], floor=4)
REG.contract('C19', U, 'Range._intersect_min',
             params={'self': RangeS, 'v': Elem, 'eq': Bool}, requires=['not self.is_empty'],
             ensures=['forall(Elem, lambda e: mem(new(self), e) == (mem(self, e) and (e >= v if eq else e > v)))'],
             modifies=['self.min', 'self.min_eq'], floor=3)
REG.contract('C19', U, 'Range._intersect_max',
             params={'self': RangeS, 'v': Elem, 'eq': Bool}, requires=['not self.is_empty'],
             ensures=['forall(Elem, lambda e: mem(new(self), e) == (mem(self, e) and (e <= v if eq else e < v)))'],
             modifies=['self.max', 'self.max_eq'], floor=3)
REG.contract('C19', U, 'Range.intersect',
             params={'self': RangeS, 'x': RangeS},
             ensures=['forall(Elem, lambda e: mem(result, e) == (mem(self, e) and mem(x, e)))'],
             result=RangeS, floor=4)
REG.contract('C19', U, 'Range.always',
             params={'self': RangeS, 'inner': RangeS},
             ensures=['implies(result is True, forall(Elem, lambda e: implies(mem(self, e), mem(inner, e))))',
                      'implies(result is False, forall(Elem, lambda e: implies(mem(self, e), not mem(inner, e))))'],
             floor=3)

ABS_VERSION = {'mesonbuild.utils.universal:Version': (Elem, 'ver_of')}
REG.contract('C19', U, 'version_check_to_range',
             params={'checks': SeqStr, 'start': RangeS},
             requires=['not (start.is_empty and (start.min is not None or start.max is not None))'],
             ensures=['forall(Elem, lambda e: implies(mem(start, e) and sat_all(checks, len(checks), e), mem(result, e)))',
                      'forall(Elem, lambda e: implies(mem(result, e), mem(start, e) and sat_nonne(checks, len(checks), e)))'],
             loops={0: Loop(invariant=[
                 'forall(Elem, lambda e: implies(mem(old_start, e) and sat_all(checks, __i, e), mem(start, e)))',
                 'forall(Elem, lambda e: implies(mem(start, e), mem(old_start, e) and sat_nonne(checks, __i, e)))'])},
             abstract_classes=ABS_VERSION, result=RangeS, floor=10,
             note='Version abstracted as an element of a total preorder (lemmas L19.*); start is not modified (Range is used immutably)')
REG.contract('C19', U, 'version_compare_condition_with_min',
             params={'condition': RangeS, 'minimum': Str},
             ensures=['implies(result, forall(Elem, lambda e: implies(mem(condition, e), e >= ver(minimum))))',
                      # vacuous truth: no version lies in an empty range, so all of them are new enough (code that can never run
                      # must not draw a FeatureNew warning)
                      'implies(condition.is_empty, result)',
                      # a range without lower bound that is not empty contains arbitrarily old versions
                      'implies(not condition.is_empty and condition.min is None, not result)'],
             requires=['implies(condition.is_empty, condition.min is None and condition.max is None)'],
             abstract_classes=ABS_VERSION, floor=4,
             note='True only if every version satisfying the condition is at least the minimum')

# ---- the version_compare() method of the language: for strings and for meson.version() alike the answer is the answer of
# version_compare_many on the receiver and the constraint list AS GIVEN (every constraint, `!=` included) — what else the
# meson.version() flavour does (narrowing the assumed meson version inside an `if`) never changes the answer
from pyvc.api import TupleS as _TS, Loop as _Loop, Opt as _Opt, Obj
SP = 'mesonbuild/interpreter/primitives/string.py'
_VCM = "[e for e in __trace__ if e[0] == 'version_compare_many']"
_VDROP = ['decorators noKwargs / typed_pos_args / InterpreterObject.method: the argument shapes are checked before the call (precondition: the shape of args)']
REG.contract('C19', SP, 'StringHolder.version_compare_method',
             params={'self': Struct('StringHolder', 'mesonbuild.interpreter.primitives.string:StringHolder', held_object=Str, subproject=Str, current_node=Obj),
                     'args': _TS(List(Str)), 'kwargs': Obj},
             requires=['len(args[0]) >= 1'],
             ensures=[f"len({_VCM}) == 1 and {_VCM}[0][1] == self.held_object and {_VCM}[0][2] == args[0]", f"result == {_VCM}[0][-1][0]"],
             effects={'version_compare_many': {'returns': _TS(Bool, List(Str), List(Str)), 'raises': []}}, dropped=_VDROP, floor=2,
             note="'v'.version_compare(c1, c2, ...): the answer of version_compare_many(v, [c1, c2, ...]) — every constraint as given, in one call")
REG.contract('C19', SP, 'MesonVersionStringHolder.version_compare_method',
             params={'self': Struct('MesonVersionStringHolder', 'mesonbuild.interpreter.primitives.string:MesonVersionStringHolder', held_object=Str, subproject=Str, current_node=Obj, interpreter=Obj),
                     'args': _TS(List(Str)), 'kwargs': Obj},
             requires=['len(args[0]) >= 1'],
             ensures=[f"len({_VCM}) == 1 and {_VCM}[0][1] == self.held_object and {_VCM}[0][2] == args[0]", f"result == {_VCM}[0][-1][0]"],
             loops={0: _Loop(invariant=['True'], locals={'unsupported': Bool, 'constraint': Str})},
             effects={'version_compare_many': {'returns': _TS(Bool, List(Str), List(Str)), 'raises': []}, 'version_check_to_range': {'returns': Obj, 'raises': []}},
             opaque_attrs={'tmp_meson_version': Obj}, dropped=_VDROP, floor=2,
             note="meson.version().version_compare(c1, ...): the same answer as for any other string — version_compare_many on ALL the constraints given (`!=` ones included); narrowing the assumed meson version is a side effect on the interpreter only")
