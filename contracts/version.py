"""C19 — contracts on mesonbuild/utils/universal.py (Version, version_compare, Range)."""
from pyvc.api import Int, Bool, Str, Seq, Struct, Loop, Opt, TupleS, List, Abstract
from contracts import REG
from specs.version import IS, SeqIS, CMP6

U = 'mesonbuild/utils/universal.py'
VersionS = Struct('Version', 'mesonbuild.utils.universal:Version', _s=Str, _v=SeqIS)

REG.contract('C19', U, 'Version.__cmp',
             params={'self': VersionS, 'other': VersionS, 'comparator': CMP6},
             requires=['comparator is not operator.eq', 'comparator is not operator.ne'],
             ensures=['result == apply_op(comparator, vcmp(self._v, other._v, 0))'],
             loops={0: Loop(invariant=['vcmp(self._v, other._v, 0) == vcmp(self._v, other._v, __i)'])},
             result=Bool, floor=8)

for name, op in (('__lt__', 'lt'), ('__gt__', 'gt'), ('__le__', 'le'), ('__ge__', 'ge')):
    REG.contract('C19', U, f'Version.{name}',
                 params={'self': VersionS, 'other': VersionS},
                 ensures=[f'result == apply_op(operator.{op}, vcmp(self._v, other._v, 0))'],
                 result=Bool, floor=2)
    REG.contract('C19', U, f'Version.{name}', variant='foreign',
                 params={'self': VersionS, 'other': Int},
                 ensures=['result is NotImplemented'], floor=1,
                 note='an operand that is not a Version (an int stands for any foreign object)')

# == / != : tuple equality of the component tuples; restated through the order by lemma L19.eq
REG.contract('C19', U, 'Version.__eq__',
             params={'self': VersionS, 'other': VersionS},
             ensures=['result == seq_eq_from(self._v, other._v, 0)',
                      'result == (vcmp(self._v, other._v, 0) == 0)'],
             uses=[('L19.vcmp_zero_iff_eq', {'a': 'self._v', 'b': 'other._v', 'k': '0'})],
             result=Bool, floor=2)
REG.contract('C19', U, 'Version.__ne__',
             params={'self': VersionS, 'other': VersionS},
             ensures=['result == (not seq_eq_from(self._v, other._v, 0))',
                      'result == (vcmp(self._v, other._v, 0) != 0)'],
             uses=[('L19.vcmp_zero_iff_eq', {'a': 'self._v', 'b': 'other._v', 'k': '0'})],
             result=Bool, floor=2)
REG.contract('C19', U, 'Version.__hash__',
             params={'self': VersionS},
             ensures=['result == hash(self._v)'], result=Int, floor=1,
             note='hash is a function of the component tuple alone; a == b => hash(a) == hash(b) for tuples is a CPython guarantee')

REG.contract('C19', U, 'Version.__init__', trusted=True,
             params={'self': VersionS, 's': Str},
             ensures=['new(self)._v == toks(s)', 'new(self)._s == s'],
             modifies=['self'],
             note='regex finditer tokenisation; checked bounded against specs.version.spec_toks')

REG.contract('C19', U, '_version_extract_cmpop',
             params={'vstr2': Str},
             ensures=['result[0] is op_of(vstr2)', 'result[1] == rest_of(vstr2)'],
             result=TupleS(CMP6, Str), floor=16, reveal=['op_of', 'rest_of'])

REG.contract('C19', U, 'version_compare',
             params={'vstr1': Str, 'vstr2': Str},
             ensures=['result == holds(vstr1, vstr2)'],
             result=Bool, floor=6)
