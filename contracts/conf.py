"""C14 — contracts on the configure_file substitution code of mesonbuild/utils/universal.py"""
from pyvc.api import Int, Bool, Str, Seq, Struct, Loop, Opt, List, Set, Obj, Const, Dict, MatchS, TupleS
from contracts import REG
from specs.conf import CV, Entry

U = 'mesonbuild/utils/universal.py'
MESON_RE = "get_variable_regex('meson')"
VAR = "match.group('variable')"
ESC = "match.group('escaped')"
BS = "match.group(0).endswith('\\\\')"
ISVAR = f"(not {BS}) and {ESC} is None"
REG.contract('C14', U, 'do_replacement_meson.<locals>.variable_replace',
             params={'match': MatchS(MESON_RE, 'search'), 'confdata': Dict(Str, Entry), 'missing_variables': Set(Str)},
             ensures=[
                 # a run of backslashes before @ / \@: half as many
                 f"implies({BS}, result == '\\\\' * (len(match.group(0)) // 2))",
                 # \@name\@  ->  @name@
                 f"implies((not {BS}) and {ESC} is not None, result == {ESC}[1:-2] + '@')",
                 # @name@ with a value: strings verbatim, integers and booleans through str()
                 f"implies({ISVAR} and {VAR} in confdata and isinstance(confdata[{VAR}][0], str), result == confdata[{VAR}][0])",
                 f"implies({ISVAR} and {VAR} in confdata and isinstance(confdata[{VAR}][0], int), result == str(confdata[{VAR}][0]))",
                 # an undefined name is reported and replaced by nothing
                 f"implies({ISVAR} and {VAR} not in confdata, result == '' and new(missing_variables) == setadd(missing_variables, {VAR}))",
                 f"implies(not ({ISVAR} and {VAR} not in confdata), new(missing_variables) == missing_variables)",
             ],
             raises={'MesonException': f"{ISVAR} and {VAR} in confdata and not isinstance(confdata[{VAR}][0], (str, int))"},
             modifies=['missing_variables'], result=Str, floor=10,
             note='callback of the single re.sub pass of the meson format; the match object is abstract (groups constrained by their sub-pattern languages)')

# ---- do_replacement_meson: exactly ONE re.sub pass over the line, its result returned unchanged: a substituted
# value is never scanned again (a second pass, a loop to a fixpoint, or post-processing fails these clauses)
REG.contract('C14', U, 'do_replacement_meson', params={'regex': Obj, 'line': Str, 'confdata': Dict(Str, Entry)},
             ensures=["len([e for e in __trace__ if e[0] == 're.sub']) == 1",
                      "[e for e in __trace__ if e[0] == 're.sub'][0][1] is regex",
                      "[e for e in __trace__ if e[0] == 're.sub'][0][2] == line",
                      "result[0] == [e for e in __trace__ if e[0] == 're.sub'][0][3]"],
             floor=4, note='the callback is the contract of do_replacement_meson.<locals>.variable_replace')

CDataS = Struct('ConfigurationData', 'mesonbuild.build:ConfigurationData', values=Dict(Str, Entry))
for m_ in ('get', '__contains__', 'keys'):
    REG.contract('C14', 'mesonbuild/build.py', f'ConfigurationData.{m_}', inline=True, trusted=True, note='one-line accessor, inlined')
REG.contract('C14', U, 'do_replacement_meson', variant='callee', trusted=True, params={'regex': Obj, 'line': Str, 'confdata': CDataS},
             ensures=[], result=TupleS(Str, Set(Str)), note='used only as a callee of do_define_meson: its result is unconstrained there')

LS = 'py_split_0(line)'
REG.contract('C14', U, 'do_define_meson', params={'regex': Obj, 'line': Str, 'confdata': CDataS, 'subproject': Const(None)},
             ensures=[
                 "implies(split0(line)[1] not in confdata.values, result == '/* #undef ' + split0(line)[1] + ' */\\n')",
                 "implies(split0(line)[1] in confdata.values and isinstance(confdata.values[split0(line)[1]][0], bool), result == ('#define ' if confdata.values[split0(line)[1]][0] else '#undef ') + split0(line)[1] + '\\n')",
                 "implies(split0(line)[1] in confdata.values and isinstance(confdata.values[split0(line)[1]][0], int) and not isinstance(confdata.values[split0(line)[1]][0], bool), result == '#define ' + split0(line)[1] + ' ' + str(confdata.values[split0(line)[1]][0]) + '\\n')",
                 "implies(split0(line)[1] in confdata.values and isinstance(confdata.values[split0(line)[1]][0], str), result == strip_('#define ' + split0(line)[1] + ' ' + str(confdata.values[split0(line)[1]][0])) + '\\n')",
             ],
             raises={'MesonException': "len(split0(line)) != 2 or (split0(line)[1] in confdata.values and not isinstance(confdata.values[split0(line)[1]][0], (str, int)))"},
             floor=8, note='clause 4 (string value copied with no further substitution) is what the statement says; the code scans the rendered line again — recorded known finding')

# ---- the line loop of the meson format: every line of the template is rendered on its own, in order; nothing is lost, added or
# reordered.  The two per-line renderers are uninterpreted here (their own contracts are above); meson_lines / cmake_lines
# (specs/conf.py) are the line-by-line meaning, defined by recursion on the number of lines.
from pyvc.api import List as _List, Rec as _Rec
from specs.conf import SubstR
RX = "fn_get_variable_regex('meson')"
REG.contract('C14', U, 'do_conf_str_meson', params={'src': Str, 'data': _List(Str), 'confdata': Obj, 'subproject': Const(None)},
             ensures=[f'result[0] == meson_lines({RX}, data, confdata, len(data))',
                      'len(result[0]) == len(data)'],
             raises={'MesonException': 'True'}, exact_raises=False,
             loops={0: Loop(invariant=[f'result == meson_lines({RX}, data, confdata, __i)', 'len(result) == __i'],
                            locals={'confdata_useless': Bool, 'line': Str, 'missing': Set(Str), 'result': _List(Str), 'missing_variables': Set(Str)})},
             opaque_fns={'get_variable_regex': ([Str], Obj), 'do_define_meson': ([Obj, Str, Obj], Str), 'do_replacement_meson': ([Obj, Str, Obj], SubstR)},
             opaque={'keys': ([], Obj)}, floor=4,
             note='line k of the output is the rendering of line k of the template and of nothing else: a #mesondefine line by do_define_meson, any other line by the placeholder scanner; a #cmakedefine in a meson-format template is an error')

# ---- the file layer: what is read, what is rendered, what is written
OPN = "[e for e in __trace__ if e[0] == 'open']"
WR = "[e for e in __trace__ if e[0] == 'file.writelines']"
CS = "[e for e in __trace__ if e[0] == 'do_conf_str']"
RID = "[e for e in __trace__ if e[0] == 'replace_if_different']"
ConfR = _Rec('ConfR', result=Seq(Str), missing=Set(Str), useless=Bool)
REG.contract('C14', U, 'do_conf_file', params={'src': Str, 'dst': Str, 'confdata': Obj, 'variable_format': Str, 'encoding': Str, 'subproject': Const(None)},
             ensures=[
                 # the template is read as text WITHOUT newline translation (newline=''): \r\n and \r reach the output as they are
                 f"len({OPN}) == 2 and {OPN}[0][1] == src and kw({OPN}[0], 'newline', None) == '' and kw({OPN}[0], 'encoding', None) == encoding",
                 # the lines handed to the renderer are the lines of the file, all of them, in order
                 f"len({CS}) == 1 and {CS}[0][2] == fs_lines(src) and {CS}[0][3] is confdata and {CS}[0][4] == variable_format",
                 # what is written is exactly what the renderer returned, again without newline translation, to a temporary
                 f"{OPN}[1][1] == dst + '~' and kw({OPN}[1], 'newline', None) == '' and kw({OPN}[1], 'encoding', None) == encoding",
                 f"len({WR}) == 1 and {WR}[0][1] == dst + '~' and {WR}[0][2] == {CS}[0][-1].result",
                 # and the destination is only replaced through replace_if_different (unchanged output is not touched)
                 f"len({RID}) == 1 and {RID}[0][1] == dst and {RID}[0][2] == dst + '~'",
             ],
             raises={'MesonException': 'True'}, exact_raises=False,
             effects={'do_conf_str': {'returns': ConfR, 'raises': ['MesonException']}, 'replace_if_different': []},
             floor=5,
             note='configure_file(input:, configuration:): the template is read and the result written as text without newline translation; the renderer sees every line of the file exactly once, in order')

# ---- the dispatch on the format, and the line loop of the cmake formats
DM = "[e for e in __trace__ if e[0] == 'do_conf_str_meson']"
DC = "[e for e in __trace__ if e[0] == 'do_conf_str_cmake']"
REG.contract('C14', U, 'do_conf_str', params={'src': Str, 'data': _List(Str), 'confdata': Obj, 'variable_format': Str, 'subproject': Const(None)},
             ensures=[f"implies(variable_format == 'meson', len({DM}) == 1 and len({DC}) == 0)",
                      f"implies(variable_format == 'meson', ({DM}[0][2] == data and {DM}[0][3] is confdata and result is {DM}[0][-1]) if len({DM}) == 1 else False)",
                      "variable_format in ('meson', 'cmake', 'cmake@')",
                      f"implies(variable_format != 'meson', len({DC}) == 1 and len({DM}) == 0)",
                      f"implies(variable_format != 'meson', ({DC}[0][2] == data and {DC}[0][3] is confdata and {DC}[0][4] == (variable_format == 'cmake@') and result is {DC}[0][-1]) if len({DC}) == 1 else False)"],
             raises={'MesonException': 'True'}, exact_raises=False,
             effects={'do_conf_str_meson': {'returns': Obj, 'raises': ['MesonException']}, 'do_conf_str_cmake': {'returns': Obj, 'raises': ['MesonException']}}, floor=5,
             note="the format selects the renderer: 'meson' the meson one, 'cmake' / 'cmake@' the cmake one with at_only = (format == 'cmake@'); anything else is an error")
REG.contract('C14', U, 'do_conf_str_cmake', params={'src': Str, 'data': _List(Str), 'confdata': Obj, 'at_only': Bool, 'subproject': Const(None)},
             ensures=['result[0] == cmake_lines(data, confdata, at_only, len(data))', 'len(result[0]) == len(data)'],
             raises={'MesonException': 'True'}, exact_raises=False,
             loops={0: Loop(invariant=['result == cmake_lines(data, confdata, at_only, __i)', 'len(result) == __i'],
                            locals={'confdata_useless': Bool, 'line': Str, 'missing': Set(Str), 'result': _List(Str), 'missing_variables': Set(Str), 'stripped_line': Str})},
             opaque_fns={'do_define_cmake': ([Str, Obj, Bool], Str), 'do_replacement_cmake': ([Str, Bool, Obj], SubstR)},
             opaque={'keys': ([], Obj)}, method_effects={'single_use': []}, floor=4,
             note='cmake formats: line k of the output is the rendering of line k of the template and of nothing else: a `# cmakedefine` line (blanks allowed around the #) by do_define_cmake, any other line by the cmake placeholder scanner; a #mesondefine in a cmake-format template is an error')

# ---- a header generated without a template: after the prelude, ONE define line per key of the data, in sorted order, each rendering
# its value as documented (true -> define, false -> undef, integers and strings as text) — for data of any size.  Stated for data
# without descriptions (every key then writes exactly one line; descriptions interleave comment lines: bounded only).
HdrS = Struct('ConfigurationData', 'mesonbuild.build:ConfigurationData', values=Dict(Str, Entry))
_HL = ("(((pre + 'define ' + __seq[k] + '\\n\\n') if cdata.values[__seq[k]][0] else (pre + 'undef ' + __seq[k] + '\\n\\n')) if isinstance(cdata.values[__seq[k]][0], bool) "
       "else (pre + 'define ' + __seq[k] + ' ' + str(cdata.values[__seq[k]][0]) + '\\n\\n'))")
for _fmt, _pre in (('c', '#'), ('nasm', '%')):
    REG.contract('C14', U, '_dump_c_header', variant=_fmt, params={'ofile': Obj, 'cdata': HdrS, 'output_format': Const(_fmt), 'macro_name': Const(None)},
                 requires=["forall(Str, lambda x: implies(x in cdata.values, cdata.values[x][1] == ''))"],
                 ensures=["len(ws) == 1 + len(cdata.values)"],
                 raises={'MesonException': 'True'}, exact_raises=False,
                 loops={0: Loop(invariant=["len(ws) == 1 + __i",
                                           f"forall(Int, lambda k: implies(0 <= k and k < __i, ws[1 + k] == {_HL}))".replace('pre', repr(_pre))],
                                locals={'k': Str, 'v': CV, 'desc': Str})},
                 ghost_seqs={'ws': ('write', 2, Str)}, method_effects={'write': []}, floor=4,
                 note=f'{_fmt} header without include guard: the prelude, then one line per key in sorted order with the documented rendering of its value')
