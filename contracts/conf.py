"""C14 — contracts on the configure_file substitution code of mesonbuild/utils/universal.py"""
from pyvc.api import Int, Bool, Str, Seq, Struct, Loop, Opt, List, Set, Obj, Const, Dict, MatchS, TupleS
from contracts import REG
from specs.conf import CV, Entry

U = 'mesonbuild/utils/universal.py'
MESON_RE = "get_variable_regex('meson')"
VAR = "match.group('variable')"
ESC = "match.group('escaped')"
BS = "match.group(0).endswith('\\\\')"
ISVAR = f"(not {BS}) and {ESC} is None"
REG.contract('C14', U, 'do_replacement_meson.<locals>.variable_replace',
             params={'match': MatchS(MESON_RE, 'search'), 'confdata': Dict(Str, Entry), 'missing_variables': Set(Str)},
             ensures=[
                 # a run of backslashes before @ / \@: half as many
                 f"implies({BS}, result == '\\\\' * (len(match.group(0)) // 2))",
                 # \@name\@  ->  @name@
                 f"implies((not {BS}) and {ESC} is not None, result == {ESC}[1:-2] + '@')",
                 # @name@ with a value: strings verbatim, integers and booleans through str()
                 f"implies({ISVAR} and {VAR} in confdata and isinstance(confdata[{VAR}][0], str), result == confdata[{VAR}][0])",
                 f"implies({ISVAR} and {VAR} in confdata and isinstance(confdata[{VAR}][0], int), result == str(confdata[{VAR}][0]))",
                 # an undefined name is reported and replaced by nothing
                 f"implies({ISVAR} and {VAR} not in confdata, result == '' and new(missing_variables) == setadd(missing_variables, {VAR}))",
                 f"implies(not ({ISVAR} and {VAR} not in confdata), new(missing_variables) == missing_variables)",
             ],
             raises={'MesonException': f"{ISVAR} and {VAR} in confdata and not isinstance(confdata[{VAR}][0], (str, int))"},
             modifies=['missing_variables'], result=Str, floor=10,
             note='callback of the single re.sub pass of the meson format; the match object is abstract (groups constrained by their sub-pattern languages)')

# ---- do_replacement_meson: exactly ONE re.sub pass over the line, its result returned unchanged: a substituted
# value is never scanned again (a second pass, a loop to a fixpoint, or post-processing fails these clauses)
REG.contract('C14', U, 'do_replacement_meson', params={'regex': Obj, 'line': Str, 'confdata': Dict(Str, Entry)},
             ensures=["len([e for e in __trace__ if e[0] == 're.sub']) == 1",
                      "[e for e in __trace__ if e[0] == 're.sub'][0][1] is regex",
                      "[e for e in __trace__ if e[0] == 're.sub'][0][2] == line",
                      "result[0] == [e for e in __trace__ if e[0] == 're.sub'][0][3]"],
             floor=4, note='the callback is the contract of do_replacement_meson.<locals>.variable_replace')

CDataS = Struct('ConfigurationData', 'mesonbuild.build:ConfigurationData', values=Dict(Str, Entry))
for m_ in ('get', '__contains__', 'keys'):
    REG.contract('C14', 'mesonbuild/build.py', f'ConfigurationData.{m_}', inline=True, trusted=True, note='one-line accessor, inlined')
REG.contract('C14', U, 'do_replacement_meson', variant='callee', trusted=True, params={'regex': Obj, 'line': Str, 'confdata': CDataS},
             ensures=[], result=TupleS(Str, Set(Str)), note='used only as a callee of do_define_meson: its result is unconstrained there')

LS = 'py_split_0(line)'
REG.contract('C14', U, 'do_define_meson', params={'regex': Obj, 'line': Str, 'confdata': CDataS, 'subproject': Const(None)},
             ensures=[
                 "implies(split0(line)[1] not in confdata.values, result == '/* #undef ' + split0(line)[1] + ' */\\n')",
                 "implies(split0(line)[1] in confdata.values and isinstance(confdata.values[split0(line)[1]][0], bool), result == ('#define ' if confdata.values[split0(line)[1]][0] else '#undef ') + split0(line)[1] + '\\n')",
                 "implies(split0(line)[1] in confdata.values and isinstance(confdata.values[split0(line)[1]][0], int) and not isinstance(confdata.values[split0(line)[1]][0], bool), result == '#define ' + split0(line)[1] + ' ' + str(confdata.values[split0(line)[1]][0]) + '\\n')",
                 "implies(split0(line)[1] in confdata.values and isinstance(confdata.values[split0(line)[1]][0], str), result == strip_('#define ' + split0(line)[1] + ' ' + str(confdata.values[split0(line)[1]][0])) + '\\n')",
             ],
             raises={'MesonException': "len(split0(line)) != 2 or (split0(line)[1] in confdata.values and not isinstance(confdata.values[split0(line)[1]][0], (str, int)))"},
             floor=8, note='clause 4 (string value copied with no further substitution) is what the statement says; the code scans the rendered line again — recorded known finding')
