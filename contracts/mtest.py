"""C12 — contracts on mesonbuild/mtest.py (classification, should_fail inversion, tally, exit status)"""
from pyvc.api import Int, Bool, Str, Seq, Struct, Loop, Opt, List, Set, Obj, Const
from contracts import REG
from specs.mtest import TR

M = 'mesonbuild/mtest.py'
for m, body in (('is_ok', 'self is TestResult.OK or self is TestResult.EXPECTEDFAIL'),
                ('is_bad', 'bad(self)'),
                ('is_finished', 'not (self is TestResult.PENDING or self is TestResult.RUNNING)'),
                ('was_killed', 'self is TestResult.TIMEOUT or self is TestResult.INTERRUPT')):
    REG.contract('C12', M, f'TestResult.{m}', params={'self': TR}, ensures=[f'result == ({body})'], pure_expr=body, result=Bool, floor=1)

def run_struct(cls):
    return Struct(cls, f'mesonbuild.mtest:{cls}', res=TR, expected_fail=Bool, stdo=Str, stde=Str, duration=Int, starttime=Int,
                  interactive=Bool, verbose=Bool, is_parallel=Bool, returncode=Int, expected_exitcode=Int)

for p_ in ('console_mode', 'direct_stdout', 'needs_parsing'):
    REG.contract('C12', M, f'TestRun.{p_}', inline=True, trusted=True, note='small property, inlined at its call sites')
REG.contract('C12', M, 'TestRunTAP.needs_parsing', inline=True, trusted=True, note='small property, inlined at its call sites')

MODS = ['self.res', 'self.stdo', 'self.stde', 'self.duration']
for cls in ('TestRun', 'TestRunExitCode'):
    REG.contract('C12', M, 'TestRun._complete', variant=cls if cls != 'TestRun' else '', params={'self': run_struct(cls)},
                 ensures=['new(self).res is finish(self.res, self.expected_fail, False)'], modifies=MODS, floor=3,
                 note='needs_parsing is False for this class, so the IGNORED rule does not apply')
REG.contract('C12', M, 'TestRun._complete', variant='TestRunTAP', params={'self': run_struct('TestRunTAP')},
             ensures=['new(self).res is finish(self.res, self.expected_fail, self.interactive)'], modifies=MODS, floor=3,
             note='a test whose output must be parsed cannot be classified when the console is handed to the user')
REG.contract('C12', M, 'TestRun.complete', params={'self': run_struct('TestRun')},
             ensures=['new(self).res is finish(self.res, self.expected_fail, False)'], modifies=MODS, floor=2)
REG.contract('C12', M, 'TestRun.complete', variant='TestRunTAP', params={'self': run_struct('TestRunTAP')},
             ensures=['new(self).res is finish(self.res, self.expected_fail, self.interactive)'], modifies=MODS, floor=2)
REG.contract('C12', M, 'TestRun.complete', variant='TestRunExitCode', params={'self': run_struct('TestRunExitCode')},
             ensures=['new(self).res is finish(self.res, self.expected_fail, False)'], modifies=MODS, floor=2)
REG.contract('C12', M, 'TestRunExitCode.complete', params={'self': run_struct('TestRunExitCode')},
             ensures=['new(self).res is finish(by_exit_code(self.res, self.returncode, self.expected_exitcode), self.expected_fail, False)'],
             modifies=MODS, floor=5)
REG.contract('C12', M, 'TestRunTAP.complete', params={'self': run_struct('TestRunTAP')},
             ensures=['new(self).res is finish(TestResult.ERROR if (self.returncode != 0 and not bad(self.res)) else self.res, self.expected_fail, self.interactive)'],
             modifies=MODS, floor=3)

HarnessS = Struct('TestHarness', 'mesonbuild.mtest:TestHarness', timeout_count=Int, skip_count=Int, ignored_count=Int, success_count=Int,
                  fail_count=Int, expectedfail_count=Int, unexpectedpass_count=Int, collected_failures=List(Obj), loggers=Const(()),
                  maxfail_reached=Bool)
RunObjS = Struct('TestRun', 'mesonbuild.mtest:TestRun', res=TR)
CNT = ['timeout_count', 'skip_count', 'ignored_count', 'success_count', 'fail_count', 'expectedfail_count', 'unexpectedpass_count']
WHICH = {'timeout_count': 'result.res is TestResult.TIMEOUT', 'skip_count': 'result.res is TestResult.SKIP', 'ignored_count': 'result.res is TestResult.IGNORED',
         'success_count': 'result.res is TestResult.OK',
         'fail_count': 'result.res is TestResult.FAIL or result.res is TestResult.ERROR or result.res is TestResult.INTERRUPT',
         'expectedfail_count': 'result.res is TestResult.EXPECTEDFAIL', 'unexpectedpass_count': 'result.res is TestResult.UNEXPECTEDPASS'}
REG.contract('C12', M, 'TestHarness.is_bad_result', params={'self': HarnessS, 'result': RunObjS},
             ensures=['result_ == (bad(result.res) and not (result.res is TestResult.INTERRUPT and self.maxfail_reached))'.replace('result_', 'ret')],
             floor=1, inline=True, trusted=True, note='inlined')
REG.contract('C12', M, 'TestHarness.process_test_result', params={'self': HarnessS, 'result': RunObjS},
             ensures=[f'new(self).{c} == self.{c} + (1 if ({WHICH[c]}) else 0)' for c in CNT],
             raises={'SystemExit': 'result.res is TestResult.PENDING or result.res is TestResult.RUNNING'},
             modifies=['self.' + c for c in CNT] + ['self.collected_failures'], floor=9,
             note='exactly one counter is incremented, chosen by the classification; loggers are assumed not to touch the counters (none in the model)')
REG.contract('C12', M, 'TestHarness.total_failure_count', params={'self': HarnessS},
             ensures=['result == self.fail_count + self.unexpectedpass_count + self.timeout_count'], floor=1)

# ---- TestSubprocess._kill (what "the test is then terminated" means when the time limit has passed, --maxfail or Ctrl-C cut the run
# short): the whole process GROUP of the test gets the termination signal first, whatever the state of the test's main process —
# a test whose main process is gone may have left helpers behind that hold its output open —, and on every way out of the function
# the two output readers are cancelled, so that `meson test` never waits for a pipe that a surviving helper keeps open
KP = "[e for e in __trace__ if e[0] == 'killpg']"
CN = "[e for e in __trace__ if e[0] == 'cancel']"
SubpS = Struct('TestSubprocess', 'mesonbuild.mtest:TestSubprocess', _process=Obj, stdo_task=Opt(Obj), stde_task=Opt(Obj))
_KILL_COMMON = [f"len({KP}) >= 1 and {KP}[0][1] == attr_pid(self._process) and {KP}[0][2] is signal.SIGTERM",
                # nothing is asked of the process (wait, kill, returncode) before the group was signalled
                "[e[0] for e in __trace__ if e[0] in ('killpg', 'wait', 'kill', 'read')][0] == 'killpg'",
                f"all(e[1] == attr_pid(self._process) for e in {KP})",
                # both readers are cancelled, exactly once each
                f"len({CN}) == (0 if self.stdo_task is None else 1) + (0 if self.stde_task is None else 1)",
                f"(self.stdo_task is None or any(e[1] is self.stdo_task for e in {CN})) and (self.stde_task is None or any(e[1] is self.stde_task for e in {CN}))"]
REG.contract('C12', M, 'TestSubprocess._kill', params={'self': SubpS}, requires=['not fn_is_windows()', 'self.stdo_task is None or truthy(self.stdo_task)', 'self.stde_task is None or truthy(self.stde_task)'], opaque_fns={'is_windows': ([], Bool)},
             ensures=_KILL_COMMON + ["result is None or result == 'Test process could not be killed.'",
                                     # "could not be killed" is only said after SIGTERM, SIGKILL to the group and a direct kill were all tried
                                     f"implies(result is not None, len({KP}) == 2 and {KP}[1][2] is signal.SIGKILL and len([e for e in __trace__ if e[0] == 'kill']) == 1)"],
             on_raise=_KILL_COMMON[3:], raises={'Exception': 'True'}, exact_raises=False,
             effects={'killpg': ['ProcessLookupError'], 'wait_for': {'returns': Obj, 'raises': ['TimeoutError']}},
             method_effects={'wait': {'returns': Obj, 'raises': []}, 'kill': ['ProcessLookupError'], 'cancel': []},
             opaque_attrs={'pid': Int}, volatile_attrs={'returncode': Opt(Int)}, floor=8,
             note='POSIX host (is_windows() is read from the live module): SIGTERM to the process group first and unconditionally, SIGKILL to the group if the main process is still there, a direct kill as the last resort; the stdout / stderr reader tasks are cancelled on every way out')
