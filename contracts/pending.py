"""C07 / C08 — OptionStore.add_system_option_internal (mesonbuild/options.py): the pending-value source of late-created options.
Registered under both properties: that the waiting value is applied whatever its truth value is C07 (a source of the precedence
chain is not dropped), that it is consumed — applied once, never again on a later reconfigure — is C08."""
from pyvc.api import Int, Bool, Str, Seq, Struct, Loop, Opt, List, Set, Obj, Const, Dict
from contracts import REG

O = 'mesonbuild/options.py'


def register(PROP, SUF):

    # ---- an option that is created late (base / compiler options, options of a subproject's language): the value that was waiting for it
    # — from the command line, a machine file, default_options — is taken, whatever it is (False, 0, '' and [] included), and is
    # CONSUMED: it is applied exactly once and never again on a later reconfigure
    PendS = Struct('OptionStore', 'mesonbuild.options:OptionStore', options=Dict(Obj, Obj), pending_options=Dict(Obj, Obj))
    SO = "[e for e in __trace__ if e[0] == 'set_option']"
    REC = "[e for e in __trace__ if e[0] == 'add_system_option_internal']"
    for _v, _sub in (('global-key', False), ('subproject-key', True)):
        REG.contract(PROP, O, 'OptionStore.add_system_option_internal', variant=_v + SUF, params={'self': PendS, 'key': Obj, 'valobj': Obj},
                     requires=['isinst(valobj, UserOption)', 'isinst(attr_name(valobj), str)',
                               ('attr_subproject(key) is not None and attr_subproject(key) != ""') if _sub else ('attr_subproject(key) is None or attr_subproject(key) == ""')],
                     ensures=[
                         # an option that exists is left alone, and so is what waits for it
                         f"(len({SO}) == 0 and len({REC}) == 0 and (key in new(self).pending_options) == (key in self.pending_options) and new(self).options[key] is self.options[key]) if key in self.options else True",
                         # otherwise the waiting value is consumed ...
                         "implies(key not in self.options, key not in new(self).pending_options)",
                         "(q in new(self).pending_options) == (q in self.pending_options) if q is not key else True",
                         "(new(self).pending_options[q] is self.pending_options[q]) if (q is not key and q in self.pending_options) else True",
                         # ... and applied iff there was one — a value of False / 0 / '' is a value
                         f"implies(key not in self.options, (len({SO}) == 1) == (key in self.pending_options) and len({SO}) <= 1)",
                         f"({SO}[0][1] is key and {SO}[0][2] is self.pending_options[key]) if (key not in self.options and key in self.pending_options) else True",
                         # the option object is registered: under the key itself, or (key of a subproject) through the same step for the global key
                         (f"(len({REC}) == 1 and {REC}[0][1] is obj_evolve(key, None) and {REC}[0][2] is valobj) if key not in self.options else True" if _sub else
                          f"(new(self).options[key] is valobj and len({REC}) == 0) if key not in self.options else True"),
                         "(q in new(self).options) == (q in self.options or (q is key and " + ('False' if _sub else 'True') + ")) if True else True",
                     ],
                     raises={'MesonException': 'True'}, exact_raises=False, ghosts={'q': Obj},
                     opaque_attrs={'subproject': Opt(Str), 'name': Obj}, opaque={'evolve': ([Opt(Str)], Obj, ['subproject'])},
                     method_effects={'set_option': {'returns': Bool, 'raises': ['MesonException']}, 'add_system_option_internal': {'raises': ['MesonException']}},
                     modifies=['self.options', 'self.pending_options'], floor=8,
                     note='late creation of a system option: a pending value is consumed (removed from pending_options) and applied through set_option iff one was pending, whatever its truth value; the recursive registration of the global option object for a subproject key is an effect here (the same contract, global-key variant)')


register('C07', '')
register('C08', '/c08')
