"""Sidecar contracts on the real functions of /repo (never edited into /repo)."""
from pyvc.api import Registry
REG = Registry()
