"""C03 — contracts on the quoting layer (ninjabackend.py, backends.py)"""
from pyvc.api import Int, Bool, Str, Seq, Struct, Loop, Opt, List, Set, Obj, Const, Dict, Fn
from contracts import REG
from specs.quoting import Quoting

N = 'mesonbuild/backend/ninjabackend.py'
B = 'mesonbuild/backend/backends.py'
SPECIAL = "(' ' in text or '$' in text or (is_build_line and ':' in text))"
RS = "[e for e in __trace__ if e[0] == 're.sub']"
REG.contract('C03', N, 'ninja_quote', params={'text': Str, 'is_build_line': Bool},
             ensures=[f"(({SPECIAL}) and {RS}[0][2] == text and result == {RS}[0][3]) if len({RS}) == 1 else (len({RS}) == 0 and not {SPECIAL} and result == text)",
                      f"(({RS}[0][1] is NINJA_QUOTE_BUILD_PAT) == is_build_line and ({RS}[0][1] is NINJA_QUOTE_VAR_PAT) == (not is_build_line)) if len({RS}) == 1 else True"],
             raises={'MesonException': "'\\n' in text"}, floor=4,
             note='a newline can never be written into a ninja file: always an error; otherwise one regex substitution that prefixes the special characters with $')
REG.contract('C03', N, 'ninja_quote', variant='callee', trusted=True, params={'text': Str, 'is_build_line': Bool},
             ensures=['result == nq(text, is_build_line)'], raises={'MesonException': "'\\n' in text"}, result=Str,
             pure_expr='nq(text, is_build_line)', pure_ignores_raises=True,
             note='definitional for callers: nq names the escaped text (the body is the verified contract above)')

ArgS = Struct('NinjaCommandArg', 'mesonbuild.backend.ninjabackend:NinjaCommandArg', s=Str, quoting=Quoting)
REG.contract('C03', N, 'NinjaCommandArg.__str__', inline=True, trusted=True, note='returns self.s; inlined')
QF = Fn([Str], Str, 'qf')
REG.contract('C03', N, 'NinjaRule._quoter', params={'x': ArgS, 'qf': QF},
             ensures=['implies(x.quoting is Quoting.none, result == x.s)',
                      'implies(x.quoting is Quoting.notNinja, result == qf(x.s))',
                      'implies(x.quoting is Quoting.notShell, result == nq(x.s, False))',
                      'implies(x.quoting is Quoting.both, result == nq(qf(x.s), False))'],
             raises={'MesonException': "(x.quoting is Quoting.notShell and '\\n' in x.s) or (x.quoting is Quoting.both and '\\n' in qf(x.s))"},
             floor=6, dropped=['decorator staticmethod'],
             note='the four quoting modes: shell quoting first, ninja escaping outermost')
REG.contract('C03', N, 'gcc_rsp_quote', params={'s': Str},
             ensures=["result == fn_quote_func(replace(s, '\\\\', '\\\\\\\\'))"], floor=1,
             opaque_fns={'quote_func': ([Str], Str)},
             note='response files are read by libiberty buildargv: backslashes doubled first, then shell-quoted')
REG.contract('C03', B, 'Backend.escape_extra_args', params={'args': Seq(Str)},
             ensures=['len(result) == len(args)',
                      "forall(Int, lambda j: implies(0 <= j and j < len(args), result[j] == (replace(args[j], '\\\\', '\\\\\\\\') if (args[j].startswith('-D') or args[j].startswith('/D')) else args[j])))"],
             loops={0: Loop(invariant=['len(extra_args) == __i',
                                       "forall(Int, lambda j: implies(0 <= j and j < __i, extra_args[j] == (replace(args[j], '\\\\', '\\\\\\\\') if (args[j].startswith('-D') or args[j].startswith('/D')) else args[j])))"],
                            locals={'extra_args': List(Str)})},
             floor=5, dropped=['decorator staticmethod'],
             note='same count, same order; backslashes doubled exactly in -D//D arguments')

# ---- response files: the quoting function applied to the arguments of a build statement (NinjaBuildElement.write) and the
# one applied to the rule's rspfile_content (NinjaRule.write) are chosen at two sites that must agree on the reader's syntax:
# MSVC and TASKING response files are read cmd-style, everything else gcc-style (libiberty buildargv)
from pyvc.api import Enum
RSP = Enum('RSPFileSyntax', {k: f'mesonbuild.linkers.base:RSPFileSyntax.{k}' for k in ('MSVC', 'GCC', 'TASKING')})
RuleS = Struct('NinjaRule', 'mesonbuild.backend.ninjabackend:NinjaRule', rspfile_quote_style=RSP)
ElemS = Struct('NinjaBuildElement', 'mesonbuild.backend.ninjabackend:NinjaBuildElement', rule=RuleS)
CMDSTYLE = "(STYLE is RSPFileSyntax.MSVC or STYLE is RSPFileSyntax.TASKING)"
REG.contract('C03', N, 'NinjaBuildElement.write', variant='rsp-quoter', region=('If', 'qf = gcc_rsp_quote'), params={'self': ElemS, 'use_rspfile': Const(True)},
             ensures=["implies(" + CMDSTYLE.replace('STYLE', 'self.rule.rspfile_quote_style') + ", final('qf') is cmd_quote)",
                      "implies(not " + CMDSTYLE.replace('STYLE', 'self.rule.rspfile_quote_style') + ", final('qf') is gcc_rsp_quote)"],
             floor=2, note='arguments of a build statement that go through a response file are quoted for the syntax of the reader of that file')
REG.contract('C03', N, 'NinjaRule.write', variant='rsp-quoter', region=('If', 'rspfile_quote_func = gcc_rsp_quote'), params={'self': RuleS, 'rspfile_args': Const(())},
             ensures=["implies(" + CMDSTYLE.replace('STYLE', 'self.rspfile_quote_style') + ", final('rspfile_quote_func') is cmd_quote)",
                      "implies(not " + CMDSTYLE.replace('STYLE', 'self.rspfile_quote_style') + ", final('rspfile_quote_func') is gcc_rsp_quote)"],
             floor=2, note='the rspfile_content of the rule is quoted by the same table')

# ---- quote_arg / join_args on a POSIX host: exactly shlex.quote per word, words joined by one blank.  (The Windows variant of
# quote_arg, defined under `if is_windows()`, is not live on this host and not under contract.)
REG.contract('C03', 'mesonbuild/utils/universal.py', 'quote_arg', params={'arg': Str},
             ensures=['result == shlex_quote(arg)'], result=Str, pure_expr='shlex_quote(arg)', floor=1,
             dropped=['decorator lru_cache: the function is pure'],
             note='POSIX: every word is quoted by shlex.quote and by nothing else (no word, however harmless it looks, bypasses it: ~ * ? are shell syntax in an unquoted word); shlex.quote itself is the standard library (its round trip through a POSIX shell is checked bounded)')
