"""C06 — configure-time outputs are not disturbed when unchanged (mesonbuild/utils/universal.py)"""
from pyvc.api import Int, Bool, Str, Seq, Struct, Loop, Opt, List, Set, Obj, Const, Dict
from contracts import REG

U = 'mesonbuild/utils/universal.py'
FX = "[e for e in __trace__ if e[0] in ('os.replace', 'os.unlink', 'file.write', 'file.writelines')]"
SAME = '(fs_exists(dst) and fs_exists(dst_tmp) and fs_content(dst) == fs_content(dst_tmp))'
REG.contract('C06', U, 'replace_if_different', params={'dst': Str, 'dst_tmp': Str},
             ensures=[f"len({FX}) == 1",
                      f"implies({SAME}, {FX}[0][0] == 'os.unlink' and {FX}[0][1] == dst_tmp)",
                      f"implies(not {SAME}, {FX}[0][0] == 'os.replace' and {FX}[0][1] == dst_tmp and {FX}[0][2] == dst)"],
             floor=6,
             note='equal contents: the destination is not touched (no replace, no write; mtime preserved) and the temporary is removed; otherwise exactly one os.replace(tmp, dst)')

# ---- NinjaBuildElement.write: the implicit (|) and order-only (||) dependency segments are a function of the SETS
# (sorted), never of their iteration order.  Variant with no in/out names and no variables, so that the statement line
# is exactly the dependency segments; non-Windows.
N = 'mesonbuild/backend/ninjabackend.py'
WElemS = Struct('NinjaBuildElement', 'mesonbuild.backend.ninjabackend:NinjaBuildElement', output_errors=Const(''), infilenames=Const(()),
                outfilenames=Const(()), implicit_outfilenames=Const(()), _should_use_rspfile=Const(False), rulename=Str,
                deps=Set(Str), orderdeps=Set(Str), elems=Const(()))
W = "[e for e in __trace__ if e[0] == 'write']"
REG.contract('C06', N, 'NinjaBuildElement.write', variant='deps', params={'self': WElemS, 'outfile': Obj},
             requires=["forall(Str, lambda x: implies(x in self.deps or x in self.orderdeps, '\\n' not in x))"],
             ensures=[f"len({W}) == 2",
                      f"{W}[0][1][0] == replace('build : ' + self.rulename + ' ' + ((' | ' + ' '.join([ninja_quote(x, True) for x in sorted(self.deps)])) if len(self.deps) > 0 else '') + ((' || ' + ' '.join([ninja_quote(x, True) for x in sorted(self.orderdeps)])) if len(self.orderdeps) > 0 else '') + '\\n', '\\\\', '/')"],
             opaque={'write': ([Str], Obj)}, floor=2,
             note='sorted(set) is modelled as a function of the set; iterating a set yields a fresh arbitrary order, so any dependence on iteration order (unsorted join, sort with a tie-keeping key) changes the term and fails this clause')
REG.contract('C06', U, 'is_windows', inline=True, trusted=True, note='platform test, evaluated concretely on this host (non-Windows): the Windows-only branches are not analysed')
