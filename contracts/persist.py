"""C08 — in-memory transition functions of option persistence (mesonbuild/options.py): -D of a per-subproject override,
-U of an override"""
from pyvc.api import Int, Bool, Str, Seq, Struct, Loop, Opt, List, Set, Obj, Const, Dict
from contracts import REG

O = 'mesonbuild/options.py'
StoreS = Struct('OptionStore', 'mesonbuild.options:OptionStore', options=Dict(Obj, Obj), augments=Dict(Obj, Obj))
OptS = Struct('UserOption', 'mesonbuild.options:UserOption', value=Obj, yielding=Bool)
SV = "[e for e in __trace__ if e[0] == 'set_value']"
REG.contract('C08', O, 'OptionStore.set_option', variant='store-step', region=('If', 'self.augments[key] = new_value'),
             params={'self': StoreS, 'key': Obj, 'opt': OptS, 'new_value': Obj},
             requires=['implies(key not in self.options, attr_subproject(key) is not None)'],
             ensures=[
                 # a per-subproject override of an option defined elsewhere: the value the user gave is what is stored — always
                 'implies(key not in self.options, key in new(self).augments and new(self).augments[key] is new_value)',
                 f'implies(key not in self.options, len({SV}) == 0)',
                 "implies(key not in self.options, final('old_value') is (self.augments[key] if key in self.augments else opt.value))",
                 # the option itself: validated value stored through set_value, it stops yielding
                 f'implies(key in self.options, len({SV}) == 1 and {SV}[0][1] is new_value and not new(opt).yielding)',
                 'implies(key in self.options, forall(Obj, lambda k: (k in new(self).augments) == (k in self.augments)))',
                 'forall(Obj, lambda k: implies(k is not key, (k in new(self).augments) == (k in self.augments)))',
             ],
             method_effects={'set_value': []}, opaque_attrs={'subproject': Opt(Obj)},
             modifies=['self.augments', 'opt.yielding'], floor=8,
             note='storing step of set_option; no other key of the override table changes')

REG.contract('C08', O, 'OptionStore.ensure_and_validate_key', variant='c08', trusted=True, params={'self': StoreS, 'key': Obj}, ensures=['result is key'], result=Obj, returns='key',
             note='key normalisation is outside this contract')
REG.contract('C08', O, 'OptionStore.get_value_object', inline=True, trusted=True, note='self.options[key]; inlined')
SA = "[e for e in __trace__ if e[0] == 'setattr']"
REG.contract('C08', O, 'OptionStore.set_from_configure_command', variant='unset-step', region=('If', 'del self.augments[key]'),
             params={'self': StoreS, 'key': Obj, 'dirty': Bool},
             ensures=[
                 # -U of an override: the override is dropped (the value falls back to the inherited one) and the store is dirty
                 "implies(key in self.augments, key not in new(self).augments and final('dirty') and len(" + SA + ") == 0)",
                 'forall(Obj, lambda k: implies(k is not key, (k in new(self).augments) == (k in self.augments)))',
                 # -U of an option itself: it yields again iff it has a parent
                 f"implies(key not in self.augments, len({SA}) == 1 and {SA}[0][2] == 'yielding' and {SA}[0][1] is self.options[key])",
             ],
             raises={'MesonException': 'key not in self.augments and key not in self.options'},
             opaque_attrs={'yielding': Bool, 'parent': Opt(Obj)}, modifies=['self.augments'], floor=6,
             note='-U step of `meson configure`')
