"""C08 — in-memory transition functions of option persistence (mesonbuild/options.py): -D of a per-subproject override,
-U of an override"""
from pyvc.api import Int, Bool, Str, Seq, Struct, Loop, Opt, List, Set, Obj, Const, Dict
from contracts import REG

O = 'mesonbuild/options.py'
StoreS = Struct('OptionStore', 'mesonbuild.options:OptionStore', options=Dict(Obj, Obj), augments=Dict(Obj, Obj))
OptS = Struct('UserOption', 'mesonbuild.options:UserOption', value=Obj, yielding=Bool)
SV = "[e for e in __trace__ if e[0] == 'set_value']"
REG.contract('C08', O, 'OptionStore.set_option', variant='store-step', region=('If', 'self.augments[key] = new_value'),
             params={'self': StoreS, 'key': Obj, 'opt': OptS, 'new_value': Obj, 'changed': Bool},
             requires=['implies(key not in self.options, attr_subproject(key) is not None)'],
             ensures=[
                 # a per-subproject override of an option defined elsewhere: the value the user gave is what is stored — always
                 'implies(key not in self.options, key in new(self).augments and new(self).augments[key] is new_value)',
                 f'implies(key not in self.options, len({SV}) == 0)',
                 # ... and a NEW override is reported as a change even when it equals the inherited value (else `meson configure`
                 # does not save it and a later change of the inherited value silently changes the subproject too)
                 "implies(key not in self.options and key not in self.augments, final('changed'))",
                 "implies(changed, final('changed'))",
                 "implies(key not in self.options, final('old_value') is (self.augments[key] if key in self.augments else opt.value))",
                 # the option itself: validated value stored through set_value, it stops yielding
                 f'implies(key in self.options, len({SV}) == 1 and {SV}[0][1] is new_value and not new(opt).yielding)',
                 'implies(key in self.options, forall(Obj, lambda k: (k in new(self).augments) == (k in self.augments)))',
                 'forall(Obj, lambda k: implies(k is not key, (k in new(self).augments) == (k in self.augments)))',
             ],
             method_effects={'set_value': []}, opaque_attrs={'subproject': Opt(Obj)},
             modifies=['self.augments', 'opt.yielding'], floor=10,
             note='storing step of set_option; no other key of the override table changes')

REG.contract('C08', O, 'OptionStore.ensure_and_validate_key', variant='c08', trusted=True, params={'self': StoreS, 'key': Obj}, ensures=['result is key'], result=Obj, returns='key',
             note='key normalisation is outside this contract')
REG.contract('C08', O, 'OptionStore.get_value_object', inline=True, trusted=True, note='self.options[key]; inlined')
SA = "[e for e in __trace__ if e[0] == 'setattr']"
REG.contract('C08', O, 'OptionStore.set_from_configure_command', variant='unset-step', region=('If', 'del self.augments[key]'),
             params={'self': StoreS, 'key': Obj, 'dirty': Bool},
             ensures=[
                 # -U of an override: the override is dropped (the value falls back to the inherited one) and the store is dirty
                 "implies(key in self.augments, key not in new(self).augments and final('dirty') and len(" + SA + ") == 0)",
                 'forall(Obj, lambda k: implies(k is not key, (k in new(self).augments) == (k in self.augments)))',
                 # -U of an option itself: it yields again iff it has a parent
                 f"implies(key not in self.augments, len({SA}) == 1 and {SA}[0][2] == 'yielding' and {SA}[0][1] is self.options[key])",
                 # ... and the store is reported dirty exactly when that changed something: the option did not yield before and has a
                 # parent to yield to (the flag is computed from the state BEFORE the assignment)
                 "implies(key not in self.augments and key in self.options, final('dirty') == (dirty or (not attr_yielding(self.options[key]) and truthy(attr_parent(self.options[key])))))",
             ],
             raises={'MesonException': 'key not in self.augments and key not in self.options'},
             opaque_attrs={'yielding': Bool, 'parent': Opt(Obj)}, modifies=['self.augments'], floor=6,
             note='-U step of `meson configure`')

# ---- `meson configure` (mconf.run_impl): what is persisted, and in which order.  Conf, coredata, the introspection
# writers and cmdline.update_cmd_line_file are effects of the ghost trace; an opaque object's truthiness is unknown.
M = 'mesonbuild/mconf.py'
EV = lambda n: f"[e for e in __trace__ if e[0] == '{n}']"
FLAGS = 'truthy(attr_cmd_line_options(options))'
NAMES = "[e[0] for e in __trace__ if e[0] in ('set_from_configure_command', 'update_cmd_line_file', 'save')]"
REG.contract('C08', M, 'is_print_only', inline=True, trusted=True, note='inlined')
REG.contract('C08', M, 'has_option_flags', inline=True, trusted=True, note='inlined: bool(options.cmd_line_options)')
REG.contract('C08', M, 'run_impl', params={'options': Obj, 'builddir': Str},
             ensures=[
                 # -D/-U given on a valid build directory and accepted: the command line is ALWAYS recorded (whether or not a
                 # stored value changed), after the options were accepted — --wipe re-derives the configuration from that record
                 f"implies({FLAGS} and len({EV('print_conf')}) == 0, len({EV('update_cmd_line_file')}) == 1 and {EV('update_cmd_line_file')}[0][1] == builddir and {EV('update_cmd_line_file')}[0][2] is options)",
                 f"implies({FLAGS} and len({EV('print_conf')}) == 0, {NAMES}[:2] == ['set_from_configure_command', 'update_cmd_line_file'])",
                 f"implies(not {FLAGS}, len({EV('update_cmd_line_file')}) == 0 and len({EV('set_from_configure_command')}) == 0)",
                 # coredata is saved iff something changed (or the cache was cleared)
                 f"implies(len({EV('print_conf')}) == 0, (len({EV('save')}) == 1) == (attr_clearcache(options) or (({EV('set_from_configure_command')}[0][-1]) if len({EV('set_from_configure_command')}) == 1 else False)))",
                 'result == 0'],
             on_raise=[
                 # a configure that fails (options rejected) persists nothing: no command-line record, no coredata
                 f"implies(len([e for e in __trace__ if e[0] == 'raised' and e[1] == 'set_from_configure_command']) == 1, len({EV('update_cmd_line_file')}) == 0 and len({EV('save')}) == 0)"],
             raises={'MesonException': 'True'}, exact_raises=False,
             effects={'Conf': {'returns': Obj, 'raises': ['ConfException', 'MesonException']}, 'unwrap': {'returns': Obj, 'raises': []},
                      'update_cmd_line_file': [], 'update_build_options': [], 'write_meson_info_file': []},
             method_effects={'print_conf': ['BrokenPipeError'], 'set_from_configure_command': {'returns': Bool, 'raises': ['MesonException']}, 'clear_cache': [], 'save': []},
             opaque_attrs={'default_values_only': Bool, 'coredata': Obj, 'build': Opt(Obj), 'cmd_line_options': Obj, 'clearcache': Bool, 'pager': Bool,
                           'environment': Obj, 'info_dir': Str},
             floor=6,
             note='meson configure: an accepted -D/-U is recorded in cmd_line.txt unconditionally and after validation; a rejected one leaves cmd_line.txt and coredata untouched')

# ---- has the admissible set of an option changed? (decides whether an option-file edit replaces the stored option)
IntO = Struct('UserIntegerOption', 'mesonbuild.options:UserIntegerOption', min_value=Opt(Int), max_value=Opt(Int))
ComboO = Struct('UserComboOption', 'mesonbuild.options:UserComboOption', choices=List(Str))
ArrO = Struct('UserStringArrayOption', 'mesonbuild.options:UserStringArrayOption', choices=Opt(List(Str)))
StrO = Struct('UserStringOption', 'mesonbuild.options:UserStringOption')
REG.contract('C08', O, 'choices_are_different', variant='integer', params={'a': IntO, 'b': IntO},
             ensures=['result == (a.min_value != b.min_value or a.max_value != b.max_value)'], result=Bool, floor=1,
             note='an integer option changed iff its lower OR its upper bound changed (None = unbounded)')
REG.contract('C08', O, 'choices_are_different', variant='combo', params={'a': ComboO, 'b': ComboO},
             ensures=['result == (not seq_eq_from(a.choices, b.choices, 0))'], result=Bool, floor=1, note='a combo option changed iff its choice list changed')
REG.contract('C08', O, 'choices_are_different', variant='string', params={'a': StrO, 'b': StrO},
             ensures=['result == False'], result=Bool, floor=1, note='options without an admissible set never count as changed')

# ---- a removed option vanishes: the clean-up step of update_project_options (after the merge loop) drops every stored project
# option of this (sub)project that the option file no longer declares, and nothing else
PStoreS = Struct('OptionStore', 'mesonbuild.options:OptionStore', options=Dict(Obj, Obj), project_options=Set(Obj))
REG.contract('C08', O, 'OptionStore.is_project_option', variant='c08', inline=True, trusted=True, note='key in self.project_options; inlined')
REG.contract('C08', O, 'OptionStore.remove', variant='c08', inline=True, trusted=True, note='del self.options[key]; self.project_options.remove(key); inlined')
GONE = "(k in potential_removed_keys and k in self.project_options and attr_subproject(k) == subproject)"
REG.contract('C08', O, 'OptionStore.update_project_options', variant='clean-up', region=('For', 'potential_removed_keys'),
             params={'self': PStoreS, 'potential_removed_keys': Set(Obj), 'subproject': Str},
             requires=['forall(Obj, lambda k: implies(k in potential_removed_keys, k in self.options))'],
             ensures=[f"forall(Obj, lambda k: (k in new(self).options) == (k in self.options and not {GONE}))",
                      f"forall(Obj, lambda k: implies(k in new(self).options, new(self).options[k] is self.options[k]))",
                      f"forall(Obj, lambda k: (k in new(self).project_options) == (k in self.project_options and not {GONE}))"],
             loops={'for key in potential_removed_keys': Loop(invariant=[f"forall(Obj, lambda k: (k in self.options) == (k in old_self.options and not ({GONE.replace('self.project_options', 'old_self.project_options')} and k in __seen)))",
                                       "forall(Obj, lambda k: implies(k in self.options, self.options[k] is old_self.options[k]))",
                                       f"forall(Obj, lambda k: (k in self.project_options) == (k in old_self.project_options and not ({GONE.replace('self.project_options', 'old_self.project_options')} and k in __seen)))"])},
             opaque_attrs={'subproject': Opt(Str)}, modifies=['self.options', 'self.project_options'], floor=6,
             note='the keys to examine are those stored but not declared any more (computed by the statement before); of these exactly the project options of this (sub)project are removed, from the option table and from the set of project options; every other entry keeps its option object')
GONE0 = "(k in self.project_options and attr_subproject(k) == subproject)"
REG.contract('C08', O, 'OptionStore.update_project_options', variant='nothing-declared', params={'self': PStoreS, 'project_options': Const({}), 'subproject': Str},
             requires=['forall(Obj, lambda k: implies(k in self.project_options, k in self.options))'],
             ensures=[f"forall(Obj, lambda k: (k in new(self).options) == (k in self.options and not {GONE0}))",
                      f"forall(Obj, lambda k: (k in new(self).project_options) == (k in self.project_options and not {GONE0}))"],
             loops={'for key in potential_removed_keys': Loop(invariant=[f"forall(Obj, lambda k: (k in self.options) == (k in old_self.options and not ({GONE0.replace('self.project_options', 'old_self.project_options')} and k in __seen)))",
                                       "forall(Obj, lambda k: implies(k in self.options, self.options[k] is old_self.options[k]))",
                                       f"forall(Obj, lambda k: (k in self.project_options) == (k in old_self.project_options and not ({GONE0.replace('self.project_options', 'old_self.project_options')} and k in __seen)))"])},
             opaque_attrs={'subproject': Opt(Str)}, modifies=['self.options', 'self.project_options'], floor=4,
             note='the whole function when the option file declares NOTHING (any more): every stored project option of this (sub)project vanishes')
REG.contract('C08', O, 'OptionStore.update_project_options', variant='keys-to-examine', region=('Assign', 'potential_removed_keys ='),
             params={'self': PStoreS, 'project_options': Dict(Obj, Obj)},
             ensures=["forall(Obj, lambda k: (k in final('potential_removed_keys')) == (k in self.options and k not in project_options))"], floor=1,
             note='the keys examined by the clean-up are exactly those stored but not declared by the option file any more')
