"""C11 — contracts on mesonbuild/minstall.py (permission handling, tag/subproject filter, DESTDIR re-rooting)"""
from pyvc.api import Int, Bool, Str, Seq, Struct, Loop, Opt, List, Set, Obj, Const, Dict
from contracts import REG

I = 'mesonbuild/minstall.py'
EV = "[e for e in __trace__ if e[0] in ('set_chmod', 'set_chown', 'sanitize_permissions')]"
REG.contract('C11', I, 'sanitize_permissions', variant='preserve', params={'path': Str, 'umask': Const('preserve')},
             ensures=[f"len({EV}) == 0"], effects={'set_chmod': ['PermissionError']}, opaque_fns={'is_executable': ([Str], Bool)}, floor=1,
             note="install_umask 'preserve': permissions are left alone")
REG.contract('C11', I, 'sanitize_permissions', variant='umask', params={'path': Str, 'umask': Int},
             ensures=[f"len({EV}) == 1 and {EV}[0][0] == 'set_chmod' and {EV}[0][1] == path",
                      f"{EV}[0][2] == ((0o777 if fn_is_executable(path) else 0o666) & ~umask)",
                      # the installed path itself, never what a symbolic link points to (which may lie outside DESTDIR)
                      f"kw({EV}[0], 'follow_symlinks', True) is False"],
             effects={'set_chmod': ['PermissionError']}, opaque_fns={'is_executable': ([Str], Bool)}, floor=4,
             note='default permissions (0777 for executables, 0666 otherwise) masked by the umask; a PermissionError is reported, not fatal')

ModeS = Struct('FileMode', 'mesonbuild.utils.universal:FileMode', perms_s=Opt(Str), owner=Opt(Obj), group=Opt(Obj), perms=Int)
EFF = {'set_chmod': ['PermissionError'], 'set_chown': ['PermissionError', 'LookupError'], 'sanitize_permissions': []}
PLAIN = '(mode is None or (mode.perms_s is None and mode.owner is None and mode.group is None))'
REG.contract('C11', I, 'set_mode', params={'path': Str, 'mode': Opt(ModeS), 'default_umask': Int},
             ensures=[
                 # no install_mode: default permissions masked by install_umask
                 f"implies({PLAIN}, len({EV}) == 1 and {EV}[0][0] == 'sanitize_permissions' and {EV}[0][1] == path and {EV}[0][2] == default_umask)",
                 # declared owner/group: chown first
                 f"implies(not {PLAIN} and (mode.owner is not None or mode.group is not None), {EV}[0][0] == 'set_chown' and {EV}[0][1] == path and len({EV}) == 2)",
                 f"implies(not {PLAIN} and mode.owner is None and mode.group is None, len({EV}) == 1)",
                 # then the declared permissions, or else the default ones masked by install_umask
                 f"implies(not {PLAIN} and mode.perms_s is not None, {EV}[-1][0] == 'set_chmod' and {EV}[-1][1] == path and {EV}[-1][2] == mode.perms)",
                 f"implies(not {PLAIN} and mode.perms_s is None, {EV}[-1][0] == 'sanitize_permissions' and {EV}[-1][1] == path and {EV}[-1][2] == default_umask)",
             ],
             effects=EFF, floor=10,
             note='ownership before permissions (chmod after chown keeps setuid/setgid bits); permissions are the declared install_mode or else the defaults masked by install_umask — in EVERY case')
REG.contract('C11', 'mesonbuild/utils/universal.py', 'is_windows', variant='c11', inline=True, trusted=True, note='platform test evaluated concretely (non-Windows)')

DataS = Struct('InstallDataBase', 'mesonbuild.backend.backends:InstallDataBase', subproject=Str, tag=Opt(Str))
InstS = Struct('Installer', 'mesonbuild.minstall:Installer', skip_subprojects=List(Str), tags=Opt(List(Str)))
REG.contract('C11', I, 'Installer.should_install', params={'self': InstS, 'd': DataS},
             ensures=["result == (not (d.subproject != '' and (d.subproject in self.skip_subprojects or '*' in self.skip_subprojects)) and not (self.tags is not None and len(self.tags) > 0 and d.tag not in self.tags))"],
             floor=3, note='skipped iff its subproject is skipped (or all are), or tags were requested and its tag is not among them')
REG.contract('C11', I, 'get_destdir_path', params={'destdir': Str, 'fullprefix': Str, 'path': Str},
             ensures=['implies(fn_path_has_root(path), result == fn_destdir_join(destdir, path))',
                      'implies(not fn_path_has_root(path), result == os.path.join(fullprefix, path))'],
             opaque_fns={'path_has_root': ([Str], Bool), 'destdir_join': ([Str, Str], Str)}, floor=2,
             note='absolute destinations are re-rooted under DESTDIR, relative ones go under the (already DESTDIR-prefixed) prefix')

# ---- install_emptydir: every selected empty directory is created AND gets its declared mode — whether or not the directory
# already exists (another rule may have created it, or an earlier install).  The loop is unrolled: the contract is stated for
# 0, 1 and 2 entries with arbitrary contents (the iterations are independent: the only state carried over is
# did_install_something); longer lists are covered by the bounded install layer.
from pyvc.api import TupleS
EmptyS = Struct('InstallEmptyDir', 'mesonbuild.backend.backends:InstallEmptyDir', path=Str, install_mode=Obj, subproject=Str, tag=Opt(Str))
SI = "[e for e in __trace__ if e[0] == 'should_install']"
GD = "[e for e in __trace__ if e[0] == 'get_destdir_path']"
MK = "[e for e in __trace__ if e[0] == 'makedirs']"
SM = "[e for e in __trace__ if e[0] == 'set_mode']"
for k_ in (0, 1, 2):
    DataK = Struct('InstallData', 'mesonbuild.backend.backends:InstallData', emptydir=TupleS(*([EmptyS] * k_)), install_umask=Int)
    InstK = Struct('Installer', 'mesonbuild.minstall:Installer', did_install_something=Bool)
    ens = [f"len({SI}) == {k_}"] + [f"{SI}[{j}][1] is d.emptydir[{j}]" for j in range(k_)]
    # every directory whose path was computed is created and gets a mode: same number of events, pairwise the same path
    ens += [f"len({MK}) == len({GD}) and len({SM}) == len({GD})",
            f"all({MK}[i][1] is dm and {MK}[i][2] == {GD}[i][-1] and {SM}[i][1] == {GD}[i][-1] and {SM}[i][3] == d.install_umask for i in range(len({GD})))",
            f"all(kw({MK}[i], 'exist_ok', False) is True for i in range(len({MK})))",
            f"all({GD}[i][1] == destdir and {GD}[i][2] == fullprefix for i in range(len({GD})))"]
    if k_ == 1:
        ens += [f"implies({SI}[0][-1], len({GD}) == 1)", f"implies(not {SI}[0][-1], len({GD}) == 0)",
                f"({GD}[0][3] == d.emptydir[0].path and {SM}[0][2] is d.emptydir[0].install_mode) if len({GD}) == 1 else True"]
    if k_ == 2:
        ens += [f"len({GD}) == (1 if {SI}[0][-1] else 0) + (1 if {SI}[1][-1] else 0)",
                f"({GD}[0][3] == d.emptydir[0].path and {SM}[0][2] is d.emptydir[0].install_mode and {GD}[1][3] == d.emptydir[1].path and {SM}[1][2] is d.emptydir[1].install_mode) if len({GD}) == 2 else True",
                f"implies({SI}[0][-1], {GD}[0][3] == d.emptydir[0].path and {SM}[0][2] is d.emptydir[0].install_mode) if len({GD}) == 1 else True",
                f"implies(not {SI}[0][-1], {GD}[0][3] == d.emptydir[1].path and {SM}[0][2] is d.emptydir[1].install_mode) if len({GD}) == 1 else True"]
    ens += [f"new(self).did_install_something == (self.did_install_something or len({GD}) > 0)"]
    REG.contract('C11', I, 'Installer.install_emptydir', variant=f'entries{k_}', params={'self': InstK, 'd': DataK, 'dm': Obj, 'destdir': Str, 'fullprefix': Str},
                 ensures=ens, raises={'SystemExit': 'True'}, exact_raises=False,
                 effects={'get_destdir_path': {'returns': Str, 'raises': []}},
                 method_effects={'should_install': {'returns': Bool, 'raises': []}, 'log': [], 'isfile': {'returns': Bool, 'raises': []}, 'makedirs': [], 'set_mode': []},
                 modifies=['self.did_install_something'], floor=max(3, 3 * k_),
                 note=f'{k_} entr{"y" if k_ == 1 else "ies"}: each selected entry: destination computed from (destdir, prefix, path), directory created with exist_ok, then set_mode(destination, its install_mode, install_umask) — always, also when the directory exists already; an existing FILE of that name aborts the installation')

# ---- install_data / install_man / install_headers: every selected entry is copied to its destination and then gets its mode,
# whether or not the copy did anything (an up-to-date file still gets the declared mode).  Unrolled for 1 and 2 entries.
CP = "[e for e in __trace__ if e[0] == 'do_copyfile']"
FileS = Struct('InstallDataBase', 'mesonbuild.backend.backends:InstallDataBase', path=Str, install_path=Str, install_mode=Obj, subproject=Str, tag=Opt(Str), follow_symlinks=Opt(Bool))
for fn_, field_, hdr_ in (('install_data', 'data', False), ('install_man', 'man', False), ('install_headers', 'headers', True)):
    for k_ in (1, 2):
        DataK = Struct('InstallData', 'mesonbuild.backend.backends:InstallData', install_umask=Int, **{field_: TupleS(*([FileS] * k_))})
        InstK = Struct('Installer', 'mesonbuild.minstall:Installer', did_install_something=Bool)
        OUT = (lambda i: f"os.path.join({GD}[{i}][-1], os.path.basename({CP}[{i}][1]))") if hdr_ else (lambda i: f"{GD}[{i}][-1]")
        ens = [f"len({SI}) == {k_}", f"len({CP}) == len({GD}) and len({SM}) == len({GD})",
               f"all({GD}[i][1] == destdir and {GD}[i][2] == fullprefix for i in range(len({GD})))"]
        for n_ in range(1, k_ + 1):
            guard = f"len({GD}) >= {n_}"
            i = n_ - 1
            ens += [f"({CP}[{i}][2] == {OUT(i)} and {SM}[{i}][1] == {OUT(i)} and {SM}[{i}][3] == d.install_umask) if {guard} else True",
                    f"(kw({CP}[{i}], 'makedirs', None)[0] is dm) if {guard} else True"]
        E = f"d.{field_}"
        if k_ == 1:
            ens += [f"len({GD}) == (1 if {SI}[0][-1] else 0)",
                    f"({GD}[0][3] == {E}[0].install_path and {CP}[0][1] == {E}[0].path and {SM}[0][2] is {E}[0].install_mode) if len({GD}) == 1 else True"]
        else:
            ens += [f"len({GD}) == (1 if {SI}[0][-1] else 0) + (1 if {SI}[1][-1] else 0)",
                    f"({GD}[0][3] == {E}[0].install_path and {CP}[0][1] == {E}[0].path and {SM}[0][2] is {E}[0].install_mode and {GD}[1][3] == {E}[1].install_path and {CP}[1][1] == {E}[1].path and {SM}[1][2] is {E}[1].install_mode) if len({GD}) == 2 else True",
                    f"implies({SI}[0][-1], {GD}[0][3] == {E}[0].install_path and {CP}[0][1] == {E}[0].path and {SM}[0][2] is {E}[0].install_mode) if len({GD}) == 1 else True",
                    f"implies(not {SI}[0][-1], {GD}[0][3] == {E}[1].install_path and {CP}[0][1] == {E}[1].path and {SM}[0][2] is {E}[1].install_mode) if len({GD}) == 1 else True"]
        anycp = ' or '.join(f"({CP}[{i}][-1] if len({CP}) > {i} else False)" for i in range(k_))
        ens += [f"new(self).did_install_something == (self.did_install_something or {anycp})"]
        REG.contract('C11', I, f'Installer.{fn_}', variant=f'entries{k_}', params={'self': InstK, 'd': DataK, 'dm': Obj, 'destdir': Str, 'fullprefix': Str},
                     ensures=ens, effects={'get_destdir_path': {'returns': Str, 'raises': []}},
                     method_effects={'should_install': {'returns': Bool, 'raises': []}, 'do_copyfile': {'returns': Bool, 'raises': []}, 'set_mode': []},
                     modifies=['self.did_install_something'], floor=4 + 2 * k_,
                     note=f'{k_} entr{"y" if k_ == 1 else "ies"}: each selected entry is copied from its source to its destination (' + ('the header directory joined with the base name of the source' if hdr_ else 'computed from destdir, prefix and its install path') + ') and then set_mode(destination, its install_mode, install_umask) is applied — also when the copy reports that nothing had to be done; something was installed iff some copy says so')

# ---- install_symlinks / install_subdirs, one entry
LN = "[e for e in __trace__ if e[0] == 'do_symlink']"
CD = "[e for e in __trace__ if e[0] == 'do_copydir']"
LinkS = Struct('InstallSymlinkData', 'mesonbuild.backend.backends:InstallSymlinkData', target=Str, name=Str, install_path=Str, subproject=Str, tag=Opt(Str))
REG.contract('C11', I, 'Installer.install_symlinks', variant='entries1',
             params={'self': Struct('Installer', 'mesonbuild.minstall:Installer', did_install_something=Bool),
                     'd': Struct('InstallData', 'mesonbuild.backend.backends:InstallData', symlinks=TupleS(LinkS)), 'dm': Obj, 'destdir': Str, 'fullprefix': Str},
             ensures=[f"len({SI}) == 1 and {SI}[0][1] is d.symlinks[0]",
                      f"implies(not {SI}[0][-1], len({GD}) == 0 and len({MK}) == 0 and len({LN}) == 0)",
                      f"implies({SI}[0][-1], len({GD}) == 2 and len({MK}) == 1 and len({LN}) == 1)",
                      f"({GD}[0][1] == destdir and {GD}[0][2] == fullprefix and {GD}[0][3] == d.symlinks[0].install_path and {GD}[1][1] == destdir and {GD}[1][2] == fullprefix and {GD}[1][3] == d.symlinks[0].name) if len({GD}) == 2 else True",
                      f"({MK}[0][1] is dm and {MK}[0][2] == {GD}[0][-1] and kw({MK}[0], 'exist_ok', False) is True) if len({GD}) == 2 and len({MK}) == 1 else True",
                      # the link is created with EXACTLY the declared target text (never resolved, never re-rooted) under the re-rooted name
                      f"({LN}[0][1] == d.symlinks[0].target and {LN}[0][2] == {GD}[1][-1] and {LN}[0][3] == destdir and {LN}[0][4] == {GD}[0][-1]) if len({GD}) == 2 and len({LN}) == 1 else True",
                      f"new(self).did_install_something == (self.did_install_something or ({LN}[0][-1] if len({LN}) == 1 else False))"],
             effects={'get_destdir_path': {'returns': Str, 'raises': []}},
             method_effects={'should_install': {'returns': Bool, 'raises': []}, 'do_symlink': {'returns': Bool, 'raises': []}, 'makedirs': []},
             modifies=['self.did_install_something'], floor=7,
             note='a selected symlink: its directory (re-rooted) is created, then the link is made under its re-rooted name with exactly the declared target text')
SubS = Struct('SubdirInstallData', 'mesonbuild.backend.backends:SubdirInstallData', path=Str, install_path=Str, install_mode=Obj, subproject=Str, tag=Opt(Str), follow_symlinks=Opt(Bool), exclude=Obj)
REG.contract('C11', I, 'Installer.install_subdirs', variant='entries1',
             params={'self': Struct('Installer', 'mesonbuild.minstall:Installer', did_install_something=Bool),
                     'd': Struct('InstallData', 'mesonbuild.backend.backends:InstallData', install_subdirs=TupleS(SubS)), 'dm': Obj, 'destdir': Str, 'fullprefix': Str},
             ensures=[f"len({SI}) == 1 and {SI}[0][1] is d.install_subdirs[0]",
                      f"implies(not {SI}[0][-1], len({GD}) == 0 and len({MK}) == 0 and len({CD}) == 0 and new(self).did_install_something == self.did_install_something)",
                      f"implies({SI}[0][-1], len({GD}) == 1 and len({MK}) == 1 and len({CD}) == 1 and new(self).did_install_something)",
                      f"({GD}[0][1] == destdir and {GD}[0][2] == fullprefix and {GD}[0][3] == d.install_subdirs[0].install_path and {MK}[0][2] == {GD}[0][-1]) if len({GD}) == 1 and len({MK}) == 1 else True",
                      f"({CD}[0][1] is d and {CD}[0][2] == d.install_subdirs[0].path and {CD}[0][3] == {GD}[0][-1] and {CD}[0][4] is d.install_subdirs[0].exclude and {CD}[0][5] is d.install_subdirs[0].install_mode and {CD}[0][6] is dm) if len({GD}) == 1 and len({CD}) == 1 else True",
                      f"(kw({CD}[0], 'follow_symlinks', 0) is d.install_subdirs[0].follow_symlinks) if len({CD}) == 1 else True"],
             effects={'get_destdir_path': {'returns': Str, 'raises': []}},
             method_effects={'should_install': {'returns': Bool, 'raises': []}, 'do_copydir': [], 'makedirs': [], 'log': []},
             modifies=['self.did_install_something'], floor=6,
             note='a selected subdirectory: its destination (re-rooted) is created and the tree is copied there with ITS excludes, mode and follow_symlinks setting')

# ---- uninstall: each logged path is removed by ONE call that matches what the path is — a directory by rmdir, anything else
# (a file, a symbolic link whatever it points to) by unlink; a failure is counted, never fatal
UN = 'mesonbuild/scripts/uninstall.py'
RM = "[e for e in __trace__ if e[0] in ('rmdir', 'unlink')]"
ISD = "[e for e in __trace__ if e[0] == 'isdir']"
ISL = "[e for e in __trace__ if e[0] == 'islink']"
REG.contract('C11', UN, 'do_uninstall', variant='one-entry', region=('Try', 'os.rmdir(fname)'),
             params={'fname': Str, 'failures': Int, 'successes': Int},
             ensures=[f"len({RM}) == 1 and {RM}[0][1] == fname",
                      f"len({ISD}) == 1 and {ISD}[0][1] == fname",
                      # a symbolic link is never treated as a directory, whatever it points to
                      f"({RM}[0][0] == 'rmdir') == ({ISD}[0][-1] and len({ISL}) == 1 and not {ISL}[0][-1])",
                      f"all(e[1] == fname for e in {ISL})",
                      "final('successes') + final('failures') == successes + failures + 1",
                      f"(final('failures') == failures + 1) == (len([e for e in __trace__ if e[0] == 'raised']) == 1)"],
             effects={'isdir': {'returns': Bool, 'raises': []}, 'islink': {'returns': Bool, 'raises': []}, 'rmdir': ['OSError'], 'unlink': ['OSError']},
             floor=6, note='one logged path: removed with rmdir iff it is a real directory (not a link to one), with unlink otherwise; the outcome is counted as a success or a failure, and the loop goes on either way')

# ---- do_copydir, the per-file half of the walk: a missing parent directory is created THROUGH THE DirMaker (which records it for the
# install log, so that uninstall removes it) and never behind its back; every file that is not excluded is copied and then gets its mode.
# A loop over the files of one directory of the walk, for any number of files (invariant over ghost sequences of the effects).
CopyS = Struct('Installer', 'mesonbuild.minstall:Installer')
REG.contract('C11', I, 'Installer.do_copydir', variant='files-of-one-directory', region=('For', 'if filepart in exclude_files'),
             params={'self': CopyS, 'data': Struct('InstallData', 'mesonbuild.backend.backends:InstallData', install_umask=Int), 'root': Str, 'files': List(Str),
                     'src_dir': Str, 'dst_dir': Str, 'exclude_files': Set(Str), 'install_mode': Obj, 'dm': Obj, 'follow_symlinks': Opt(Bool)},
             ensures=["len(own) == 0",
                      "len(cpd) == len(smp) and len(smm) == len(smp) and len(smu) == len(smp)",
                      "smp == cpd", "forall(Int, lambda k: implies(0 <= k and k < len(smm), smm[k] is install_mode and smu[k] == data.install_umask))",
                      "forall(Int, lambda k: implies(0 <= k and k < len(mkr), mkr[k] is dm))",
                      "len(cpd) <= len(files)"],
             raises={'SystemExit': 'True'}, exact_raises=False,
             loops={'for f in files': Loop(invariant=["len(own) == 0", "len(cpd) == len(smp) and len(smm) == len(smp) and len(smu) == len(smp) and len(cpd) <= __i",
                                                      "smp == cpd", "forall(Int, lambda k: implies(0 <= k and k < len(smm), smm[k] is install_mode and smu[k] == data.install_umask))",
                                                      "forall(Int, lambda k: implies(0 <= k and k < len(mkr), mkr[k] is dm))"],
                                           locals={'abs_src': Str, 'filepart': Str, 'abs_dst': Str, 'parent_dir': Str})},
             ghost_seqs={'own': ('self.makedirs', None, Int), 'mkr': ('makedirs', 1, Obj), 'cpd': ('do_copyfile', 2, Str),
                         'smp': ('set_mode', 1, Str), 'smm': ('set_mode', 2, Obj), 'smu': ('set_mode', 3, Int)},
             effects={'isdir': {'returns': Bool, 'raises': []}}, opaque_fns={'relpath': ([Str, Opt(Str)], Str)},
             method_effects={'self.makedirs': [], 'makedirs': [], 'copystat': [], 'do_copyfile': {'returns': Bool, 'raises': []}, 'set_mode': []},
             floor=6, note='the per-file loop of do_copydir for one directory of the walk: no directory is created except through the DirMaker; each copied file then gets set_mode(destination, install_mode, install_umask)')

# ---- install_emptydir for ANY number of entries (loop invariant over ghost sequences of the effects).  bs = the answers of
# should_install in order; entry k, if selected, is the nsel(bs, k)-th installed one: its destination is computed from (destdir,
# prefix, ITS path), that directory is created through the DirMaker and gets set_mode(destination, ITS install_mode, install_umask).
import specs.install, lemmas.install
_LINK_E = ("forall(Int, lambda k: implies(0 <= k and k < len(bs) and bs[k], 0 <= nsel(bs, k) and nsel(bs, k) < len(gdp) and "
           "gdp[nsel(bs, k)] == attr_path(d.emptydir[k]) and smm[nsel(bs, k)] is attr_install_mode(d.emptydir[k])))")
_SHAPE_E = ("len(gdp) == nsel(bs, len(bs)) and len(gdr) == len(gdp) and len(mkp) == len(gdp) and len(mkd) == len(gdp) and len(smp) == len(gdp) "
            "and len(smm) == len(gdp) and len(smu) == len(gdp) and len(gdd) == len(gdp) and len(gdf) == len(gdp)")
_EACH_E = ("forall(Int, lambda j: implies(0 <= j and j < len(gdp), mkd[j] is dm and mkp[j] == gdr[j] and smp[j] == gdr[j] and smu[j] == d.install_umask "
           "and gdd[j] == destdir and gdf[j] == fullprefix))")
REG.contract('C11', I, 'Installer.install_emptydir', variant='any-number',
             params={'self': Struct('Installer', 'mesonbuild.minstall:Installer', did_install_something=Bool),
                     'd': Struct('InstallData', 'mesonbuild.backend.backends:InstallData', emptydir=List(Obj), install_umask=Int),
                     'dm': Obj, 'destdir': Str, 'fullprefix': Str},
             ensures=["len(sia) == len(d.emptydir) and len(bs) == len(d.emptydir)",
                      "forall(Int, lambda k: implies(0 <= k and k < len(d.emptydir), sia[k] is d.emptydir[k]))",
                      _SHAPE_E, _EACH_E, _LINK_E,
                      "new(self).did_install_something == (self.did_install_something or len(gdp) > 0)"],
             raises={'SystemExit': 'True'}, exact_raises=False,
             loops={0: Loop(invariant=["len(sia) == __i and len(bs) == __i", "forall(Int, lambda k: implies(0 <= k and k < __i, sia[k] is d.emptydir[k]))",
                                       _SHAPE_E, _EACH_E, _LINK_E,
                                       "self.did_install_something == (old_self.did_install_something or len(gdp) > 0)"],
                            locals={'e': Obj, 'full_dst_dir': Str})},
             ghost_seqs={'sia': ('should_install', 1, Obj), 'bs': ('should_install', -1, Bool),
                         'gdd': ('get_destdir_path', 1, Str), 'gdf': ('get_destdir_path', 2, Str), 'gdp': ('get_destdir_path', 3, Str), 'gdr': ('get_destdir_path', -1, Str),
                         'mkd': ('makedirs', 1, Obj), 'mkp': ('makedirs', 2, Str),
                         'smp': ('set_mode', 1, Str), 'smm': ('set_mode', 2, Obj), 'smu': ('set_mode', 3, Int)},
             opaque_attrs={'path': Str, 'install_mode': Obj},
             effects={'get_destdir_path': {'returns': Str, 'raises': []}, 'isfile': {'returns': Bool, 'raises': []}},
             method_effects={'should_install': {'returns': Bool, 'raises': []}, 'log': [], 'makedirs': [], 'set_mode': []},
             modifies=['self.did_install_something'], floor=6, shards=4,
             uses=[('L11.nsel_prefix', {'bs': '*', 'x': '*', 'n': '*'}), ('L11.nsel_unfold', {'bs': '*', 'n': '*'}), ('L11.nsel_range', {'bs': '*', 'n': '*'})],
             note='ANY number of entries: should_install is asked for every entry in order; each selected entry gets its destination computed from (destdir, prefix, its path), the directory created through the DirMaker and then set_mode(destination, its install_mode, install_umask) — whether or not the directory existed')

# ---- install_data / install_man / install_headers for ANY number of entries: entry k, if selected, is the nsel(bs, k)-th copied one:
# its source is ITS path, its destination is computed from (destdir, prefix, ITS install path), missing directories are made through
# the DirMaker, and then set_mode(destination, ITS install_mode, install_umask) — whatever the copy reports.  Something counts as
# installed iff some copy says so (cpr = the answers of do_copyfile).
for fn_, field_, hdr_, var_ in (('install_data', 'data', False, 'i'), ('install_man', 'man', False, 'm'), ('install_headers', 'headers', True, 't')):
    E_ = f"d.{field_}"
    DST_ = "os.path.join(gdr[j], os.path.basename(cps[j]))" if hdr_ else "gdr[j]"
    DIR_ = "gdr[j]" if hdr_ else "os.path.dirname(gdr[j])"
    _SHAPE = ("len(gdp) == nsel(bs, len(bs)) and len(gdr) == len(gdp) and len(cps) == len(gdp) and len(cpd) == len(gdp) and len(cpr) == len(gdp) and len(cmd) == len(gdp) "
              "and len(cmo) == len(gdp) and len(smp) == len(gdp) and len(smm) == len(gdp) and len(smu) == len(gdp) and len(gdd) == len(gdp) and len(gdf) == len(gdp)")
    _EACHS = [f"forall(Int, lambda j: implies(0 <= j and j < len(gdp), {c_}))" for c_ in
              (f"cpd[j] == {DST_}", f"smp[j] == {DST_}", f"cmd[j] is dm and cmo[j] == {DIR_}", "smu[j] == d.install_umask", "gdd[j] == destdir and gdf[j] == fullprefix")]
    _LINK = (f"forall(Int, lambda k: implies(0 <= k and k < len(bs) and bs[k], 0 <= nsel(bs, k) and nsel(bs, k) < len(gdp) and "
             f"gdp[nsel(bs, k)] == attr_install_path({E_}[k]) and cps[nsel(bs, k)] == attr_path({E_}[k]) and smm[nsel(bs, k)] is attr_install_mode({E_}[k])))")
    REG.contract('C11', I, f'Installer.{fn_}', variant='any-number',
                 params={'self': Struct('Installer', 'mesonbuild.minstall:Installer', did_install_something=Bool),
                         'd': Struct('InstallData', 'mesonbuild.backend.backends:InstallData', install_umask=Int, **{field_: List(Obj)}),
                         'dm': Obj, 'destdir': Str, 'fullprefix': Str},
                 ensures=[f"len(sia) == len({E_}) and len(bs) == len({E_})",
                          f"forall(Int, lambda k: implies(0 <= k and k < len({E_}), sia[k] is {E_}[k]))",
                          _SHAPE, *_EACHS, _LINK,
                          "new(self).did_install_something == (self.did_install_something or nsel(cpr, len(cpr)) > 0)"],
                 loops={0: Loop(invariant=["len(sia) == __i and len(bs) == __i", f"forall(Int, lambda k: implies(0 <= k and k < __i, sia[k] is {E_}[k]))",
                                           _SHAPE, *_EACHS, _LINK,
                                           "self.did_install_something == (old_self.did_install_something or nsel(cpr, len(cpr)) > 0)"],
                                locals={var_: Obj, 'fullfilename': Str, 'full_source_filename': Str, 'outfilename': Str, 'outdir': Str, 'fname': Str})},
                 ghost_seqs={'sia': ('should_install', 1, Obj), 'bs': ('should_install', -1, Bool),
                             'gdd': ('get_destdir_path', 1, Str), 'gdf': ('get_destdir_path', 2, Str), 'gdp': ('get_destdir_path', 3, Str), 'gdr': ('get_destdir_path', -1, Str),
                             'cps': ('do_copyfile', 1, Str), 'cpd': ('do_copyfile', 2, Str), 'cpr': ('do_copyfile', -1, Bool),
                             'cmd': ('do_copyfile', ('makedirs', 0), Obj), 'cmo': ('do_copyfile', ('makedirs', 1), Str),
                             'smp': ('set_mode', 1, Str), 'smm': ('set_mode', 2, Obj), 'smu': ('set_mode', 3, Int)},
                 opaque_attrs={'path': Str, 'install_path': Str, 'install_mode': Obj, 'follow_symlinks': Opt(Bool)},
                 effects={'get_destdir_path': {'returns': Str, 'raises': []}},
                 method_effects={'should_install': {'returns': Bool, 'raises': []}, 'do_copyfile': {'returns': Bool, 'raises': []}, 'set_mode': []},
                 modifies=['self.did_install_something'], floor=6, shards=4,
                 uses=[('L11.nsel_prefix', {'bs': '*', 'x': '*', 'n': '*'}), ('L11.nsel_unfold', {'bs': '*', 'n': '*'}), ('L11.nsel_range', {'bs': '*', 'n': '*'})],
                 note='ANY number of entries: should_install is asked for every entry in order; each selected entry is copied from its source to its destination (' + ('the header directory joined with the base name of the source' if hdr_ else 'computed from destdir, prefix and its install path') + '), directories being made through the DirMaker, and then set_mode(destination, its install_mode, install_umask) is applied — also when the copy reports that nothing had to be done; something was installed iff some copy says so')

# ---- install_subdirs for ANY number of entries: entry k, if selected, is the nsel(bs, k)-th copied tree: its destination is computed
# from (destdir, prefix, ITS install path) and created through the DirMaker, and the tree is copied there from ITS source with ITS
# excludes, ITS mode and ITS follow_symlinks setting.
_SHAPE_S = ("len(gdp) == nsel(bs, len(bs)) and len(gdr) == len(gdp) and len(mkd) == len(gdp) and len(mkp) == len(gdp) and len(cdd) == len(gdp) and len(cds) == len(gdp) "
            "and len(cdt) == len(gdp) and len(cdx) == len(gdp) and len(cdm) == len(gdp) and len(cdk) == len(gdp) and len(cdf) == len(gdp) and len(gdd) == len(gdp) and len(gdf) == len(gdp)")
_EACHS_S = [f"forall(Int, lambda j: implies(0 <= j and j < len(gdp), {c_}))" for c_ in
            ("mkd[j] is dm and mkp[j] == gdr[j]", "cdt[j] == gdr[j] and cdd[j] is d and cdk[j] is dm", "gdd[j] == destdir and gdf[j] == fullprefix")]
_LINK_S = ("forall(Int, lambda k: implies(0 <= k and k < len(bs) and bs[k], 0 <= nsel(bs, k) and nsel(bs, k) < len(gdp) and "
           "gdp[nsel(bs, k)] == attr_install_path(d.install_subdirs[k]) and cds[nsel(bs, k)] == attr_path(d.install_subdirs[k]) and "
           "cdx[nsel(bs, k)] is attr_exclude(d.install_subdirs[k]) and cdm[nsel(bs, k)] is attr_install_mode(d.install_subdirs[k]) and "
           "cdf[nsel(bs, k)] == attr_follow_symlinks(d.install_subdirs[k])))")
REG.contract('C11', I, 'Installer.install_subdirs', variant='any-number',
             params={'self': Struct('Installer', 'mesonbuild.minstall:Installer', did_install_something=Bool),
                     'd': Struct('InstallData', 'mesonbuild.backend.backends:InstallData', install_subdirs=List(Obj)), 'dm': Obj, 'destdir': Str, 'fullprefix': Str},
             ensures=["len(sia) == len(d.install_subdirs) and len(bs) == len(d.install_subdirs)",
                      "forall(Int, lambda k: implies(0 <= k and k < len(d.install_subdirs), sia[k] is d.install_subdirs[k]))",
                      _SHAPE_S, *_EACHS_S, _LINK_S,
                      "new(self).did_install_something == (self.did_install_something or len(gdp) > 0)"],
             loops={0: Loop(invariant=["len(sia) == __i and len(bs) == __i", "forall(Int, lambda k: implies(0 <= k and k < __i, sia[k] is d.install_subdirs[k]))",
                                       _SHAPE_S, *_EACHS_S, _LINK_S,
                                       "self.did_install_something == (old_self.did_install_something or len(gdp) > 0)"],
                            locals={'i': Obj, 'full_dst_dir': Str})},
             ghost_seqs={'sia': ('should_install', 1, Obj), 'bs': ('should_install', -1, Bool),
                         'gdd': ('get_destdir_path', 1, Str), 'gdf': ('get_destdir_path', 2, Str), 'gdp': ('get_destdir_path', 3, Str), 'gdr': ('get_destdir_path', -1, Str),
                         'mkd': ('makedirs', 1, Obj), 'mkp': ('makedirs', 2, Str),
                         'cdd': ('do_copydir', 1, Obj), 'cds': ('do_copydir', 2, Str), 'cdt': ('do_copydir', 3, Str), 'cdx': ('do_copydir', 4, Obj),
                         'cdm': ('do_copydir', 5, Obj), 'cdk': ('do_copydir', 6, Obj), 'cdf': ('do_copydir', 'follow_symlinks', Bool)},
             opaque_attrs={'path': Str, 'install_path': Str, 'install_mode': Obj, 'exclude': Obj, 'follow_symlinks': Bool},
             effects={'get_destdir_path': {'returns': Str, 'raises': []}},
             method_effects={'should_install': {'returns': Bool, 'raises': []}, 'do_copydir': [], 'makedirs': [], 'log': []},
             modifies=['self.did_install_something'], floor=6, shards=4,
             uses=[('L11.nsel_prefix', {'bs': '*', 'x': '*', 'n': '*'}), ('L11.nsel_unfold', {'bs': '*', 'n': '*'}), ('L11.nsel_range', {'bs': '*', 'n': '*'})],
             note='ANY number of entries: each selected subdirectory gets its destination (re-rooted) created through the DirMaker and its tree copied there with ITS excludes, mode and follow_symlinks setting (follow_symlinks read as a two-valued setting here; the one-entry contract covers None)')

# ---- install_symlinks for ANY number of entries: two destination computations per selected entry (directory, link name)
_SHAPE_L = ("len(lnt) == nsel(bs, len(bs)) and len(gdp) == 2 * len(lnt) and len(gdr) == len(gdp) and len(gdd) == len(gdp) and len(gdf) == len(gdp) and len(mkd) == len(lnt) "
            "and len(mkp) == len(lnt) and len(lnn) == len(lnt) and len(lnd) == len(lnt) and len(lnf) == len(lnt) and len(lnr) == len(lnt)")
_EACHS_L = [f"forall(Int, lambda j: implies(0 <= j and j < len(lnt), {c_}))" for c_ in
            ("mkd[j] is dm and mkp[j] == gdr[2 * j]", "lnn[j] == gdr[2 * j + 1] and lnd[j] == destdir and lnf[j] == gdr[2 * j]")] + \
           ["forall(Int, lambda j: implies(0 <= j and j < len(gdp), gdd[j] == destdir and gdf[j] == fullprefix))"]
_LINK_L = ("forall(Int, lambda k: implies(0 <= k and k < len(bs) and bs[k], 0 <= nsel(bs, k) and nsel(bs, k) < len(lnt) and "
           "gdp[2 * nsel(bs, k)] == attr_install_path(d.symlinks[k]) and gdp[2 * nsel(bs, k) + 1] == attr_name(d.symlinks[k]) and "
           "lnt[nsel(bs, k)] == attr_target(d.symlinks[k])))")
REG.contract('C11', I, 'Installer.install_symlinks', variant='any-number',
             params={'self': Struct('Installer', 'mesonbuild.minstall:Installer', did_install_something=Bool),
                     'd': Struct('InstallData', 'mesonbuild.backend.backends:InstallData', symlinks=List(Obj)), 'dm': Obj, 'destdir': Str, 'fullprefix': Str},
             ensures=["len(sia) == len(d.symlinks) and len(bs) == len(d.symlinks)",
                      "forall(Int, lambda k: implies(0 <= k and k < len(d.symlinks), sia[k] is d.symlinks[k]))",
                      _SHAPE_L, *_EACHS_L, _LINK_L,
                      "new(self).did_install_something == (self.did_install_something or nsel(lnr, len(lnr)) > 0)"],
             loops={0: Loop(invariant=["len(sia) == __i and len(bs) == __i", "forall(Int, lambda k: implies(0 <= k and k < __i, sia[k] is d.symlinks[k]))",
                                       _SHAPE_L, *_EACHS_L, _LINK_L,
                                       "self.did_install_something == (old_self.did_install_something or nsel(lnr, len(lnr)) > 0)"],
                            locals={'s': Obj, 'full_dst_dir': Str, 'full_link_name': Str})},
             ghost_seqs={'sia': ('should_install', 1, Obj), 'bs': ('should_install', -1, Bool),
                         'gdd': ('get_destdir_path', 1, Str), 'gdf': ('get_destdir_path', 2, Str), 'gdp': ('get_destdir_path', 3, Str), 'gdr': ('get_destdir_path', -1, Str),
                         'mkd': ('makedirs', 1, Obj), 'mkp': ('makedirs', 2, Str),
                         'lnt': ('do_symlink', 1, Str), 'lnn': ('do_symlink', 2, Str), 'lnd': ('do_symlink', 3, Str), 'lnf': ('do_symlink', 4, Str), 'lnr': ('do_symlink', -1, Bool)},
             opaque_attrs={'target': Str, 'name': Str, 'install_path': Str},
             effects={'get_destdir_path': {'returns': Str, 'raises': []}},
             method_effects={'should_install': {'returns': Bool, 'raises': []}, 'do_symlink': {'returns': Bool, 'raises': []}, 'makedirs': []},
             modifies=['self.did_install_something'], floor=6, shards=4,
             uses=[('L11.nsel_prefix', {'bs': '*', 'x': '*', 'n': '*'}), ('L11.nsel_unfold', {'bs': '*', 'n': '*'}), ('L11.nsel_range', {'bs': '*', 'n': '*'})],
             note='ANY number of entries: each selected symlink: its directory (re-rooted) is created through the DirMaker, then the link is made under its re-rooted name with exactly the declared target text; something was installed iff some do_symlink says so')
