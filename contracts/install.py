"""C11 — contracts on mesonbuild/minstall.py (permission handling, tag/subproject filter, DESTDIR re-rooting)"""
from pyvc.api import Int, Bool, Str, Seq, Struct, Loop, Opt, List, Set, Obj, Const, Dict
from contracts import REG

I = 'mesonbuild/minstall.py'
EV = "[e for e in __trace__ if e[0] in ('set_chmod', 'set_chown', 'sanitize_permissions')]"
REG.contract('C11', I, 'sanitize_permissions', variant='preserve', params={'path': Str, 'umask': Const('preserve')},
             ensures=[f"len({EV}) == 0"], effects={'set_chmod': ['PermissionError']}, opaque_fns={'is_executable': ([Str], Bool)}, floor=1,
             note="install_umask 'preserve': permissions are left alone")
REG.contract('C11', I, 'sanitize_permissions', variant='umask', params={'path': Str, 'umask': Int},
             ensures=[f"len({EV}) == 1 and {EV}[0][0] == 'set_chmod' and {EV}[0][1] == path",
                      f"{EV}[0][2] == ((0o777 if fn_is_executable(path) else 0o666) & ~umask)",
                      # the installed path itself, never what a symbolic link points to (which may lie outside DESTDIR)
                      f"kw({EV}[0], 'follow_symlinks', True) is False"],
             effects={'set_chmod': ['PermissionError']}, opaque_fns={'is_executable': ([Str], Bool)}, floor=4,
             note='default permissions (0777 for executables, 0666 otherwise) masked by the umask; a PermissionError is reported, not fatal')

ModeS = Struct('FileMode', 'mesonbuild.utils.universal:FileMode', perms_s=Opt(Str), owner=Opt(Obj), group=Opt(Obj), perms=Int)
EFF = {'set_chmod': ['PermissionError'], 'set_chown': ['PermissionError', 'LookupError'], 'sanitize_permissions': []}
PLAIN = '(mode is None or (mode.perms_s is None and mode.owner is None and mode.group is None))'
REG.contract('C11', I, 'set_mode', params={'path': Str, 'mode': Opt(ModeS), 'default_umask': Int},
             ensures=[
                 # no install_mode: default permissions masked by install_umask
                 f"implies({PLAIN}, len({EV}) == 1 and {EV}[0][0] == 'sanitize_permissions' and {EV}[0][1] == path and {EV}[0][2] == default_umask)",
                 # declared owner/group: chown first
                 f"implies(not {PLAIN} and (mode.owner is not None or mode.group is not None), {EV}[0][0] == 'set_chown' and {EV}[0][1] == path and len({EV}) == 2)",
                 f"implies(not {PLAIN} and mode.owner is None and mode.group is None, len({EV}) == 1)",
                 # then the declared permissions, or else the default ones masked by install_umask
                 f"implies(not {PLAIN} and mode.perms_s is not None, {EV}[-1][0] == 'set_chmod' and {EV}[-1][1] == path and {EV}[-1][2] == mode.perms)",
                 f"implies(not {PLAIN} and mode.perms_s is None, {EV}[-1][0] == 'sanitize_permissions' and {EV}[-1][1] == path and {EV}[-1][2] == default_umask)",
             ],
             effects=EFF, floor=10,
             note='ownership before permissions (chmod after chown keeps setuid/setgid bits); permissions are the declared install_mode or else the defaults masked by install_umask — in EVERY case')
REG.contract('C11', 'mesonbuild/utils/universal.py', 'is_windows', variant='c11', inline=True, trusted=True, note='platform test evaluated concretely (non-Windows)')

DataS = Struct('InstallDataBase', 'mesonbuild.backend.backends:InstallDataBase', subproject=Str, tag=Opt(Str))
InstS = Struct('Installer', 'mesonbuild.minstall:Installer', skip_subprojects=List(Str), tags=Opt(List(Str)))
REG.contract('C11', I, 'Installer.should_install', params={'self': InstS, 'd': DataS},
             ensures=["result == (not (d.subproject != '' and (d.subproject in self.skip_subprojects or '*' in self.skip_subprojects)) and not (self.tags is not None and len(self.tags) > 0 and d.tag not in self.tags))"],
             floor=3, note='skipped iff its subproject is skipped (or all are), or tags were requested and its tag is not among them')
REG.contract('C11', I, 'get_destdir_path', params={'destdir': Str, 'fullprefix': Str, 'path': Str},
             ensures=['implies(fn_path_has_root(path), result == fn_destdir_join(destdir, path))',
                      'implies(not fn_path_has_root(path), result == os.path.join(fullprefix, path))'],
             opaque_fns={'path_has_root': ([Str], Bool), 'destdir_join': ([Str, Str], Str)}, floor=2,
             note='absolute destinations are re-rooted under DESTDIR, relative ones go under the (already DESTDIR-prefixed) prefix')

# ---- install_emptydir: every selected empty directory is created AND gets its declared mode — whether or not the directory
# already exists (another rule may have created it, or an earlier install).  The loop is unrolled: the contract is stated for
# 0, 1 and 2 entries with arbitrary contents (the iterations are independent: the only state carried over is
# did_install_something); longer lists are covered by the bounded install layer.
from pyvc.api import TupleS
EmptyS = Struct('InstallEmptyDir', 'mesonbuild.backend.backends:InstallEmptyDir', path=Str, install_mode=Obj, subproject=Str, tag=Opt(Str))
SI = "[e for e in __trace__ if e[0] == 'should_install']"
GD = "[e for e in __trace__ if e[0] == 'get_destdir_path']"
MK = "[e for e in __trace__ if e[0] == 'makedirs']"
SM = "[e for e in __trace__ if e[0] == 'set_mode']"
for k_ in (0, 1, 2):
    DataK = Struct('InstallData', 'mesonbuild.backend.backends:InstallData', emptydir=TupleS(*([EmptyS] * k_)), install_umask=Int)
    InstK = Struct('Installer', 'mesonbuild.minstall:Installer', did_install_something=Bool)
    ens = [f"len({SI}) == {k_}"] + [f"{SI}[{j}][1] is d.emptydir[{j}]" for j in range(k_)]
    # every directory whose path was computed is created and gets a mode: same number of events, pairwise the same path
    ens += [f"len({MK}) == len({GD}) and len({SM}) == len({GD})",
            f"all({MK}[i][1] is dm and {MK}[i][2] == {GD}[i][-1] and {SM}[i][1] == {GD}[i][-1] and {SM}[i][3] == d.install_umask for i in range(len({GD})))",
            f"all(kw({MK}[i], 'exist_ok', False) is True for i in range(len({MK})))",
            f"all({GD}[i][1] == destdir and {GD}[i][2] == fullprefix for i in range(len({GD})))"]
    if k_ == 1:
        ens += [f"implies({SI}[0][-1], len({GD}) == 1)", f"implies(not {SI}[0][-1], len({GD}) == 0)",
                f"({GD}[0][3] == d.emptydir[0].path and {SM}[0][2] is d.emptydir[0].install_mode) if len({GD}) == 1 else True"]
    if k_ == 2:
        ens += [f"len({GD}) == (1 if {SI}[0][-1] else 0) + (1 if {SI}[1][-1] else 0)",
                f"({GD}[0][3] == d.emptydir[0].path and {SM}[0][2] is d.emptydir[0].install_mode and {GD}[1][3] == d.emptydir[1].path and {SM}[1][2] is d.emptydir[1].install_mode) if len({GD}) == 2 else True",
                f"implies({SI}[0][-1], {GD}[0][3] == d.emptydir[0].path and {SM}[0][2] is d.emptydir[0].install_mode) if len({GD}) == 1 else True",
                f"implies(not {SI}[0][-1], {GD}[0][3] == d.emptydir[1].path and {SM}[0][2] is d.emptydir[1].install_mode) if len({GD}) == 1 else True"]
    ens += [f"new(self).did_install_something == (self.did_install_something or len({GD}) > 0)"]
    REG.contract('C11', I, 'Installer.install_emptydir', variant=f'entries{k_}', params={'self': InstK, 'd': DataK, 'dm': Obj, 'destdir': Str, 'fullprefix': Str},
                 ensures=ens, raises={'SystemExit': 'True'}, exact_raises=False,
                 effects={'get_destdir_path': {'returns': Str, 'raises': []}},
                 method_effects={'should_install': {'returns': Bool, 'raises': []}, 'log': [], 'isfile': {'returns': Bool, 'raises': []}, 'makedirs': [], 'set_mode': []},
                 modifies=['self.did_install_something'], floor=max(3, 3 * k_),
                 note=f'{k_} entr{"y" if k_ == 1 else "ies"}: each selected entry: destination computed from (destdir, prefix, path), directory created with exist_ok, then set_mode(destination, its install_mode, install_umask) — always, also when the directory exists already; an existing FILE of that name aborts the installation')

# ---- install_data / install_man / install_headers: every selected entry is copied to its destination and then gets its mode,
# whether or not the copy did anything (an up-to-date file still gets the declared mode).  Unrolled for 1 and 2 entries.
CP = "[e for e in __trace__ if e[0] == 'do_copyfile']"
FileS = Struct('InstallDataBase', 'mesonbuild.backend.backends:InstallDataBase', path=Str, install_path=Str, install_mode=Obj, subproject=Str, tag=Opt(Str), follow_symlinks=Opt(Bool))
for fn_, field_, hdr_ in (('install_data', 'data', False), ('install_man', 'man', False), ('install_headers', 'headers', True)):
    for k_ in (1, 2):
        DataK = Struct('InstallData', 'mesonbuild.backend.backends:InstallData', install_umask=Int, **{field_: TupleS(*([FileS] * k_))})
        InstK = Struct('Installer', 'mesonbuild.minstall:Installer', did_install_something=Bool)
        OUT = (lambda i: f"os.path.join({GD}[{i}][-1], os.path.basename({CP}[{i}][1]))") if hdr_ else (lambda i: f"{GD}[{i}][-1]")
        ens = [f"len({SI}) == {k_}", f"len({CP}) == len({GD}) and len({SM}) == len({GD})",
               f"all({GD}[i][1] == destdir and {GD}[i][2] == fullprefix for i in range(len({GD})))"]
        for n_ in range(1, k_ + 1):
            guard = f"len({GD}) >= {n_}"
            i = n_ - 1
            ens += [f"({CP}[{i}][2] == {OUT(i)} and {SM}[{i}][1] == {OUT(i)} and {SM}[{i}][3] == d.install_umask) if {guard} else True",
                    f"(kw({CP}[{i}], 'makedirs', None)[0] is dm) if {guard} else True"]
        E = f"d.{field_}"
        if k_ == 1:
            ens += [f"len({GD}) == (1 if {SI}[0][-1] else 0)",
                    f"({GD}[0][3] == {E}[0].install_path and {CP}[0][1] == {E}[0].path and {SM}[0][2] is {E}[0].install_mode) if len({GD}) == 1 else True"]
        else:
            ens += [f"len({GD}) == (1 if {SI}[0][-1] else 0) + (1 if {SI}[1][-1] else 0)",
                    f"({GD}[0][3] == {E}[0].install_path and {CP}[0][1] == {E}[0].path and {SM}[0][2] is {E}[0].install_mode and {GD}[1][3] == {E}[1].install_path and {CP}[1][1] == {E}[1].path and {SM}[1][2] is {E}[1].install_mode) if len({GD}) == 2 else True",
                    f"implies({SI}[0][-1], {GD}[0][3] == {E}[0].install_path and {CP}[0][1] == {E}[0].path and {SM}[0][2] is {E}[0].install_mode) if len({GD}) == 1 else True",
                    f"implies(not {SI}[0][-1], {GD}[0][3] == {E}[1].install_path and {CP}[0][1] == {E}[1].path and {SM}[0][2] is {E}[1].install_mode) if len({GD}) == 1 else True"]
        anycp = ' or '.join(f"({CP}[{i}][-1] if len({CP}) > {i} else False)" for i in range(k_))
        ens += [f"new(self).did_install_something == (self.did_install_something or {anycp})"]
        REG.contract('C11', I, f'Installer.{fn_}', variant=f'entries{k_}', params={'self': InstK, 'd': DataK, 'dm': Obj, 'destdir': Str, 'fullprefix': Str},
                     ensures=ens, effects={'get_destdir_path': {'returns': Str, 'raises': []}},
                     method_effects={'should_install': {'returns': Bool, 'raises': []}, 'do_copyfile': {'returns': Bool, 'raises': []}, 'set_mode': []},
                     modifies=['self.did_install_something'], floor=4 + 2 * k_,
                     note=f'{k_} entr{"y" if k_ == 1 else "ies"}: each selected entry is copied from its source to its destination (' + ('the header directory joined with the base name of the source' if hdr_ else 'computed from destdir, prefix and its install path') + ') and then set_mode(destination, its install_mode, install_umask) is applied — also when the copy reports that nothing had to be done; something was installed iff some copy says so')

# ---- install_symlinks / install_subdirs, one entry
LN = "[e for e in __trace__ if e[0] == 'do_symlink']"
CD = "[e for e in __trace__ if e[0] == 'do_copydir']"
LinkS = Struct('InstallSymlinkData', 'mesonbuild.backend.backends:InstallSymlinkData', target=Str, name=Str, install_path=Str, subproject=Str, tag=Opt(Str))
REG.contract('C11', I, 'Installer.install_symlinks', variant='entries1',
             params={'self': Struct('Installer', 'mesonbuild.minstall:Installer', did_install_something=Bool),
                     'd': Struct('InstallData', 'mesonbuild.backend.backends:InstallData', symlinks=TupleS(LinkS)), 'dm': Obj, 'destdir': Str, 'fullprefix': Str},
             ensures=[f"len({SI}) == 1 and {SI}[0][1] is d.symlinks[0]",
                      f"implies(not {SI}[0][-1], len({GD}) == 0 and len({MK}) == 0 and len({LN}) == 0)",
                      f"implies({SI}[0][-1], len({GD}) == 2 and len({MK}) == 1 and len({LN}) == 1)",
                      f"({GD}[0][1] == destdir and {GD}[0][2] == fullprefix and {GD}[0][3] == d.symlinks[0].install_path and {GD}[1][1] == destdir and {GD}[1][2] == fullprefix and {GD}[1][3] == d.symlinks[0].name) if len({GD}) == 2 else True",
                      f"({MK}[0][1] is dm and {MK}[0][2] == {GD}[0][-1] and kw({MK}[0], 'exist_ok', False) is True) if len({GD}) == 2 and len({MK}) == 1 else True",
                      # the link is created with EXACTLY the declared target text (never resolved, never re-rooted) under the re-rooted name
                      f"({LN}[0][1] == d.symlinks[0].target and {LN}[0][2] == {GD}[1][-1] and {LN}[0][3] == destdir and {LN}[0][4] == {GD}[0][-1]) if len({GD}) == 2 and len({LN}) == 1 else True",
                      f"new(self).did_install_something == (self.did_install_something or ({LN}[0][-1] if len({LN}) == 1 else False))"],
             effects={'get_destdir_path': {'returns': Str, 'raises': []}},
             method_effects={'should_install': {'returns': Bool, 'raises': []}, 'do_symlink': {'returns': Bool, 'raises': []}, 'makedirs': []},
             modifies=['self.did_install_something'], floor=7,
             note='a selected symlink: its directory (re-rooted) is created, then the link is made under its re-rooted name with exactly the declared target text')
SubS = Struct('SubdirInstallData', 'mesonbuild.backend.backends:SubdirInstallData', path=Str, install_path=Str, install_mode=Obj, subproject=Str, tag=Opt(Str), follow_symlinks=Opt(Bool), exclude=Obj)
REG.contract('C11', I, 'Installer.install_subdirs', variant='entries1',
             params={'self': Struct('Installer', 'mesonbuild.minstall:Installer', did_install_something=Bool),
                     'd': Struct('InstallData', 'mesonbuild.backend.backends:InstallData', install_subdirs=TupleS(SubS)), 'dm': Obj, 'destdir': Str, 'fullprefix': Str},
             ensures=[f"len({SI}) == 1 and {SI}[0][1] is d.install_subdirs[0]",
                      f"implies(not {SI}[0][-1], len({GD}) == 0 and len({MK}) == 0 and len({CD}) == 0 and new(self).did_install_something == self.did_install_something)",
                      f"implies({SI}[0][-1], len({GD}) == 1 and len({MK}) == 1 and len({CD}) == 1 and new(self).did_install_something)",
                      f"({GD}[0][1] == destdir and {GD}[0][2] == fullprefix and {GD}[0][3] == d.install_subdirs[0].install_path and {MK}[0][2] == {GD}[0][-1]) if len({GD}) == 1 and len({MK}) == 1 else True",
                      f"({CD}[0][1] is d and {CD}[0][2] == d.install_subdirs[0].path and {CD}[0][3] == {GD}[0][-1] and {CD}[0][4] is d.install_subdirs[0].exclude and {CD}[0][5] is d.install_subdirs[0].install_mode and {CD}[0][6] is dm) if len({GD}) == 1 and len({CD}) == 1 else True",
                      f"(kw({CD}[0], 'follow_symlinks', 0) is d.install_subdirs[0].follow_symlinks) if len({CD}) == 1 else True"],
             effects={'get_destdir_path': {'returns': Str, 'raises': []}},
             method_effects={'should_install': {'returns': Bool, 'raises': []}, 'do_copydir': [], 'makedirs': [], 'log': []},
             modifies=['self.did_install_something'], floor=6,
             note='a selected subdirectory: its destination (re-rooted) is created and the tree is copied there with ITS excludes, mode and follow_symlinks setting')

# ---- uninstall: each logged path is removed by ONE call that matches what the path is — a directory by rmdir, anything else
# (a file, a symbolic link whatever it points to) by unlink; a failure is counted, never fatal
UN = 'mesonbuild/scripts/uninstall.py'
RM = "[e for e in __trace__ if e[0] in ('rmdir', 'unlink')]"
ISD = "[e for e in __trace__ if e[0] == 'isdir']"
ISL = "[e for e in __trace__ if e[0] == 'islink']"
REG.contract('C11', UN, 'do_uninstall', variant='one-entry', region=('Try', 'os.rmdir(fname)'),
             params={'fname': Str, 'failures': Int, 'successes': Int},
             ensures=[f"len({RM}) == 1 and {RM}[0][1] == fname",
                      f"len({ISD}) == 1 and {ISD}[0][1] == fname",
                      # a symbolic link is never treated as a directory, whatever it points to
                      f"({RM}[0][0] == 'rmdir') == ({ISD}[0][-1] and len({ISL}) == 1 and not {ISL}[0][-1])",
                      f"all(e[1] == fname for e in {ISL})",
                      "final('successes') + final('failures') == successes + failures + 1",
                      f"(final('failures') == failures + 1) == (len([e for e in __trace__ if e[0] == 'raised']) == 1)"],
             effects={'isdir': {'returns': Bool, 'raises': []}, 'islink': {'returns': Bool, 'raises': []}, 'rmdir': ['OSError'], 'unlink': ['OSError']},
             floor=6, note='one logged path: removed with rmdir iff it is a real directory (not a link to one), with unlink otherwise; the outcome is counted as a success or a failure, and the loop goes on either way')

# ---- do_copydir, the per-file half of the walk: a missing parent directory is created THROUGH THE DirMaker (which records it for the
# install log, so that uninstall removes it) and never behind its back; every file that is not excluded is copied and then gets its mode.
# A loop over the files of one directory of the walk, for any number of files (invariant over ghost sequences of the effects).
CopyS = Struct('Installer', 'mesonbuild.minstall:Installer')
REG.contract('C11', I, 'Installer.do_copydir', variant='files-of-one-directory', region=('For', 'if filepart in exclude_files'),
             params={'self': CopyS, 'data': Struct('InstallData', 'mesonbuild.backend.backends:InstallData', install_umask=Int), 'root': Str, 'files': List(Str),
                     'src_dir': Str, 'dst_dir': Str, 'exclude_files': Set(Str), 'install_mode': Obj, 'dm': Obj, 'follow_symlinks': Opt(Bool)},
             ensures=["len(own) == 0",
                      "len(cpd) == len(smp) and len(smm) == len(smp) and len(smu) == len(smp)",
                      "smp == cpd", "forall(Int, lambda k: implies(0 <= k and k < len(smm), smm[k] is install_mode and smu[k] == data.install_umask))",
                      "forall(Int, lambda k: implies(0 <= k and k < len(mkr), mkr[k] is dm))",
                      "len(cpd) <= len(files)"],
             raises={'SystemExit': 'True'}, exact_raises=False,
             loops={'for f in files': Loop(invariant=["len(own) == 0", "len(cpd) == len(smp) and len(smm) == len(smp) and len(smu) == len(smp) and len(cpd) <= __i",
                                                      "smp == cpd", "forall(Int, lambda k: implies(0 <= k and k < len(smm), smm[k] is install_mode and smu[k] == data.install_umask))",
                                                      "forall(Int, lambda k: implies(0 <= k and k < len(mkr), mkr[k] is dm))"],
                                           locals={'abs_src': Str, 'filepart': Str, 'abs_dst': Str, 'parent_dir': Str})},
             ghost_seqs={'own': ('self.makedirs', None, Int), 'mkr': ('makedirs', 1, Obj), 'cpd': ('do_copyfile', 2, Str),
                         'smp': ('set_mode', 1, Str), 'smm': ('set_mode', 2, Obj), 'smu': ('set_mode', 3, Int)},
             effects={'isdir': {'returns': Bool, 'raises': []}}, opaque_fns={'relpath': ([Str, Opt(Str)], Str)},
             method_effects={'self.makedirs': [], 'makedirs': [], 'copystat': [], 'do_copyfile': {'returns': Bool, 'raises': []}, 'set_mode': []},
             floor=6, note='the per-file loop of do_copydir for one directory of the walk: no directory is created except through the DirMaker; each copied file then gets set_mode(destination, install_mode, install_umask)')
