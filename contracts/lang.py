"""C01 — kernel clauses of the language semantics (interpreter primitives and evaluation order)"""
from pyvc.api import Int, Bool, Str, Seq, Struct, Loop, Opt, List, Set, Obj, Const, Dict, TupleS
from contracts import REG

IP = 'mesonbuild/interpreter/primitives/integer.py'
AP = 'mesonbuild/interpreter/primitives/array.py'
IB = 'mesonbuild/interpreterbase/interpreterbase.py'
IntH = Struct('IntegerHolder', 'mesonbuild.interpreter.primitives.integer:IntegerHolder', held_object=Int)
DROP = ['decorators typed_operator / InterpreterObject.operator: the operand type check happens before the call (precondition: other is an int)']
REG.contract('C01', IP, 'IntegerHolder.op_div', params={'self': IntH, 'other': Int},
             ensures=['result == self.held_object // other', 'other * result <= self.held_object if other > 0 else other * result >= self.held_object',
                      'self.held_object - other * result < other if other > 0 else self.held_object - other * result > other'],
             raises={'InvalidArguments': 'other == 0'}, dropped=DROP, floor=4,
             note='floor division: the quotient rounds towards minus infinity; division by zero is an error')
REG.contract('C01', IP, 'IntegerHolder.op_mod', params={'self': IntH, 'other': Int},
             ensures=['result == self.held_object % other', '(0 <= result and result < other) if other > 0 else (other < result and result <= 0)',
                      'self.held_object == other * (self.held_object // other) + result'],
             raises={'InvalidArguments': 'other == 0'}, dropped=DROP, floor=4,
             note='modulo has the sign of the divisor')
ArrH = Struct('ArrayHolder', 'mesonbuild.interpreter.primitives.array:ArrayHolder', held_object=List(Obj), current_node=Obj, subproject=Str)
REG.contract('C01', AP, 'ArrayHolder.op_plus', variant='list', params={'self': ArrH, 'other': List(Obj)},
             ensures=['result == self.held_object + other', 'result is not self.held_object', 'result is not other'],
             dropped=['decorator InterpreterObject.operator'], floor=4,
             note='+ and += build a NEW array; neither operand is changed (the frame clause on self.held_object is generated automatically)')
REG.contract('C01', AP, 'ArrayHolder.op_plus', variant='element', params={'self': ArrH, 'other': Obj}, requires=['not isinst(other, list)'],
             ensures=['result == self.held_object + unit(other)', 'result is not self.held_object'],
             dropped=['decorator InterpreterObject.operator'], floor=3)
REG.contract('C01', AP, 'ArrayHolder.op_index', params={'self': ArrH, 'other': Int},
             ensures=['result == (self.held_object[other] if other >= 0 else self.held_object[len(self.held_object) + other])'],
             raises={'InvalidArguments': 'other < -len(self.held_object) or other >= len(self.held_object)'}, dropped=DROP, floor=3,
             note='negative indices count from the end; out of range is an error, never a wrap-around')
_INR = '(-len(self.held_object) <= args[0] and args[0] < len(self.held_object))'
REG.contract('C01', AP, 'ArrayHolder.get_method', params={'self': ArrH, 'args': TupleS(Int, Opt(Obj)), 'kwargs': Obj},
             ensures=[f'implies({_INR}, result is (self.held_object[args[0]] if args[0] >= 0 else self.held_object[len(self.held_object) + args[0]]))',
                      f'implies(not {_INR}, result is args[1])'],
             raises={'InvalidArguments': f'not {_INR} and args[1] is None'},
             dropped=['decorators noArgsFlattening / noKwargs / typed_pos_args / InterpreterObject.method: the argument shapes are checked before the call (precondition: the shape of args)'], floor=3,
             note='array.get(i[, fallback]): every index from -length to length - 1 is in range (negative ones count from the end); out of range the fallback is the value when one is given, and an error otherwise')
REG.contract('C01', AP, 'ArrayHolder.length_method', params={'self': ArrH, 'args': Obj, 'kwargs': Obj},
             ensures=['result == len(self.held_object)'], dropped=['decorators noKwargs / noPosargs / InterpreterObject.method'], floor=1,
             note='array.length(): the number of elements')

# ---- short-circuit evaluation: the right operand is evaluated iff the left one does not decide
NodeS = Struct('AndNode', 'mesonbuild.mparser:AndNode', left=Obj, right=Obj)
BaseS = Struct('InterpreterBase', 'mesonbuild.interpreterbase.interpreterbase:InterpreterBase')
EVS = "[e for e in __trace__ if e[0] == 'evaluate_statement']"
HOL = "[e for e in __trace__ if e[0] == '_holderify']"
ME = {'evaluate_statement': {'returns': Opt(Obj), 'raises': []}, '_holderify': {'returns': Obj, 'raises': []}}
for fn, decides in (('evaluate_andstatement', 'not'), ('evaluate_orstatement', '')):
    cls = 'AndNode' if 'and' in fn else 'OrNode'
    REG.contract('C01', IB, f'InterpreterBase.{fn}', params={'self': BaseS, 'cur': Struct(cls, f'mesonbuild.mparser:{cls}', left=Obj, right=Obj)},
                 ensures=[f"{EVS}[0][1] is cur.left",
                          f"(len({EVS}) == 2) == (not isinst({EVS}[0][-1], Disabler) and not ({decides} obj_operator_call({EVS}[0][-1])))",
                          f"({EVS}[1][1] is cur.right) if len({EVS}) == 2 else len({EVS}) == 1",
                          # the value: a disabler operand is passed through; otherwise the result is ALWAYS the (holderified) value
                          # of the BOOL operator of the deciding operand — never an operand itself (no implicit conversion)
                          f"(result is {EVS}[0][-1] and len({HOL}) == 0) if isinst({EVS}[0][-1], Disabler) else True",
                          f"((result is {EVS}[1][-1] and len({HOL}) == 0) if isinst({EVS}[1][-1], Disabler) else True) if len({EVS}) == 2 else True",
                          f"(len({HOL}) == 1 and result is {HOL}[0][-1] and {HOL}[0][1] == obj_operator_call({EVS}[0][-1])) if (len({EVS}) == 1 and not isinst({EVS}[0][-1], Disabler)) else True",
                          f"((len({HOL}) == 1 and result is {HOL}[0][-1] and {HOL}[0][1] == obj_operator_call({EVS}[1][-1])) if not isinst({EVS}[1][-1], Disabler) else True) if len({EVS}) == 2 else True"],
                 raises={'MesonException': f"{EVS}[0][-1] is None or (len({EVS}) == 2 and {EVS}[1][-1] is None)" if False else 'True'}, exact_raises=False,
                 method_effects=ME, opaque={'operator_call': ([], Bool)}, floor=9,
                 note='the left operand is always evaluated first and once; the right operand is evaluated iff the left one is ' + ('true' if 'and' in fn else 'false') + ' (and is not a disabler)')

# ---- range(): the cases in which it is an error (docs/yaml/functions/range.yaml) and the holder it builds otherwise
from pyvc.api import TupleS
II = 'mesonbuild/interpreter/interpreter.py'
_S, _E, _P = '(0 if args[1] is None else args[0])', '(args[0] if args[1] is None else args[1])', '(1 if args[2] is None else args[2])'
RH = "[e for e in __trace__ if e[0] == 'new RangeHolder']"
REG.contract('C01', II, 'Interpreter.func_range',
             params={'self': Struct('Interpreter', 'mesonbuild.interpreter.interpreter:Interpreter', subproject=Str), 'node': Obj,
                     'args': TupleS(Int, Opt(Int), Opt(Int)), 'kwargs': Obj},
             raises={'InterpreterException': f'{_S} < 0 or {_E} < {_S} or {_P} < 1'},
             ensures=[f'len({RH}) == 1 and result is {RH}[0][-1]',
                      f'{RH}[0][1] == {_S} and {RH}[0][2] == {_E} and {RH}[0][3] == {_P}',
                      f"kw({RH}[0], 'subproject', '') == self.subproject"],
             opaque_classes=['RangeHolder'],
             dropped=['decorators noKwargs / FeatureNew / typed_pos_args: the argument types (int, optional int, optional int) are checked before the call (precondition: the shape of args)'],
             floor=5, note='range(stop) / range(start, stop) / range(start, stop, step): an error iff start < 0, stop < start or step < 1 (an explicit step of 0 included); otherwise exactly the requested progression')

# ---- += : always a NEW value (the holderified result of the PLUS operator of the old value), bound to the name; the old value
# object is only asked for that result — nothing else is done to it (it may be shared with other names)
PAS = Struct('PlusAssignmentNode', 'mesonbuild.mparser:PlusAssignmentNode', var_name=Struct('IdNode', 'mesonbuild.mparser:IdNode', value=Str), value=Obj)
GV = "[e for e in __trace__ if e[0] == 'get_variable']"
SV = "[e for e in __trace__ if e[0] == 'set_variable']"
OPC = "[e for e in __trace__ if e[0] == 'operator_call']"
OTHER = "[e for e in __trace__ if e[0] not in ('evaluate_statement', 'get_variable', 'set_variable', 'operator_call', '_holderify', 'setattr')]"
REG.contract('C01', IB, 'InterpreterBase.evaluate_plusassign', params={'self': BaseS, 'node': PAS},
             ensures=[f"len({EVS}) == 1 and {EVS}[0][1] is node.value",
                      f"len({GV}) == 1 and {GV}[0][1] == node.var_name.value",
                      # the old value is asked for old + addition, once, and for nothing else
                      f"len({OPC}) == 1 and {OPC}[0][1] is {GV}[0][-1] and {OPC}[0][2] is MesonOperator.PLUS and {OPC}[0][3] is fn__unholder({EVS}[0][-1])",
                      f"len({HOL}) == 1 and {HOL}[0][1] is {OPC}[0][-1]",
                      # and the NAME is bound to the new (holderified) value
                      f"len({SV}) == 1 and {SV}[0][1] == node.var_name.value and {SV}[0][2] is {HOL}[0][-1]",
                      f"len({OTHER}) == 0",
                      f"all(e[1] is {GV}[0][-1] and e[2] == 'current_node' for e in [e for e in __trace__ if e[0] == 'setattr'])"],
             raises={'InvalidCodeOnVoid': 'True', 'MesonException': 'True'}, exact_raises=False,
             method_effects={'evaluate_statement': {'returns': Opt(Obj), 'raises': ['MesonException']}, 'get_variable': {'returns': Obj, 'raises': ['MesonException']},
                             'operator_call': {'returns': Obj, 'raises': ['MesonException']}, '_holderify': {'returns': Obj, 'raises': []}, 'set_variable': []},
             opaque_fns={'_unholder': ([Obj], Obj)}, floor=7,
             note='`name += value`: one evaluation of the right-hand side, one PLUS operator call on the current value of the name, the result made a new value object and bound to the name; the old value object is not modified (values are immutable: another name bound to it keeps seeing the old value)')

# ---- the unary operators, the ternary, comparison / arithmetic / indexing: which operand is evaluated when, on which value
# object the operator is called, with which other operand — and that the result is always the (holderified) operator result
ME1 = {'evaluate_statement': {'returns': Opt(Obj), 'raises': ['MesonException']}, '_holderify': {'returns': Obj, 'raises': []},
       'operator_call': {'returns': Obj, 'raises': ['MesonException']}}
SETA = "[e for e in __trace__ if e[0] == 'setattr']"
REST = "[e for e in __trace__ if e[0] not in ('evaluate_statement', 'operator_call', '_holderify', 'setattr')]"
for fn, cls, mop in (('evaluate_notstatement', 'NotNode', 'NOT'), ('evaluate_uminusstatement', 'UMinusNode', 'UMINUS')):
    REG.contract('C01', IB, f'InterpreterBase.{fn}', params={'self': BaseS, 'cur': Struct(cls, f'mesonbuild.mparser:{cls}', value=Obj)},
                 ensures=[f"len({EVS}) == 1 and {EVS}[0][1] is cur.value",
                          f"(result is {EVS}[0][-1] and len({OPC}) == 0 and len({HOL}) == 0) if isinst({EVS}[0][-1], Disabler) else "
                          f"(len({OPC}) == 1 and {OPC}[0][1] is {EVS}[0][-1] and {OPC}[0][2] is MesonOperator.{mop} and {OPC}[0][3] is None "
                          f"and len({HOL}) == 1 and {HOL}[0][1] is {OPC}[0][-1] and result is {HOL}[0][-1])",
                          f"len({REST}) == 0",
                          f"all(e[1] is {EVS}[0][-1] and e[2] == 'current_node' for e in {SETA})"],
                 raises={'InvalidCodeOnVoid': 'True', 'MesonException': 'True'}, exact_raises=False, method_effects=ME1, floor=4,
                 note=f'unary {mop}: the operand is evaluated once; a disabler passes through; otherwise the result is the holderified {mop} operator result of the operand (unary operators are applied once: the operand of the node, nothing else)')

TernS = Struct('TernaryNode', 'mesonbuild.mparser:TernaryNode', condition=Obj, trueblock=Obj, falseblock=Obj)
REG.contract('C01', IB, 'InterpreterBase.evaluate_ternary', params={'self': BaseS, 'node': TernS},
             ensures=[f"{EVS}[0][1] is node.condition",
                      # a disabler condition passes through and neither branch is evaluated
                      f"(result is {EVS}[0][-1] and len({EVS}) == 1 and len({OPC}) == 0) if isinst({EVS}[0][-1], Disabler) else "
                      # otherwise: ONE truth test of the condition, exactly ONE of the two branches evaluated, chosen by it; its value is the result
                      f"(len({OPC}) == 1 and {OPC}[0][1] is {EVS}[0][-1] and {OPC}[0][2] is MesonOperator.BOOL and len({EVS}) == 2 "
                      f"and {EVS}[1][1] is (node.trueblock if {OPC}[0][-1] else node.falseblock) and result is {EVS}[1][-1])",
                      f"len({HOL}) == 0 and len({REST}) == 0",
                      f"all(e[1] is {EVS}[0][-1] and e[2] == 'current_node' for e in {SETA})"],
             raises={'MesonException': 'True'}, exact_raises=False, method_effects=ME1, floor=4,
             note='c ? a : b — the condition is evaluated first and once, then exactly one of the two branches (single-branch evaluation), whose value is the result')

# comparison: left operand first, then the right one; the operator named by the node is called ONCE — for `in` / `not in` on the
# container (the right operand) with the unholdered left one, for every other comparison on the left operand with the unholdered
# right one; the result is the holderified operator result.  One variant per operator (the operator table is read from the live module).
_CMP = {'==': 'EQUALS', '!=': 'NOT_EQUALS', '<': 'LESS', '<=': 'LESS_EQUALS', '>': 'GREATER', '>=': 'GREATER_EQUALS', 'in': 'IN', 'not in': 'NOT_IN'}
for _ct, _mop in _CMP.items():
    _a, _b = (1, 0) if _mop in ('IN', 'NOT_IN') else (0, 1)
    REG.contract('C01', IB, 'InterpreterBase.evaluate_comparison', variant=_mop,
                 params={'self': BaseS, 'node': Struct('ComparisonNode', 'mesonbuild.mparser:ComparisonNode', ctype=Const(_ct), left=Obj, right=Obj)},
                 ensures=[f"{EVS}[0][1] is node.left",
                          f"(result is {EVS}[0][-1] and len({EVS}) == 1 and len({OPC}) == 0 and len({HOL}) == 0) if isinst({EVS}[0][-1], Disabler) else "
                          f"(len({EVS}) == 2 and {EVS}[1][1] is node.right)",
                          f"(result is {EVS}[1][-1] and len({OPC}) == 0 and len({HOL}) == 0) if (len({EVS}) == 2 and isinst({EVS}[1][-1], Disabler)) else True",
                          f"(len({OPC}) == 1 and {OPC}[0][1] is {EVS}[{_a}][-1] and {OPC}[0][2] is MesonOperator.{_mop} and {OPC}[0][3] is fn__unholder({EVS}[{_b}][-1]) "
                          f"and len({HOL}) == 1 and {HOL}[0][1] is {OPC}[0][-1] and result is {HOL}[0][-1]) "
                          f"if (len({EVS}) == 2 and not isinst({EVS}[1][-1], Disabler)) else True",
                          f"len({REST}) == 0",
                          f"all(e[2] == 'current_node' for e in {SETA})"],
                 raises={'MesonException': 'True'}, exact_raises=False, method_effects=ME1, opaque_fns={'_unholder': ([Obj], Obj)}, floor=5,
                 note=f'`a {_ct} b`: operands evaluated left to right, once each; one {_mop} operator call ' + ('on the container b with the value of a' if _a else 'on a with the value of b') + '; comparisons are binary (the result of a comparison is a value like any other: nothing chains)')

_ARI = {'+': 'PLUS', '-': 'MINUS', '*': 'TIMES', '/': 'DIV', '%': 'MOD'}
for _ot, _mop in _ARI.items():
    REG.contract('C01', IB, 'InterpreterBase.evaluate_arithmeticstatement', variant=_mop,
                 params={'self': BaseS, 'cur': Struct('ArithmeticNode', 'mesonbuild.mparser:ArithmeticNode', operation=Const(_ot), left=Obj, right=Obj)},
                 ensures=[f"{EVS}[0][1] is cur.left",
                          f"(result is {EVS}[0][-1] and len({EVS}) == 1 and len({OPC}) == 0 and len({HOL}) == 0) if isinst({EVS}[0][-1], Disabler) else "
                          f"(len({EVS}) == 2 and {EVS}[1][1] is cur.right)",
                          f"(result is {EVS}[1][-1] and len({OPC}) == 0 and len({HOL}) == 0) if (len({EVS}) == 2 and isinst({EVS}[1][-1], Disabler)) else True",
                          f"(len({OPC}) == 1 and {OPC}[0][1] is {EVS}[0][-1] and {OPC}[0][2] is MesonOperator.{_mop} and {OPC}[0][3] is fn__unholder({EVS}[1][-1]) "
                          f"and len({HOL}) == 1 and {HOL}[0][1] is {OPC}[0][-1] and result is {HOL}[0][-1]) "
                          f"if (len({EVS}) == 2 and not isinst({EVS}[1][-1], Disabler)) else True",
                          f"len({REST}) == 0",
                          f"all(e[1] is {EVS}[0][-1] and e[2] == 'current_node' for e in {SETA})"],
                 raises={'InvalidCodeOnVoid': 'True', 'MesonException': 'True'}, exact_raises=False, method_effects=ME1, opaque_fns={'_unholder': ([Obj], Obj)}, floor=5,
                 note=f'`a {_ot} b`: operands evaluated left to right, once each; one {_mop} operator call on the LEFT value with the unholdered right value (the left operand type decides the operation: strict typing is the holder\'s business)')

IdxS = Struct('IndexNode', 'mesonbuild.mparser:IndexNode', iobject=Obj, index=Obj)
REG.contract('C01', IB, 'InterpreterBase.evaluate_indexing', params={'self': BaseS, 'node': IdxS},
             ensures=[f"{EVS}[0][1] is node.iobject",
                      f"(result is {EVS}[0][-1] and len({EVS}) == 1 and len({OPC}) == 0 and len({HOL}) == 0) if isinst({EVS}[0][-1], Disabler) else "
                      f"(len({EVS}) == 2 and {EVS}[1][1] is node.index and len({OPC}) == 1 and {OPC}[0][1] is {EVS}[0][-1] and {OPC}[0][2] is MesonOperator.INDEX "
                      f"and {OPC}[0][3] is fn__unholder({EVS}[1][-1]) and len({HOL}) == 1 and {HOL}[0][1] is {OPC}[0][-1] and result is {HOL}[0][-1])",
                      f"len({REST}) == 0",
                      f"all(e[1] is {EVS}[0][-1] and e[2] == 'current_node' for e in {SETA})"],
             raises={'InterpreterException': 'True', 'InvalidArguments': 'True', 'MesonException': 'True'}, exact_raises=False, method_effects=ME1,
             opaque_fns={'_unholder': ([Obj], Obj)}, floor=4,
             note='`a[i]`: the object first, then the index, once each; one INDEX operator call on the object with the unholdered index')

# ---- `name = value`: one evaluation, then the NAME is bound — to a deep copy when the value is of a mutable kind, so that no later
# operation on one name changes what another name sees
AsgS = Struct('AssignmentNode', 'mesonbuild.mparser:AssignmentNode', var_name=Struct('IdNode', 'mesonbuild.mparser:IdNode', value=Str), value=Obj)
BaseAS = Struct('InterpreterBase', 'mesonbuild.interpreterbase.interpreterbase:InterpreterBase', argument_depth=Int)
DCP = "[e for e in __trace__ if e[0] == 'deepcopy']"
REG.contract('C01', IB, 'InterpreterBase.assignment', params={'self': BaseAS, 'node': AsgS},
             ensures=[f"len({EVS}) == 1 and {EVS}[0][1] is node.value",
                      f"len({SV}) == 1 and {SV}[0][1] == node.var_name.value",
                      f"(len({DCP}) == 1 and {DCP}[0][1] is {EVS}[0][-1] and {SV}[0][2] is {DCP}[0][-1]) "
                      f"if ({EVS}[0][-1] is not None and isinst({EVS}[0][-1], MutableInterpreterObject)) "
                      f"else (len({DCP}) == 0 and {SV}[0][2] is {EVS}[0][-1])",
                      "len([e for e in __trace__ if e[0] not in ('evaluate_statement', 'set_variable', 'deepcopy')]) == 0"],
             raises={'InvalidArguments': 'self.argument_depth != 0', 'MesonException': 'True'}, exact_raises=False,
             method_effects={'evaluate_statement': {'returns': Opt(Obj), 'raises': ['MesonException']}, 'set_variable': {'raises': ['MesonException']}},
             effects={'deepcopy': {'returns': Obj, 'raises': []}}, floor=4,
             note='assignment inside an argument list is an error; otherwise the right-hand side is evaluated once and the name bound to it — to a deep copy if it is a mutable object')

# ---- the variable store: reading a name changes nothing; binding a name changes that name and no other
VarS = Struct('InterpreterBase', 'mesonbuild.interpreterbase.interpreterbase:InterpreterBase', builtin=Dict(Str, Obj), variables=Dict(Str, Obj))
REG.contract('C01', IB, 'InterpreterBase.get_variable', params={'self': VarS, 'varname': Str},
             ensures=['result is (self.builtin[varname] if varname in self.builtin else self.variables[varname])'],
             raises={'InvalidCode': 'varname not in self.builtin and varname not in self.variables'},
             opaque_fns={'get_close_matches': ([Str, Obj], List(Str))}, floor=3,
             note='a builtin name wins, else the variable of that name, else an error; nothing is modified (automatic frame obligations)')
REG.contract('C01', IB, 'InterpreterBase.set_variable', variant='plain', params={'self': VarS, 'varname': Str, 'variable': Obj, 'holderify': Const(False)},
             requires=['isinst(variable, InterpreterObject)'],
             ensures=['new(self).variables[varname] is variable',
                      # for an ARBITRARY other name q (ghost parameter): bound afterwards iff bound before, to the same value object
                      '(q in new(self).variables) == (q in self.variables) if q != varname else True',
                      '(new(self).variables[q] is self.variables[q]) if (q != varname and q in self.variables) else True'],
             raises={'InvalidCode': 'varname in self.builtin'}, modifies=['self.variables'], ghosts={'q': Str}, floor=3,
             note='binding a name: that name maps to the given value object afterwards, every other name keeps its value object; builtin names cannot be rebound')

# ---- a block: its statements are evaluated in order, each exactly once, nothing skipped (the loop of evaluate_codeblock)
CBS = Struct('CodeBlockNode', 'mesonbuild.mparser:CodeBlockNode', lines=List(Obj))
BaseCB = Struct('InterpreterBase', 'mesonbuild.interpreterbase.interpreterbase:InterpreterBase', current_node=Obj, source_root=Str, subdir=Str)
REG.contract('C01', IB, 'InterpreterBase.evaluate_codeblock', params={'self': BaseCB, 'node': CBS, 'start': Const(0), 'end': Const(None)},
             ensures=["len(evs) == len(node.lines)", "forall(Int, lambda k: implies(0 <= k and k < len(node.lines), evs[k] is node.lines[k]))"],
             raises={'Exception': 'True'}, exact_raises=False,
             on_raise=["len(evs) >= 1 and len(evs) <= len(node.lines)", "forall(Int, lambda k: implies(0 <= k and k < len(evs), evs[k] is node.lines[k]))"],
             loops={0: Loop(invariant=["len(evs) == i", "forall(Int, lambda k: implies(0 <= k and k < i, evs[k] is statements[k]))", '0 <= i and i <= len(statements)'],
                            locals={'i': Int, 'cur': Obj}, decreases='len(statements) - i')},
             ghost_seqs={'evs': ('evaluate_statement', 1, Obj)}, opaque_attrs={'lineno': Int, 'colno': Int},
             method_effects={'evaluate_statement': {'returns': Opt(Obj), 'raises': ['Exception']}}, floor=4,
             note='the statements of a block are evaluated in source order, each exactly once; the first failing statement ends the block (no later statement runs)')

# ---- if / elif / else: conditions are evaluated in order until the first true one; exactly that block runs (or the else block when
# none is true); no later condition and no other block is evaluated.  Stated over ghost sequences of the effects (loop invariant).
IfCS = Struct('IfClauseNode', 'mesonbuild.mparser:IfClauseNode', ifs=List(Obj), elseblock=Obj)
BaseIF = Struct('InterpreterBase', 'mesonbuild.interpreterbase.interpreterbase:InterpreterBase', tmp_meson_version=Opt(Obj), subproject=Str, current_node=Obj)
_PREFIX = "len(conds) <= len(node.ifs) and forall(Int, lambda k: implies(0 <= k and k < len(conds), conds[k] is attr_condition(node.ifs[k])))"
_EARLIER_FALSE = "forall(Int, lambda k: implies(0 <= k and k < len(conds) - 1, not bools[k]))"
REG.contract('C01', IB, 'InterpreterBase.evaluate_if', params={'self': BaseIF, 'node': IfCS},
             requires=['self.subproject in project_meson_versions'], modifies=['self.tmp_meson_version'],
             ensures=[_PREFIX, "len(conds) - 1 <= len(bools) and len(bools) <= len(conds)", _EARLIER_FALSE, "len(blocks) <= 1",
                      # a block ran: either the block of the LAST evaluated condition, which was true — or every condition was evaluated and false and it is the else block
                      "((len(bools) == len(conds) and len(conds) >= 1 and bools[len(conds) - 1] and blocks[0] is attr_block(node.ifs[len(conds) - 1])) or "
                      " (len(bools) == len(node.ifs) and len(conds) == len(node.ifs) and (len(conds) == 0 or not bools[len(conds) - 1]) and not isinst(node.elseblock, mparser.EmptyNode) and blocks[0] is attr_block(node.elseblock))) "
                      "if len(blocks) == 1 else True",
                      # no block ran and nothing was returned: every condition was evaluated and false, and there is no else block
                      "(len(conds) == len(node.ifs) and len(bools) == len(conds) and (len(conds) == 0 or not bools[len(conds) - 1]) and isinst(node.elseblock, mparser.EmptyNode)) "
                      "if (len(blocks) == 0 and result is None) else True",
                      # a disabler condition ends the statement at once and is its value
                      "(len(blocks) == 0 and len(bools) == len(conds) - 1 and isinst(result, Disabler)) if result is not None else True"],
             raises={'MesonException': 'True', 'Exception': 'True'}, exact_raises=False,
             loops={0: Loop(invariant=["self.subproject in project_meson_versions", "len(conds) == __i and len(bools) == __i and len(blocks) == 0",
                                       "forall(Int, lambda k: implies(0 <= k and k < __i, conds[k] is attr_condition(node.ifs[k])))",
                                       "forall(Int, lambda k: implies(0 <= k and k < __i, not bools[k]))"],
                            locals={'result': Opt(Obj), 'res': Obj, 'prev_meson_version': Obj, 'always': Opt(Obj)})},
             ghost_seqs={'conds': ('evaluate_statement', 1, Obj), 'bools': ('operator_call', -1, Obj), 'blocks': ('evaluate_codeblock', 1, Obj)},
             opaque_attrs={'condition': Obj, 'block': Obj}, opaque_globals={'project_meson_versions': Dict(Str, Obj)},
             opaque={'always': ([Obj], Opt(Obj)), 'intersect': ([Obj], Obj)},
             method_effects={'evaluate_statement': {'returns': Opt(Obj), 'raises': ['MesonException']}, 'evaluate_codeblock': {'raises': ['Exception']},
                             'operator_call': {'returns': Obj, 'raises': ['MesonException']}}, floor=8,
             note='if / elif / else: the conditions are evaluated in order, each at most once, up to and including the first true one; exactly the block of that condition runs, or the else block when every condition is false; a disabler condition is the value of the statement and nothing further is evaluated')

# ---- foreach over an array / a range (one loop variable): for each element in order the variable is bound to the (holderified)
# element and then the block runs; `continue` goes on with the next element, `break` ends the loop; nothing else is evaluated
FES = Struct('ForeachClauseNode', 'mesonbuild.mparser:ForeachClauseNode', items=Obj, varnames=List(Obj), block=Obj)
REG.contract('C01', IB, 'InterpreterBase.evaluate_foreach', variant='one-variable', params={'self': BaseS, 'node': FES},
             ensures=["len(its) == 1 and its[0] is node.items",
                      "len(hol) <= len(seqs[0]) and forall(Int, lambda k: implies(0 <= k and k < len(hol), hol[k] is seqs[0][k]))",
                      "len(svn) == len(hol) and len(svv) == len(hol) and len(cbs) == len(hol)",
                      "forall(Int, lambda k: implies(0 <= k and k < len(hol), svv[k] is holr[k] and cbs[k] is node.block))",
                      "forall(Int, lambda k: implies(0 <= k and k < len(hol), svn[k] == attr_value(node.varnames[0])))",
                      # every element was visited unless the block asked to break
                      "len(hol) == len(seqs[0]) or len(brk) == 1"],
             raises={'InvalidArguments': 'True', 'MesonException': 'True'}, exact_raises=False,
             loops={0: Loop(invariant=["len(hol) == __i and len(holr) == __i and len(svn) == __i and len(svv) == __i and len(cbs) == __i and len(brk) == 0",
                                       "len(its) == 1 and its[0] is node.items and len(seqs) == 1 and __seq == seqs[0]",
                                       "forall(Int, lambda k: implies(0 <= k and k < __i, hol[k] is __seq[k] and svv[k] is holr[k] and cbs[k] is node.block))",
                                       "forall(Int, lambda k: implies(0 <= k and k < __i, svn[k] == attr_value(node.varnames[0])))"],
                            locals={'i': Obj})},
             ghost_seqs={'brk': ('raised BreakRequest', None, Int), 'its': ('evaluate_statement', 1, Obj), 'hol': ('_holderify', 1, Obj), 'holr': ('_holderify', -1, Obj), 'svn': ('set_variable', 1, Str),
                         'svv': ('set_variable', 2, Obj), 'cbs': ('evaluate_codeblock', 1, Obj), 'seqs': ('iter_self', -1, Seq(Obj))},
             opaque_attrs={'value': Str}, opaque={'iter_tuple_size': ([], Const(None)), 'display_name': ([], Str)},
             method_effects={'evaluate_statement': {'returns': Opt(Obj), 'raises': ['MesonException']}, '_holderify': {'returns': Obj, 'raises': []},
                             'set_variable': {'raises': ['MesonException']}, 'iter_self': {'returns': Seq(Obj), 'raises': []},
                             'evaluate_codeblock': {'raises': ['ContinueRequest', 'BreakRequest', 'MesonException']}}, floor=6,
             note='foreach with one loop variable (arrays, range()): the iterable is evaluated once; for each element in order the loop variable is bound to the holderified element, then the block runs; continue skips to the next element, break ends the loop')

# ---- the documented variable functions: get_variable / is_variable / unset_variable read or remove exactly the named variable
IVarS = Struct('Interpreter', 'mesonbuild.interpreter.interpreter:Interpreter', variables=Dict(Str, Obj))
DROPF = ['decorators typed_pos_args / noKwargs / noArgsFlattening / unholder_return / FeatureNew: the argument shapes are checked before the call (precondition: the shape of args)']
REG.contract('C01', II, 'Interpreter.func_is_variable', params={'self': IVarS, 'node': Obj, 'args': TupleS(Str), 'kwargs': Obj},
             ensures=['result == (args[0] in self.variables)'], dropped=DROPF, floor=2, note='is_variable(name): true iff the name is bound; nothing changes')
REG.contract('C01', II, 'Interpreter.func_unset_variable', params={'self': IVarS, 'node': Obj, 'args': TupleS(Str), 'kwargs': Obj},
             ensures=['args[0] not in new(self).variables',
                      '(q in new(self).variables) == (q in self.variables) if q != args[0] else True',
                      '(new(self).variables[q] is self.variables[q]) if (q != args[0] and q in self.variables) else True'],
             raises={'InterpreterException': 'args[0] not in self.variables'}, modifies=['self.variables'], ghosts={'q': Str},
             opaque_fns={'get_close_matches': ([Str, Obj], List(Str))}, dropped=DROPF, floor=3,
             note='unset_variable(name): an error iff the name is not bound; otherwise exactly that name is removed and every other name keeps its value object')
REG.contract('C01', II, 'Interpreter.func_get_variable', variant='name', params={'self': IVarS, 'node': Obj, 'args': TupleS(Str, Opt(Obj)), 'kwargs': Obj},
             ensures=['(result is self.variables[args[0]]) if args[0] in self.variables else True',
                      f"(len({HOL}) == 1 and {HOL}[0][1] is args[1] and result is {HOL}[0][-1]) if args[0] not in self.variables else len({HOL}) == 0"],
             raises={'InterpreterException': 'args[0] not in self.variables and args[1] is None'},
             method_effects={'_holderify': {'returns': Obj, 'raises': []}}, opaque_fns={'get_close_matches': ([Str, Obj], List(Str))}, dropped=DROPF, floor=3,
             note='get_variable(name[, fallback]): the value object bound to the name; if it is not bound, the (holderified) fallback when one is given — also a falsy one — and an error otherwise; nothing changes')
REG.contract('C01', II, 'Interpreter.func_set_variable', params={'self': IVarS, 'node': Obj, 'args': TupleS(Str, Obj), 'kwargs': Obj},
             ensures=[f"len({SV}) == 1 and {SV}[0][1] == args[0] and {SV}[0][2] is args[1] and kw({SV}[0], 'holderify', False) is True"],
             raises={'InvalidCode': 'True', 'MesonException': 'True'}, exact_raises=False,
             method_effects={'set_variable': {'raises': ['MesonException']}}, dropped=DROPF, floor=2,
             note='set_variable(name, value): after the name check, exactly one binding of that name to the (holderified) value')

# ---- the dispatch of evaluate_statement: each kind of syntax-tree node goes to its own evaluation method, once, with the node itself,
# and the value of the statement is the value that method returns (assignments, += and foreach have none)
_DISPATCH = {'FunctionNode': ('function_call', True), 'PlusAssignmentNode': ('evaluate_plusassign', False), 'AssignmentNode': ('assignment', False),
             'MethodNode': ('method_call', True), 'IfClauseNode': ('evaluate_if', True), 'ComparisonNode': ('evaluate_comparison', True),
             'ArrayNode': ('evaluate_arraystatement', True), 'DictNode': ('evaluate_dictstatement', True), 'AndNode': ('evaluate_andstatement', True),
             'OrNode': ('evaluate_orstatement', True), 'NotNode': ('evaluate_notstatement', True), 'UMinusNode': ('evaluate_uminusstatement', True),
             'ArithmeticNode': ('evaluate_arithmeticstatement', True), 'ForeachClauseNode': ('evaluate_foreach', False), 'IndexNode': ('evaluate_indexing', True),
             'TernaryNode': ('evaluate_ternary', True), 'TestCaseClauseNode': ('evaluate_testcase', True)}
_DME = {m: {'returns': Opt(Obj), 'raises': ['MesonException']} for m, _r in _DISPATCH.values()}
_DALL = "[e for e in __trace__ if e[0] not in ('setattr',)]"
for _cls, (_m, _ret) in _DISPATCH.items():
    REG.contract('C01', IB, 'InterpreterBase.evaluate_statement', variant=_cls,
                 params={'self': Struct('InterpreterBase', 'mesonbuild.interpreterbase.interpreterbase:InterpreterBase', current_node=Obj), 'cur': Struct(_cls, f'mesonbuild.mparser:{_cls}')},
                 ensures=[f"len({_DALL}) == 1 and {_DALL}[0][0] == '{_m}' and {_DALL}[0][1] is cur",
                          (f"result is {_DALL}[0][-1]" if _ret else "result is None"),
                          "new(self).current_node is cur"],
                 raises={'MesonException': 'True'}, exact_raises=False, method_effects=_DME, modifies=['self.current_node'], floor=3,
                 note=f'a {_cls} is evaluated by {_m}, once, and ' + ('its value is the value of the statement' if _ret else 'the statement has no value'))
for _cls, _exc in (('ContinueNode', 'ContinueRequest'), ('BreakNode', 'BreakRequest')):
    REG.contract('C01', IB, 'InterpreterBase.evaluate_statement', variant=_cls,
                 params={'self': Struct('InterpreterBase', 'mesonbuild.interpreterbase.interpreterbase:InterpreterBase', current_node=Obj), 'cur': Struct(_cls, f'mesonbuild.mparser:{_cls}')},
                 ensures=['False'], raises={_exc: 'True'}, method_effects=_DME, modifies=['self.current_node'], floor=1,
                 note=f'`{_cls[:-4].lower()}` always raises {_exc} (caught by the enclosing foreach)')
_BASE_CN = Struct('InterpreterBase', 'mesonbuild.interpreterbase.interpreterbase:InterpreterBase', current_node=Obj)
_LME = dict(_DME, **{'get_variable': {'returns': Obj, 'raises': ['MesonException']}, '_holderify': {'returns': Obj, 'raises': []},
                     'evaluate_fstring': {'returns': Obj, 'raises': ['MesonException']}, 'evaluate_multiline_fstring': {'returns': Obj, 'raises': ['MesonException']},
                     'evaluate_statement': {'returns': Opt(Obj), 'raises': ['MesonException']}})
REG.contract('C01', IB, 'InterpreterBase.evaluate_statement', variant='IdNode', params={'self': _BASE_CN, 'cur': Struct('IdNode', 'mesonbuild.mparser:IdNode', value=Str)},
             ensures=[f"len({_DALL}) == 1 and {_DALL}[0][0] == 'get_variable' and {_DALL}[0][1] == cur.value and result is {_DALL}[0][-1]"],
             raises={'MesonException': 'True'}, exact_raises=False, method_effects=_LME, modifies=['self.current_node'], floor=2,
             note='an identifier evaluates to the value object bound to that name (no copy: values are immutable)')
for _cls, _vs in (('BooleanNode', Bool), ('NumberNode', Int)):
    REG.contract('C01', IB, 'InterpreterBase.evaluate_statement', variant=_cls, params={'self': _BASE_CN, 'cur': Struct(_cls, f'mesonbuild.mparser:{_cls}', value=_vs)},
                 ensures=[f"len({_DALL}) == 1 and {_DALL}[0][0] == '_holderify' and {_DALL}[0][1] == cur.value and result is {_DALL}[0][-1]"],
                 method_effects=_LME, modifies=['self.current_node'], floor=2, note='a literal evaluates to the holder of its value')
for _fs, _ml, _m in ((False, False, '_holderify'), (False, True, '_holderify'), (True, False, 'evaluate_fstring'), (True, True, 'evaluate_multiline_fstring')):
    REG.contract('C01', IB, 'InterpreterBase.evaluate_statement', variant=f'StringNode/fstring={_fs}/multiline={_ml}',
                 params={'self': _BASE_CN, 'cur': Struct('StringNode', 'mesonbuild.mparser:StringNode', value=Str, is_fstring=Const(_fs), is_multiline=Const(_ml))},
                 ensures=[f"len({_DALL}) == 1 and {_DALL}[0][0] == '{_m}' and " + (f"{_DALL}[0][1] is cur" if _fs else f"{_DALL}[0][1] == cur.value") + f" and result is {_DALL}[0][-1]"],
                 raises={'MesonException': 'True'}, exact_raises=False, method_effects=_LME, modifies=['self.current_node'], floor=2,
                 note="a plain string literal evaluates to the holder of its (already decoded) value — placeholders are substituted in f-strings only")
REG.contract('C01', IB, 'InterpreterBase.evaluate_statement', variant='ParenthesizedNode', params={'self': _BASE_CN, 'cur': Struct('ParenthesizedNode', 'mesonbuild.mparser:ParenthesizedNode', inner=Obj)},
             ensures=[f"len({_DALL}) == 1 and {_DALL}[0][0] == 'evaluate_statement' and {_DALL}[0][1] is cur.inner and result is {_DALL}[0][-1]"],
             raises={'MesonException': 'True'}, exact_raises=False, method_effects=_LME, modifies=['self.current_node'], floor=2,
             note='parentheses only group: the value is the value of the inner expression')


# ---- escape decoding of '...' literals (statement: escape decoding only for '...'): ONE pass of the one escape pattern over the raw text,
# so that what an escape produces (the backslash of `\\\\`) is never read as the start of another escape (round nine; the pattern
# itself is compared with the documented escape sequences in contracts/regexes.py)
_RS = "[e for e in __trace__ if e[0] == 're.sub']"
REG.contract('C01', 'mesonbuild/mparser.py', 'StringNode.escape', variant='c01',
             params={'self': Struct('StringNode', 'mesonbuild.mparser:StringNode', raw_value=Str, is_multiline=Bool, value=Str)},
             raises={'UnicodeDecodeError': 'True'}, exact_raises=False,
             ensures=[f"len({_RS}) == 1", f"{_RS}[0][1] is ESCAPE_SEQUENCE_SINGLE_RE", f"{_RS}[0][2] == self.raw_value", f"result == {_RS}[0][3]"], result=Str, floor=1,
             note="the value of a '...' literal is ONE re.sub pass over its raw text with the one escape pattern: escapes are decoded once, left to right, and decoded text is not scanned again")
