"""C01 — kernel clauses of the language semantics (interpreter primitives and evaluation order)"""
from pyvc.api import Int, Bool, Str, Seq, Struct, Loop, Opt, List, Set, Obj, Const, Dict
from contracts import REG

IP = 'mesonbuild/interpreter/primitives/integer.py'
AP = 'mesonbuild/interpreter/primitives/array.py'
IB = 'mesonbuild/interpreterbase/interpreterbase.py'
IntH = Struct('IntegerHolder', 'mesonbuild.interpreter.primitives.integer:IntegerHolder', held_object=Int)
DROP = ['decorators typed_operator / InterpreterObject.operator: the operand type check happens before the call (precondition: other is an int)']
REG.contract('C01', IP, 'IntegerHolder.op_div', params={'self': IntH, 'other': Int},
             ensures=['result == self.held_object // other', 'other * result <= self.held_object if other > 0 else other * result >= self.held_object',
                      'self.held_object - other * result < other if other > 0 else self.held_object - other * result > other'],
             raises={'InvalidArguments': 'other == 0'}, dropped=DROP, floor=4,
             note='floor division: the quotient rounds towards minus infinity; division by zero is an error')
REG.contract('C01', IP, 'IntegerHolder.op_mod', params={'self': IntH, 'other': Int},
             ensures=['result == self.held_object % other', '(0 <= result and result < other) if other > 0 else (other < result and result <= 0)',
                      'self.held_object == other * (self.held_object // other) + result'],
             raises={'InvalidArguments': 'other == 0'}, dropped=DROP, floor=4,
             note='modulo has the sign of the divisor')
ArrH = Struct('ArrayHolder', 'mesonbuild.interpreter.primitives.array:ArrayHolder', held_object=List(Obj), current_node=Obj, subproject=Str)
REG.contract('C01', AP, 'ArrayHolder.op_plus', variant='list', params={'self': ArrH, 'other': List(Obj)},
             ensures=['result == self.held_object + other', 'result is not self.held_object', 'result is not other'],
             dropped=['decorator InterpreterObject.operator'], floor=4,
             note='+ and += build a NEW array; neither operand is changed (the frame clause on self.held_object is generated automatically)')
REG.contract('C01', AP, 'ArrayHolder.op_plus', variant='element', params={'self': ArrH, 'other': Obj}, requires=['not isinst(other, list)'],
             ensures=['result == self.held_object + unit(other)', 'result is not self.held_object'],
             dropped=['decorator InterpreterObject.operator'], floor=3)
REG.contract('C01', AP, 'ArrayHolder.op_index', params={'self': ArrH, 'other': Int},
             ensures=['result == (self.held_object[other] if other >= 0 else self.held_object[len(self.held_object) + other])'],
             raises={'InvalidArguments': 'other < -len(self.held_object) or other >= len(self.held_object)'}, dropped=DROP, floor=3,
             note='negative indices count from the end; out of range is an error, never a wrap-around')

# ---- short-circuit evaluation: the right operand is evaluated iff the left one does not decide
NodeS = Struct('AndNode', 'mesonbuild.mparser:AndNode', left=Obj, right=Obj)
BaseS = Struct('InterpreterBase', 'mesonbuild.interpreterbase.interpreterbase:InterpreterBase')
EVS = "[e for e in __trace__ if e[0] == 'evaluate_statement']"
HOL = "[e for e in __trace__ if e[0] == '_holderify']"
ME = {'evaluate_statement': {'returns': Opt(Obj), 'raises': []}, '_holderify': {'returns': Obj, 'raises': []}}
for fn, decides in (('evaluate_andstatement', 'not'), ('evaluate_orstatement', '')):
    cls = 'AndNode' if 'and' in fn else 'OrNode'
    REG.contract('C01', IB, f'InterpreterBase.{fn}', params={'self': BaseS, 'cur': Struct(cls, f'mesonbuild.mparser:{cls}', left=Obj, right=Obj)},
                 ensures=[f"{EVS}[0][1] is cur.left",
                          f"(len({EVS}) == 2) == (not isinst({EVS}[0][-1], Disabler) and not ({decides} obj_operator_call({EVS}[0][-1])))",
                          f"({EVS}[1][1] is cur.right) if len({EVS}) == 2 else len({EVS}) == 1",
                          # the value: a disabler operand is passed through; otherwise the result is ALWAYS the (holderified) value
                          # of the BOOL operator of the deciding operand — never an operand itself (no implicit conversion)
                          f"(result is {EVS}[0][-1] and len({HOL}) == 0) if isinst({EVS}[0][-1], Disabler) else True",
                          f"((result is {EVS}[1][-1] and len({HOL}) == 0) if isinst({EVS}[1][-1], Disabler) else True) if len({EVS}) == 2 else True",
                          f"(len({HOL}) == 1 and result is {HOL}[0][-1] and {HOL}[0][1] == obj_operator_call({EVS}[0][-1])) if (len({EVS}) == 1 and not isinst({EVS}[0][-1], Disabler)) else True",
                          f"((len({HOL}) == 1 and result is {HOL}[0][-1] and {HOL}[0][1] == obj_operator_call({EVS}[1][-1])) if not isinst({EVS}[1][-1], Disabler) else True) if len({EVS}) == 2 else True"],
                 raises={'MesonException': f"{EVS}[0][-1] is None or (len({EVS}) == 2 and {EVS}[1][-1] is None)" if False else 'True'}, exact_raises=False,
                 method_effects=ME, opaque={'operator_call': ([], Bool)}, floor=9,
                 note='the left operand is always evaluated first and once; the right operand is evaluated iff the left one is ' + ('true' if 'and' in fn else 'false') + ' (and is not a disabler)')

# ---- range(): the cases in which it is an error (docs/yaml/functions/range.yaml) and the holder it builds otherwise
from pyvc.api import TupleS
II = 'mesonbuild/interpreter/interpreter.py'
_S, _E, _P = '(0 if args[1] is None else args[0])', '(args[0] if args[1] is None else args[1])', '(1 if args[2] is None else args[2])'
RH = "[e for e in __trace__ if e[0] == 'new RangeHolder']"
REG.contract('C01', II, 'Interpreter.func_range',
             params={'self': Struct('Interpreter', 'mesonbuild.interpreter.interpreter:Interpreter', subproject=Str), 'node': Obj,
                     'args': TupleS(Int, Opt(Int), Opt(Int)), 'kwargs': Obj},
             raises={'InterpreterException': f'{_S} < 0 or {_E} < {_S} or {_P} < 1'},
             ensures=[f'len({RH}) == 1 and result is {RH}[0][-1]',
                      f'{RH}[0][1] == {_S} and {RH}[0][2] == {_E} and {RH}[0][3] == {_P}',
                      f"kw({RH}[0], 'subproject', '') == self.subproject"],
             opaque_classes=['RangeHolder'],
             dropped=['decorators noKwargs / FeatureNew / typed_pos_args: the argument types (int, optional int, optional int) are checked before the call (precondition: the shape of args)'],
             floor=5, note='range(stop) / range(start, stop) / range(start, stop, step): an error iff start < 0, stop < start or step < 1 (an explicit step of 0 included); otherwise exactly the requested progression')

# ---- += : always a NEW value (the holderified result of the PLUS operator of the old value), bound to the name; the old value
# object is only asked for that result — nothing else is done to it (it may be shared with other names)
PAS = Struct('PlusAssignmentNode', 'mesonbuild.mparser:PlusAssignmentNode', var_name=Struct('IdNode', 'mesonbuild.mparser:IdNode', value=Str), value=Obj)
GV = "[e for e in __trace__ if e[0] == 'get_variable']"
SV = "[e for e in __trace__ if e[0] == 'set_variable']"
OPC = "[e for e in __trace__ if e[0] == 'operator_call']"
OTHER = "[e for e in __trace__ if e[0] not in ('evaluate_statement', 'get_variable', 'set_variable', 'operator_call', '_holderify', 'setattr')]"
REG.contract('C01', IB, 'InterpreterBase.evaluate_plusassign', params={'self': BaseS, 'node': PAS},
             ensures=[f"len({EVS}) == 1 and {EVS}[0][1] is node.value",
                      f"len({GV}) == 1 and {GV}[0][1] == node.var_name.value",
                      # the old value is asked for old + addition, once, and for nothing else
                      f"len({OPC}) == 1 and {OPC}[0][1] is {GV}[0][-1] and {OPC}[0][2] is MesonOperator.PLUS and {OPC}[0][3] is fn__unholder({EVS}[0][-1])",
                      f"len({HOL}) == 1 and {HOL}[0][1] is {OPC}[0][-1]",
                      # and the NAME is bound to the new (holderified) value
                      f"len({SV}) == 1 and {SV}[0][1] == node.var_name.value and {SV}[0][2] is {HOL}[0][-1]",
                      f"len({OTHER}) == 0",
                      f"all(e[1] is {GV}[0][-1] and e[2] == 'current_node' for e in [e for e in __trace__ if e[0] == 'setattr'])"],
             raises={'InvalidCodeOnVoid': 'True', 'MesonException': 'True'}, exact_raises=False,
             method_effects={'evaluate_statement': {'returns': Opt(Obj), 'raises': ['MesonException']}, 'get_variable': {'returns': Obj, 'raises': ['MesonException']},
                             'operator_call': {'returns': Obj, 'raises': ['MesonException']}, '_holderify': {'returns': Obj, 'raises': []}, 'set_variable': []},
             opaque_fns={'_unholder': ([Obj], Obj)}, floor=7,
             note='`name += value`: one evaluation of the right-hand side, one PLUS operator call on the current value of the name, the result made a new value object and bound to the name; the old value object is not modified (values are immutable: another name bound to it keeps seeing the old value)')
