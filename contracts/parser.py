"""C02 — the lexer's token table, audited by SMT on the REAL regular expressions and the REAL source of Lexer.lex:
progress (no table pattern matches the empty string, so `loc` strictly increases) and line bookkeeping (a token kind
whose language admits a newline must update lineno/line_start in lex)."""
import ast
from contracts import REG

P = 'mesonbuild/mparser.py'


def kinds_updating_lineno(fs):
    """token kinds for which Lexer.lex assigns lineno: from the AST of the real function"""
    out = set()
    for n in ast.walk(fs.node):
        if isinstance(n, ast.If):
            tids = set()
            for c in ast.walk(n.test):
                if isinstance(c, ast.Compare) and isinstance(c.left, ast.Name) and c.left.id == 'tid':
                    for comp in c.comparators:
                        for k in ast.walk(comp):
                            if isinstance(k, ast.Constant) and isinstance(k.value, str):
                                tids.add(k.value)
            if not tids:
                continue
            assigns = False
            for b in n.body:
                for x in ast.walk(b):
                    if isinstance(x, (ast.AugAssign, ast.Assign)):
                        tg = x.target if isinstance(x, ast.AugAssign) else x.targets[0]
                        if isinstance(tg, ast.Name) and tg.id == 'lineno':
                            assigns = True
            if assigns:
                out |= tids
    return out


def lexer_table(engine):
    import z3
    from pyvc import src, regex as rx
    from pyvc.core import Obligation
    fs = src.find(P, 'Lexer.lex')
    mod = src.import_module(P)
    upd = kinds_updating_lineno(fs)
    obls = []
    for machinefile in (False, True):
        lx = mod.Lexer('', machinefile=machinefile)
        for tid, reg in lx.token_specification:
            notes = set()
            lang = rx.whole_language(reg, notes)
            tag = f'{tid}' + ('[machinefile]' if machinefile else '')
            if lang is None:
                from pyvc.core import Unsupported
                raise Unsupported(f'token pattern {tag} {reg.pattern!r} is outside the translatable regex subset')
            s = z3.String('tok')
            obls.append(Obligation(f'{tag}/never-empty', 'table', [z3.InRe(s, lang)], z3.Length(s) > 0, fs.lines[0], '',
                                   f'{reg.pattern!r} never matches the empty string (the scan position strictly increases)'))
            if tid not in upd:
                obls.append(Obligation(f'{tag}/newline-free', 'table', [z3.InRe(s, lang)], z3.Not(z3.Contains(s, z3.StringVal('\n'))), fs.lines[0], '',
                                       f'lex does not update lineno for kind {tid!r}, so {reg.pattern!r} must not match a newline'))
        # single-character tokens: only the newline token may contain a newline, and lex updates lineno for it
        for ch, tid in lx.single_char_tokens.items():
            if '\n' in ch and 'eol' not in upd:
                obls.append(Obligation(f'single[{tid}]/newline', 'table', [], z3.BoolVal(False), fs.lines[0], '', 'the newline token does not update lineno'))
    if len(obls) < 20:
        obls.append(Obligation('table-size', 'table', [], z3.BoolVal(False), 0, '', 'fewer obligations than the token table has entries'))
    return obls


REG.custom('C02', 'Lexer.token_table', lexer_table,
           note='SMT audit of the live token table against the AST of Lexer.lex: progress and newline bookkeeping per token kind')
