"""C02 — the lexer's token table, audited by SMT on the REAL regular expressions and the REAL source of Lexer.lex:
progress (no table pattern matches the empty string, so `loc` strictly increases) and line bookkeeping (a token kind
whose language admits a newline must update lineno/line_start in lex)."""
import ast
from contracts import REG

P = 'mesonbuild/mparser.py'


def kinds_updating_lineno(fs):
    """token kinds for which Lexer.lex assigns lineno: from the AST of the real function"""
    out = set()
    for n in ast.walk(fs.node):
        if isinstance(n, ast.If):
            tids = set()
            for c in ast.walk(n.test):
                if isinstance(c, ast.Compare) and isinstance(c.left, ast.Name) and c.left.id == 'tid':
                    for comp in c.comparators:
                        for k in ast.walk(comp):
                            if isinstance(k, ast.Constant) and isinstance(k.value, str):
                                tids.add(k.value)
            if not tids:
                continue
            assigns = False
            for b in n.body:
                for x in ast.walk(b):
                    if isinstance(x, (ast.AugAssign, ast.Assign)):
                        tg = x.target if isinstance(x, ast.AugAssign) else x.targets[0]
                        if isinstance(tg, ast.Name) and tg.id == 'lineno':
                            assigns = True
            if assigns:
                out |= tids
    return out


def lexer_table(engine):
    import z3
    from pyvc import src, regex as rx
    from pyvc.core import Obligation
    fs = src.find(P, 'Lexer.lex')
    mod = src.import_module(P)
    upd = kinds_updating_lineno(fs)
    obls = []
    for machinefile in (False, True):
        lx = mod.Lexer('', machinefile=machinefile)
        for tid, reg in lx.token_specification:
            notes = set()
            lang = rx.whole_language(reg, notes)
            tag = f'{tid}' + ('[machinefile]' if machinefile else '')
            if lang is None:
                from pyvc.core import Unsupported
                raise Unsupported(f'token pattern {tag} {reg.pattern!r} is outside the translatable regex subset')
            s = z3.String('tok')
            obls.append(Obligation(f'{tag}/never-empty', 'table', [z3.InRe(s, lang)], z3.Length(s) > 0, fs.lines[0], '',
                                   f'{reg.pattern!r} never matches the empty string (the scan position strictly increases)'))
            if tid == 'number':
                # the text of a number token is converted by int(text, base=0) (NumberNode): it must be a literal that conversion
                # accepts — binary / octal / hexadecimal with prefix, zeros, or a decimal WITHOUT a leading zero — or a bare
                # ValueError escapes from the parser
                D = lambda a, b: z3.Range(a, b)
                U = lambda *xs: z3.Union(*xs)
                hexd = U(D('0', '9'), D('a', 'f'), D('A', 'F'))
                ok = U(z3.Concat(z3.Re('0'), U(z3.Re('b'), z3.Re('B')), z3.Plus(D('0', '1'))), z3.Concat(z3.Re('0'), U(z3.Re('o'), z3.Re('O')), z3.Plus(D('0', '7'))),
                       z3.Concat(z3.Re('0'), U(z3.Re('x'), z3.Re('X')), z3.Plus(hexd)), z3.Plus(z3.Re('0')), z3.Concat(D('1', '9'), z3.Star(D('0', '9'))))
                obls.append(Obligation(f'{tag}/converts', 'table', [z3.InRe(s, lang)], z3.InRe(s, ok), fs.lines[0], '',
                                       f'every text the number pattern {reg.pattern!r} matches is accepted by int(text, base=0)'))
            if tid not in upd:
                obls.append(Obligation(f'{tag}/newline-free', 'table', [z3.InRe(s, lang)], z3.Not(z3.Contains(s, z3.StringVal('\n'))), fs.lines[0], '',
                                       f'lex does not update lineno for kind {tid!r}, so {reg.pattern!r} must not match a newline'))
        # single-character tokens: only the newline token may contain a newline, and lex updates lineno for it
        for ch, tid in lx.single_char_tokens.items():
            if '\n' in ch and 'eol' not in upd:
                obls.append(Obligation(f'single[{tid}]/newline', 'table', [], z3.BoolVal(False), fs.lines[0], '', 'the newline token does not update lineno'))
    if len(obls) < 20:
        obls.append(Obligation('table-size', 'table', [], z3.BoolVal(False), 0, '', 'fewer obligations than the token table has entries'))
    return obls


REG.custom('C02', 'Lexer.token_table', lexer_table,
           note='SMT audit of the live token table against the AST of Lexer.lex: progress and newline bookkeeping per token kind')


# ---- Lexer.lex as a whole: the tokens tile the text (adjacent, non-empty byte spans from 0 to the end), the scan position
# strictly increases, and nothing but ParseException escapes.  The regexes are abstract matches constrained to the language of
# the live pattern (pyvc/regex.py); the token table is the real one, read from a Lexer instance.
from pyvc.api import Int, Bool, Str, Seq, Struct, Loop, Opt, List, Set, Obj, Const, Rec


def _lexer_consts(machinefile):
    import sys, os
    from pyvc import src as _src
    mod = _src.import_module(P)
    lx = mod.Lexer('', machinefile=machinefile)
    return lx


TokenR = Rec('Token', tid=Str, filename=Str, line_start=Int, lineno=Int, colno=Int, bytespan_0=Int, bytespan_1=Int, value=Str)
REG.consts.update(TokenR=TokenR)


@REG.spec([Seq(TokenR), Int, Int], Bool)
def tiles(ys, n, end):
    """the first n tokens cover [0, end) with adjacent non-empty spans"""
    if n <= 0:
        return end == 0
    return ys[n - 1].bytespan_1 == end and ys[n - 1].bytespan_0 < end and tiles(ys, n - 1, ys[n - 1].bytespan_0)


REG.contract('C02', P, 'Lexer.getline', inline=True, trusted=True, note='inlined: the text of the current line for error messages')
# tiling of the yielded tokens, pointwise (quantified over the index) so that appending one token needs no induction
TILES = ('forall(Int, lambda k: implies(0 <= k and k < len(__yield__), __yield__[k].bytespan_0 < __yield__[k].bytespan_1 and '
         '__yield__[k].bytespan_0 == (0 if k == 0 else __yield__[k - 1].bytespan_1)))')
LAST = '(loc == 0) if len(__yield__) == 0 else (__yield__[len(__yield__) - 1].bytespan_1 == loc)'
try:
    for _mf in (False, True):
        _lx = _lexer_consts(_mf)
        LexS = Struct('Lexer', 'mesonbuild.mparser:Lexer', code=Str, keywords=Const(_lx.keywords), future_keywords=Const(_lx.future_keywords),
                      token_specification=Const(_lx.token_specification), single_char_tokens=Const(_lx.single_char_tokens), in_unit_test=Const(_lx.in_unit_test))
        REG.contract('C02', P, 'Lexer.lex', variant='machinefile' if _mf else '', params={'self': LexS, 'filename': Str},
                     ensures=['tiles(__yield__, len(__yield__), len(self.code))'],
                     raises={'ParseException': 'True'}, exact_raises=False, yields=TokenR,
                     loops={0: Loop(invariant=['loc >= 0 and loc <= len(self.code)', 'line_start >= 0 and line_start <= loc', 'tiles(__yield__, len(__yield__), loc)'],
                                    decreases='len(self.code) - loc')},
                     uses=[('L02.tiles_append', {'ys': '*', 't': '*'})],
                     opaque_classes=['BaseNode'], floor=30, shards=4,
                     note='tokens tile the text; the position strictly increases (termination); only ParseException escapes')
except ImportError:      # pragma: no cover
    pass

# ---- escape decoding of '...' literals: nothing but UnicodeDecodeError may come out of the decoder (StringNode.__init__ turns
# exactly that into a located ParseException); the escape text is first encoded with an encoding that can encode EVERY text
from pyvc.api import MatchS
REG.contract('C02', P, 'decode_match', params={'match': MatchS('ESCAPE_SEQUENCE_SINGLE_RE', 'search')},
             raises={'UnicodeDecodeError': 'True'}, exact_raises=False, ensures=['True'], result=Str, floor=2,
             note='callback of the single re.sub pass over a string literal: may fail with UnicodeDecodeError (unknown character name, code point out of range) and with nothing else, whatever characters the escape contains (\\N{...} admits any)')
StrNS = Struct('StringNode', 'mesonbuild.mparser:StringNode', raw_value=Str, is_multiline=Bool, value=Str)
REG.contract('C02', P, 'StringNode.escape', params={'self': StrNS}, raises={'UnicodeDecodeError': 'True'}, exact_raises=False,
             ensures=["len([e for e in __trace__ if e[0] == 're.sub']) == 1", "[e for e in __trace__ if e[0] == 're.sub'][0][1] is ESCAPE_SEQUENCE_SINGLE_RE",
                      "[e for e in __trace__ if e[0] == 're.sub'][0][2] == self.raw_value", "result == [e for e in __trace__ if e[0] == 're.sub'][0][3]"], result=Str, floor=1,
             note='ONE re.sub pass over the RAW text of the literal with the one escape pattern and decode_match as the callback (so the text an escape produces is never scanned again): whatever the callback may raise, and nothing else')
TokS = Struct('Token', 'mesonbuild.mparser:Token', lineno=Int, colno=Int)
REG.contract('C02', P, 'StringNode.__init__', variant='escape-step', region=('If', 'self.value = self.escape()'),
             params={'self': StrNS, 'token': TokS, 'escape': Bool},
             raises={'ParseException': 'True'}, exact_raises=False,
             ensures=["(len([e for e in __trace__ if e[0] == 'escape']) == 1) == (escape and not self.is_multiline)"],
             method_effects={'escape': {'returns': Str, 'raises': ['UnicodeDecodeError']}}, modifies=['self.value'], floor=3,
             note='escape decoding happens for single-line literals only, once; a failing escape (UnicodeDecodeError — the only exception StringNode.escape lets out, see its contract) becomes a located ParseException: no internal Python error escapes')
