"""C04 — contracts on the manifest bookkeeping of mesonbuild/backend/ninjabackend.py"""
from pyvc.api import Int, Bool, Str, Seq, Struct, Loop, Opt, List, Set, Obj, Const, Dict
from contracts import REG

N = 'mesonbuild/backend/ninjabackend.py'
ElemS = Struct('NinjaBuildElement', 'mesonbuild.backend.ninjabackend:NinjaBuildElement', outfilenames=List(Str), all_outputs=Set(Str),
               output_errors=Str, rulename=Str, rule=Opt(Obj))
REG.contract('C04', N, 'NinjaBuildElement.check_outputs', params={'self': ElemS},
             ensures=['forall(Str, lambda x: (x in new(self).all_outputs) == (x in self.all_outputs or occurs(self.outfilenames, len(self.outfilenames), x)))',
                      "(new(self).output_errors != '') == (self.output_errors != '' or clash(self.outfilenames, len(self.outfilenames), self.all_outputs))"],
             loops={0: Loop(invariant=['forall(Str, lambda x: (x in self.all_outputs) == (x in old_self.all_outputs or occurs(self.outfilenames, __i, x)))',
                                       "(self.output_errors != '') == (old_self.output_errors != '' or clash(self.outfilenames, __i, old_self.all_outputs))",
                                       'self.outfilenames == old_self.outfilenames'])},
             modifies=['self.all_outputs', 'self.output_errors'], floor=8,
             note='every output path is registered in the shared set; a path registered before (by another statement or earlier in this one) marks the element as erroneous, and write() then refuses')
BuildS = Struct('NinjaBuild', 'mesonbuild.backend.ninjabackend:NinjaBuild', rules=List(Obj), ruledict=Dict(Str, Obj), build_elements=List(Obj))
REG.contract('C04', N, 'NinjaBuild.add_build', params={'self': BuildS, 'build': ElemS},
             ensures=['forall(Str, lambda x: (x in new(build).all_outputs) == (x in build.all_outputs or occurs(build.outfilenames, len(build.outfilenames), x)))',
                      "(new(build).output_errors != '') == (build.output_errors != '' or clash(build.outfilenames, len(build.outfilenames), build.all_outputs))",
                      'len(new(self).build_elements) == len(self.build_elements) + 1',
                      "implies(build.rulename != 'phony' and build.rulename in self.ruledict, new(build).rule is self.ruledict[build.rulename])"],
             modifies=['self.build_elements', 'build.all_outputs', 'build.output_errors', 'build.rule'], floor=6,
             note='EVERY build statement (phony ones included) has its outputs checked and registered; a non-phony one is bound to its defined rule')
RuleS = Struct('NinjaRule', 'mesonbuild.backend.ninjabackend:NinjaRule', name=Str)
REG.contract('C04', N, 'NinjaBuild.add_rule', params={'self': BuildS, 'rule': RuleS},
             ensures=['rule.name in new(self).ruledict', 'len(new(self).rules) == len(self.rules) + 1'],
             raises={'MesonException': 'rule.name in self.ruledict'}, modifies=['self.rules', 'self.ruledict'], floor=4,
             note='rule names are unique')

# ---- every build statement uses a defined rule: a rule is written in its plain flavour iff a statement uses it without a
# response file, and in its _RSP flavour iff a statement uses it with one — independently of each other
RuleCnt = Struct('NinjaRule', 'mesonbuild.backend.ninjabackend:NinjaRule', refcount=Int, rsprefcount=Int)
REG.contract('C04', N, 'NinjaRule.write.<locals>.rule_iter', params={'self': RuleCnt}, requires=['self.refcount >= 0', 'self.rsprefcount >= 0'],
             ensures=["('' in __yield__) == (self.refcount > 0)", "('_RSP' in __yield__) == (self.rsprefcount > 0)",
                      "len(__yield__) == (1 if self.refcount > 0 else 0) + (1 if self.rsprefcount > 0 else 0)"],
             yields=Str, floor=3,
             note='the flavours of a rule that are written are exactly the flavours that build statements refer to')

# ---- what meson-test-prereq / meson-benchmark-prereq are made of: for every test, the target behind its program, behind every
# argument and behind every depends: entry (one output of a custom target stands for that target).  Stated for one test with
# at most one argument and one depends: entry (the loops are unrolled; the iterations are independent).
from pyvc.api import TupleS
BK = 'mesonbuild/backend/backends.py'
TLIKE = lambda x: f"(isinst({x}, build.CustomTargetIndex) or isinst({x}, build.CustomTarget) or isinst({x}, build.BuildTarget))"
TGT = lambda x: f"(attr_target({x}) if isinst({x}, build.CustomTargetIndex) else {x})"
for na_, nd_ in ((0, 0), (1, 0), (0, 1), (1, 1)):
    TestS = Struct('Test', 'mesonbuild.interpreter.interpreterobjects:Test', exe=Obj, cmd_args=TupleS(*([Obj] * na_)), depends=TupleS(*([Obj] * nd_)))
    BuildS2 = Struct('Build', 'mesonbuild.build:Build', tests=TupleS(TestS), benchmarks=TupleS(TestS))
    BackS = Struct('Backend', 'mesonbuild.backend.backends:Backend', build=BuildS2)
    for bm_ in (False, True):
        T_ = f"self.build.{'benchmarks' if bm_ else 'tests'}[0]"
        R = 'list(result)'
        A = TLIKE(T_ + '.exe')
        ens = [f"(implies({A}, {R}[0] is {TGT(T_ + '.exe')}) if len({R}) > 0 else not {A})"]
        cnt = f"(1 if {A} else 0)"
        if na_:
            B = TLIKE(T_ + '.cmd_args[0]')
            cnt += f" + (1 if {B} else 0)"
            ens += [f"(implies({A} and {B}, {R}[1] is {TGT(T_ + '.cmd_args[0]')}) if len({R}) > 1 else not ({A} and {B}))",
                    f"(implies(not {A} and {B}, {R}[0] is {TGT(T_ + '.cmd_args[0]')}) if len({R}) > 0 else not {B})"]
        if nd_:
            cnt += " + 1"
            ens += [f"({R}[-1] is {TGT(T_ + '.depends[0]')}) if len({R}) > 0 else False"]
        ens += [f"len({R}) == {cnt}"]
        REG.contract('C04', BK, 'Backend.get_testlike_targets', variant=f"{'benchmark' if bm_ else 'test'}-a{na_}-d{nd_}",
                     params={'self': BackS, 'benchmark': Const(bm_)},
                     ensures=ens, raises={'AssertionError': 'True'}, exact_raises=False,
                     yields=Obj, opaque_attrs={'target': Obj}, floor=1,
                     note=f"one {'benchmark' if bm_ else 'test'} with {na_} argument(s) and {nd_} depends: entr{'y' if nd_ == 1 else 'ies'}: the prerequisites are, in order, the target behind the program (whatever kind of build target it is — an executable, a jar, a custom target or one output of it), behind each argument that is a target, and behind each depends: entry")
REG.contract('C04', 'mesonbuild/build.py', 'Build.get_tests', inline=True, trusted=True, note='return self.tests; inlined')
REG.contract('C04', 'mesonbuild/build.py', 'Build.get_benchmarks', inline=True, trusted=True, note='return self.benchmarks; inlined')
