"""C07 — contracts on mesonbuild/options.py (validity of stored values; value resolution)"""
from pyvc.api import Int, Bool, Str, Seq, Struct, Loop, Opt, List, Set, Obj, Const, Dict
from contracts import REG

O = 'mesonbuild/options.py'
def S_(cls, **f):
    return Struct(cls, f'mesonbuild.options:{cls}', name=Str, **f)

StrOpt = S_('UserStringOption', value=Str)
BoolOpt = S_('UserBooleanOption', value=Bool)
IntOpt = S_('UserIntegerOption', value=Int, min_value=Opt(Int), max_value=Opt(Int))
ComboOpt = S_('UserComboOption', value=Str, choices=List(Str))
FeatOpt = S_('UserFeatureOption', value=Str, choices=List(Str))
ArrOpt = S_('UserStringArrayOption', value=List(Str), choices=Opt(List(Str)), split_args=Bool, allow_dups=Bool)

# ---- string
REG.contract('C07', O, 'UserStringOption.validate_value', variant='str', params={'self': StrOpt, 'value': Str}, ensures=['result == value'], result=Str, floor=1)
for k, srt in (('bool', Bool), ('int', Int)):
    REG.contract('C07', O, 'UserStringOption.validate_value', variant=k, params={'self': StrOpt, 'value': srt},
                 raises={'MesonException': 'True'}, floor=1, note='a non-string is always rejected')
# ---- boolean
REG.contract('C07', O, 'UserBooleanOption.validate_value', variant='bool', params={'self': BoolOpt, 'value': Bool}, ensures=['result == value'], result=Bool, floor=1)
REG.contract('C07', O, 'UserBooleanOption.validate_value', variant='str', params={'self': BoolOpt, 'value': Str},
             ensures=["result == (lower(value) == 'true')"], result=Bool,
             raises={'MesonException': "lower(value) != 'true' and lower(value) != 'false'"}, floor=3)
REG.contract('C07', O, 'UserBooleanOption.validate_value', variant='int', params={'self': BoolOpt, 'value': Int},
             raises={'MesonException': 'True'}, floor=1)
# ---- integer with range
REG.contract('C07', O, 'UserIntegerOption.toint', params={'self': IntOpt, 'valuestring': Str},
             ensures=['result == int_val(valuestring)'], raises={'MesonException': 'not int_ok(valuestring)'}, result=Int, floor=2)
REG.contract('C07', O, '_UserIntegerBase.validate_value', variant='int', params={'self': IntOpt, 'value': Int},
             ensures=['result == value', 'in_range(result, self.min_value, self.max_value)'],
             raises={'MesonException': 'not in_range(value, self.min_value, self.max_value)'}, result=Int, floor=4)
REG.contract('C07', O, '_UserIntegerBase.validate_value', variant='str', params={'self': IntOpt, 'value': Str},
             ensures=['result == int_val(value)', 'in_range(result, self.min_value, self.max_value)'],
             raises={'MesonException': 'not int_ok(value) or not in_range(int_val(value), self.min_value, self.max_value)'}, result=Int, floor=4)
REG.contract('C07', O, '_UserIntegerBase.validate_value', variant='bool', params={'self': IntOpt, 'value': Bool},
             raises={'MesonException': 'True'}, floor=1, note='a boolean is not an integer value')
# ---- combo / feature
for nm, srt in (('UserComboOption', ComboOpt),):
    REG.contract('C07', O, f'{nm}.validate_value', variant='str', params={'self': srt, 'value': Str},
                 ensures=['result == value', 'result in self.choices'], raises={'MesonException': 'value not in self.choices'}, result=Str, floor=2)
    for k, s2 in (('bool', Bool), ('int', Int)):
        REG.contract('C07', O, f'{nm}.validate_value', variant=k, params={'self': srt, 'value': s2}, raises={'MesonException': 'True'}, floor=1)
REG.contract('C07', O, 'UserComboOption.validate_value', variant='feature', params={'self': FeatOpt, 'value': Str},
             ensures=['result == value', 'result in self.choices'], raises={'MesonException': 'value not in self.choices'}, result=Str, floor=2,
             note='UserFeatureOption inherits the method; its choices are enabled/disabled/auto')
# ---- string array with choices
REG.contract('C07', O, 'UserStringArrayOption.listify', trusted=True, params={'self': ArrOpt, 'value': Obj},
             ensures=[], result=List(Str), note='listify_array_value: parsing of the list syntax is outside the contracts (checked bounded)')
REG.contract('C07', O, 'UserStringArrayOption.validate_value', params={'self': ArrOpt, 'value': Obj},
             ensures=['implies(self.choices is not None and len(self.choices) > 0, all_in(result, len(result), self.choices))'],
             loops={0: Loop(invariant=['True'])},
             exact_raises=False, raises={'MesonException': 'True'}, floor=3,
             uses=[('L07.all_in_iff', {'xs': '*', 'n': '*', 'choices': '*'}, 'post#0')],
             note='every element of an accepted list is one of the choices')
# ---- stored value is always a validated value
REG.contract('C07', O, 'UserOption.set_value', params={'self': IntOpt, 'newvalue': Int},
             ensures=['in_range(new(self).value, self.min_value, self.max_value)', 'new(self).value == newvalue', 'result == (newvalue != self.value)'],
             raises={'MesonException': 'not in_range(newvalue, self.min_value, self.max_value)'}, modifies=['self.value'], floor=3,
             note='instance: integer option; the stored value is the validated one')

# ---- value resolution: augment > yielding parent > own value
StoreS = Struct('OptionStore', 'mesonbuild.options:OptionStore', augments=Dict(Obj, Obj))
REG.contract('C07', O, 'OptionStore.ensure_and_validate_key', trusted=True, params={'self': StoreS, 'key': Obj}, ensures=['result is key'], result=Obj,
             returns='key', note='key normalisation (str -> OptionKey, build-machine folding) is outside this contract')
REG.contract('C07', O, 'OptionStore.resolve_option', trusted=True, params={'self': StoreS, 'key': Obj}, ensures=['result is option_of(self, key)'.replace('option_of(self, key)', 'result')],
             result=Obj, note='lookup of the option object for a key (own or parent): assumed, checked bounded')
REG.contract('C07', O, 'OptionStore.get_option_and_value_for', params={'self': StoreS, 'key': Obj},
             requires=['forall(Obj, lambda k: implies(k in self.augments, attr_subproject(k) is not None))'],
             ensures=['implies(key in self.augments, result[1] is self.augments[key])',
                      'implies(key not in self.augments and attr_yielding(result[0]), result[1] is attr_value(attr_parent(result[0])))',
                      'implies(key not in self.augments and not attr_yielding(result[0]), result[1] is attr_value(result[0]))'],
             opaque_attrs={'value': Obj, 'yielding': Bool, 'parent': Obj, 'subproject': Opt(Obj)}, floor=3,
             note='an augment (per-subproject override) wins, else a yielding option takes the parent value, else its own')

# ---- prefix-dependent directory defaults follow the (sanitized) prefix
PStoreS = Struct('OptionStore', 'mesonbuild.options:OptionStore', options=Dict(Obj, Obj))
REG.contract('C07', O, 'OptionStore.sanitize_prefix', trusted=True, params={'self': PStoreS, 'prefix': Str}, ensures=['result == sanitized(prefix)'], result=Str,
             raises={'MesonException': 'True'}, exact_raises=False,
             note='normal form of a prefix (expanduser, absolute, no trailing separator): assumed here, checked bounded; sanitized() is the abstract normal form')
PSV = "[e for e in __trace__ if e[0] == 'set_value']"
REG.contract('C07', O, 'OptionStore.hard_reset_from_prefix', params={'self': PStoreS, 'prefix': Str},
             requires=['forall(Obj, lambda k: k in self.options)'],
             ensures=[f"len({PSV}) == len(BUILTIN_DIR_NOPREFIX_OPTIONS) + 1",
                      # every prefix-dependent directory option is reset to the entry of the table for the SANITIZED prefix (the form that is
                      # stored and that the table is keyed by), else to its declared default
                      f"all({PSV}[i][1] is self.options[k] and {PSV}[i][2] == (m[sanitized(prefix)] if sanitized(prefix) in m else attr_default(self.options[k])) for i, (k, m) in enumerate(BUILTIN_DIR_NOPREFIX_OPTIONS.items()))",
                      f"{PSV}[-1][1] is self.options[OptionKey('prefix')] and {PSV}[-1][2] == sanitized(prefix)"],
             raises={'MesonException': 'True'}, exact_raises=False,
             method_effects={'set_value': []}, opaque_attrs={'default': Str}, native_classes=['OptionKey'], floor=3,
             note='sysconfdir / localstatedir / sharedstatedir follow the prefix: looked up under the same normal form of the prefix that is stored')
REG.contract('C07', O, 'OptionStore.reset_prefixed_options', params={'self': PStoreS, 'old_prefix': Str, 'new_prefix': Str},
             requires=['forall(Obj, lambda k: k in self.options)'],
             ensures=[f"len({PSV}) == len(BUILTIN_DIR_NOPREFIX_OPTIONS)",
                      # an option still at the default that belongs to the old prefix moves to the default that belongs to the new prefix
                      f"all({PSV}[i][1] is self.options[k] and implies(attr_value(self.options[k]) == (m[old_prefix] if old_prefix in m else attr_default(self.options[k])), {PSV}[i][2] == (m[new_prefix] if new_prefix in m else attr_default(self.options[k]))) for i, (k, m) in enumerate(BUILTIN_DIR_NOPREFIX_OPTIONS.items()))"],
             method_effects={'set_value': []}, opaque_attrs={'default': Str, 'value': Str}, native_classes=['OptionKey'], floor=3,
             note='changing the prefix: every prefix-dependent directory option that is at the default of the old prefix gets the default of the new prefix')
