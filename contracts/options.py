"""C07 — contracts on mesonbuild/options.py (validity of stored values; value resolution)"""
from pyvc.api import Int, Bool, Str, Seq, Struct, Loop, Opt, List, Set, Obj, Const, Dict, TupleS
from contracts import REG

O = 'mesonbuild/options.py'
def S_(cls, **f):
    return Struct(cls, f'mesonbuild.options:{cls}', name=Str, **f)

StrOpt = S_('UserStringOption', value=Str)
BoolOpt = S_('UserBooleanOption', value=Bool)
IntOpt = S_('UserIntegerOption', value=Int, min_value=Opt(Int), max_value=Opt(Int))
ComboOpt = S_('UserComboOption', value=Str, choices=List(Str))
FeatOpt = S_('UserFeatureOption', value=Str, choices=List(Str))
ArrOpt = S_('UserStringArrayOption', value=List(Str), choices=Opt(List(Str)), split_args=Bool, allow_dups=Bool)

# ---- string
REG.contract('C07', O, 'UserStringOption.validate_value', variant='str', params={'self': StrOpt, 'value': Str}, ensures=['result == value'], result=Str, floor=1)
for k, srt in (('bool', Bool), ('int', Int)):
    REG.contract('C07', O, 'UserStringOption.validate_value', variant=k, params={'self': StrOpt, 'value': srt},
                 raises={'MesonException': 'True'}, floor=1, note='a non-string is always rejected')
# ---- boolean
REG.contract('C07', O, 'UserBooleanOption.validate_value', variant='bool', params={'self': BoolOpt, 'value': Bool}, ensures=['result == value'], result=Bool, floor=1)
REG.contract('C07', O, 'UserBooleanOption.validate_value', variant='str', params={'self': BoolOpt, 'value': Str},
             ensures=["result == (lower(value) == 'true')"], result=Bool,
             raises={'MesonException': "lower(value) != 'true' and lower(value) != 'false'"}, floor=3)
REG.contract('C07', O, 'UserBooleanOption.validate_value', variant='int', params={'self': BoolOpt, 'value': Int},
             raises={'MesonException': 'True'}, floor=1)
# ---- integer with range
REG.contract('C07', O, 'UserIntegerOption.toint', params={'self': IntOpt, 'valuestring': Str},
             ensures=['result == int_val(valuestring)'], raises={'MesonException': 'not int_ok(valuestring)'}, result=Int, floor=2)
REG.contract('C07', O, '_UserIntegerBase.validate_value', variant='int', params={'self': IntOpt, 'value': Int},
             ensures=['result == value', 'in_range(result, self.min_value, self.max_value)'],
             raises={'MesonException': 'not in_range(value, self.min_value, self.max_value)'}, result=Int, floor=4)
REG.contract('C07', O, '_UserIntegerBase.validate_value', variant='str', params={'self': IntOpt, 'value': Str},
             ensures=['result == int_val(value)', 'in_range(result, self.min_value, self.max_value)'],
             raises={'MesonException': 'not int_ok(value) or not in_range(int_val(value), self.min_value, self.max_value)'}, result=Int, floor=4)
REG.contract('C07', O, '_UserIntegerBase.validate_value', variant='bool', params={'self': IntOpt, 'value': Bool},
             raises={'MesonException': 'True'}, floor=1, note='a boolean is not an integer value')
# ---- combo / feature
for nm, srt in (('UserComboOption', ComboOpt),):
    REG.contract('C07', O, f'{nm}.validate_value', variant='str', params={'self': srt, 'value': Str},
                 ensures=['result == value', 'result in self.choices'], raises={'MesonException': 'value not in self.choices'}, result=Str, floor=2)
    for k, s2 in (('bool', Bool), ('int', Int)):
        REG.contract('C07', O, f'{nm}.validate_value', variant=k, params={'self': srt, 'value': s2}, raises={'MesonException': 'True'}, floor=1)
REG.contract('C07', O, 'UserComboOption.validate_value', variant='feature', params={'self': FeatOpt, 'value': Str},
             ensures=['result == value', 'result in self.choices'], raises={'MesonException': 'value not in self.choices'}, result=Str, floor=2,
             note='UserFeatureOption inherits the method; its choices are enabled/disabled/auto')
# ---- string array with choices
REG.contract('C07', O, 'UserStringArrayOption.listify', trusted=True, params={'self': ArrOpt, 'value': Obj},
             ensures=[], result=List(Str), note='listify_array_value: parsing of the list syntax is outside the contracts (checked bounded)')
REG.contract('C07', O, 'UserStringArrayOption.validate_value', params={'self': ArrOpt, 'value': Obj},
             ensures=['implies(self.choices is not None and len(self.choices) > 0, all_in(result, len(result), self.choices))'],
             loops={0: Loop(invariant=['True'])},
             exact_raises=False, raises={'MesonException': 'True'}, floor=3,
             uses=[('L07.all_in_iff', {'xs': '*', 'n': '*', 'choices': '*'}, 'post#0')],
             note='every element of an accepted list is one of the choices')
# ---- stored value is always a validated value
REG.contract('C07', O, 'UserOption.set_value', params={'self': IntOpt, 'newvalue': Int},
             ensures=['in_range(new(self).value, self.min_value, self.max_value)', 'new(self).value == newvalue', 'result == (newvalue != self.value)'],
             raises={'MesonException': 'not in_range(newvalue, self.min_value, self.max_value)'}, modifies=['self.value'], floor=3,
             note='instance: integer option; the stored value is the validated one')

# ---- value resolution: augment > yielding parent > own value
StoreS = Struct('OptionStore', 'mesonbuild.options:OptionStore', augments=Dict(Obj, Obj))
REG.contract('C07', O, 'OptionStore.ensure_and_validate_key', trusted=True, params={'self': StoreS, 'key': Obj}, ensures=['result is key'], result=Obj,
             returns='key', note='key normalisation (str -> OptionKey, build-machine folding) is outside this contract')
REG.contract('C07', O, 'OptionStore.resolve_option', trusted=True, params={'self': StoreS, 'key': Obj}, ensures=['result is option_of(self, key)'.replace('option_of(self, key)', 'result')],
             result=Obj, note='lookup of the option object for a key (own or parent): assumed, checked bounded')
REG.contract('C07', O, 'OptionStore.get_option_and_value_for', params={'self': StoreS, 'key': Obj},
             requires=['forall(Obj, lambda k: implies(k in self.augments, attr_subproject(k) is not None))'],
             ensures=['implies(key in self.augments, result[1] is self.augments[key])',
                      'implies(key not in self.augments and attr_yielding(result[0]), result[1] is attr_value(attr_parent(result[0])))',
                      'implies(key not in self.augments and not attr_yielding(result[0]), result[1] is attr_value(result[0]))'],
             opaque_attrs={'value': Obj, 'yielding': Bool, 'parent': Obj, 'subproject': Opt(Obj)}, floor=3,
             note='an augment (per-subproject override) wins, else a yielding option takes the parent value, else its own')

# ---- prefix-dependent directory defaults follow the (sanitized) prefix
PStoreS = Struct('OptionStore', 'mesonbuild.options:OptionStore', options=Dict(Obj, Obj))
REG.contract('C07', O, 'OptionStore.sanitize_prefix', trusted=True, params={'self': PStoreS, 'prefix': Str}, ensures=['result == sanitized(prefix)'], result=Str,
             raises={'MesonException': 'True'}, exact_raises=False,
             note='normal form of a prefix (expanduser, absolute, no trailing separator): assumed here, checked bounded; sanitized() is the abstract normal form')
PSV = "[e for e in __trace__ if e[0] == 'set_value']"
REG.contract('C07', O, 'OptionStore.hard_reset_from_prefix', params={'self': PStoreS, 'prefix': Str},
             requires=['forall(Obj, lambda k: k in self.options)'],
             ensures=[f"len({PSV}) == len(BUILTIN_DIR_NOPREFIX_OPTIONS) + 1",
                      # every prefix-dependent directory option is reset to the entry of the table for the SANITIZED prefix (the form that is
                      # stored and that the table is keyed by), else to its declared default
                      f"all({PSV}[i][1] is self.options[k] and {PSV}[i][2] == (m[sanitized(prefix)] if sanitized(prefix) in m else attr_default(self.options[k])) for i, (k, m) in enumerate(BUILTIN_DIR_NOPREFIX_OPTIONS.items()))",
                      f"{PSV}[-1][1] is self.options[OptionKey('prefix')] and {PSV}[-1][2] == sanitized(prefix)"],
             raises={'MesonException': 'True'}, exact_raises=False,
             method_effects={'set_value': []}, opaque_attrs={'default': Str}, native_classes=['OptionKey'], floor=3,
             note='sysconfdir / localstatedir / sharedstatedir follow the prefix: looked up under the same normal form of the prefix that is stored')
REG.contract('C07', O, 'OptionStore.reset_prefixed_options', params={'self': PStoreS, 'old_prefix': Str, 'new_prefix': Str},
             requires=['forall(Obj, lambda k: k in self.options)'],
             ensures=[f"len({PSV}) == len(BUILTIN_DIR_NOPREFIX_OPTIONS)",
                      # an option still at the default that belongs to the old prefix moves to the default that belongs to the new prefix
                      f"all({PSV}[i][1] is self.options[k] and implies(attr_value(self.options[k]) == (m[old_prefix] if old_prefix in m else attr_default(self.options[k])), {PSV}[i][2] == (m[new_prefix] if new_prefix in m else attr_default(self.options[k]))) for i, (k, m) in enumerate(BUILTIN_DIR_NOPREFIX_OPTIONS.items()))"],
             method_effects={'set_value': []}, opaque_attrs={'default': Str, 'value': Str}, native_classes=['OptionKey'], floor=3,
             note='changing the prefix: every prefix-dependent directory option that is at the default of the old prefix gets the default of the new prefix')

# ---- the eight-step merge for a subproject (initialize_from_subproject_call), for ALL dictionaries of any size.
# Stated for an arbitrary key q of the subproject and the global key q0 it is the subproject form of (ghost parameters);
# option keys are opaque objects, OptionKey.evolve / as_root uninterpreted with the two facts the argument needs
# (evolve sets the subproject; evolve(., s) is injective on global keys) as listed assumptions.  `values` is a MODEL
# field: the value the store holds for a key, written only through set_user_option.
SubS = Struct('OptionStore', 'mesonbuild.options:OptionStore', pending_subproject_options=Dict(Obj, Obj), pending_options=Dict(Obj, Obj),
              augments=Dict(Obj, Obj), subprojects=Set(Str), values=Dict(Obj, Obj))
OPQ = {'evolve': ([Opt(Str)], Obj, ['subproject']), 'as_root': ([], Obj), 'is_projopt': ([], Bool)}
OPA = {'subproject': Opt(Str)}
OFN = {'dependent': ([Obj, Obj], Bool)}
REG.contract('C07', O, 'OptionStore.is_project_option', variant='opaque', trusted=True, params={'self': SubS, 'key': Obj}, ensures=['result == obj_is_projopt(key)'], result=Bool,
             opaque=OPQ, note='membership in the project-option table: an uninterpreted predicate of the key here')
REG.contract('C07', O, 'OptionStore.option_has_value', variant='opaque', trusted=True, params={'self': SubS, 'key': Obj, 'value': Obj}, ensures=[], result=Bool,
             note='only decides whether a warning is printed')
REG.contract('C07', O, 'OptionStore.set_user_option', variant='model', trusted=True, params={'self': SubS, 'o': Obj, 'new_value': Obj, 'first_invocation': Bool},
             modifies=['self.values'],
             ensures=['o in new(self).values and new(self).values[o] is new_value',
                      'forall(Obj, lambda k: implies(k is not o and not fn_dependent(o, k), ((k in new(self).values) == (k in self.values)) and implies(k in self.values, new(self).values[k] is self.values[k])))'],
             result=Bool, raises={'MesonException': 'True'}, exact_raises=False, opaque_fns=OFN,
             note='MODEL of set_user_option for the merge argument: the store then holds the given value for the key (validation may reject it); only keys that depend on the key (debug/optimization on buildtype) may change as well')
_pd, _mf, _cmd, _sp, _pend = 'project_default_options', 'machine_file_options', 'cmd_line_options', 'spcall_default_options', 'self.pending_subproject_options'
G_ = f'((q0 in {_mf} or q0 in {_cmd}) and not obj_is_projopt(obj_as_root(q0)))'
H1 = f'(q0 in {_pd} and not {G_})'
V1 = f'{_pd}[q0]'
H2 = f'(q in {_pend} or {H1})'
V2 = f'({_pend}[q] if q in {_pend} else {V1})'
H3 = f'(q0 in {_sp} or {H2})'
V3 = f'({_sp}[q0] if q0 in {_sp} else {V2})'
H4 = f'(q in {_mf} or q in {_cmd} or {H3})'
V4 = f'({_cmd}[q] if q in {_cmd} else ({_mf}[q] if q in {_mf} else {V3}))'
DL = Dict(Obj, Obj)
KEEP = '((q in self.values) == had0) and implies(had0, self.values[q] is val0)'
REG.contract('C07', O, 'OptionStore.initialize_from_subproject_call',
             params={'self': SubS, 'subproject': Str, 'spcall_default_options': DL, 'project_default_options': DL, 'cmd_line_options': DL, 'machine_file_options': DL},
             ghosts={'q': Obj, 'q0': Obj, 'had0': Bool, 'val0': Obj},
             requires=['attr_subproject(q0) is None', 'obj_evolve(q0, subproject) is q',
                       'had0 == (q in self.values)', 'implies(had0, self.values[q] is val0)',
                       # facts about OptionKey (checked bounded on the real class): evolve sets the subproject and keeps distinct global keys distinct
                       'forall(Obj, lambda k: attr_subproject(obj_evolve(k, subproject)) == subproject)',
                       'forall(Obj, Obj, lambda k1, k2: implies(attr_subproject(k1) is None and attr_subproject(k2) is None and obj_evolve(k1, subproject) is obj_evolve(k2, subproject), k1 is k2))',
                       'forall(Obj, lambda o: not fn_dependent(o, q))'],
             ensures=[
                 # the documented order, highest first: command-line subp:opt, machine-file subp:opt, subproject(default_options:) opt, parent
                 # default_options subp:opt, [a global command-line / machine-file opt leaves the top-level value in place], the subproject's own default_options opt
                 f'implies({H4} and q not in self.augments, q in new(self).values and new(self).values[q] is {V4})',
                 f'implies(not ({H4} and q not in self.augments), ((q in new(self).values) == had0) and implies(had0, new(self).values[q] is val0))',
                 'subproject in new(self).subprojects'],
             raises={'MesonException': 'True'}, exact_raises=False,
             loops={0: Loop(invariant=['(q in options) == (q0 in __seen)', f'implies(q in options, options[q] is {V1})'], locals={'options': DL}),
                    1: Loop(invariant=[f'(q in options) == (q0 in {_pd} and not ((q0 in __seen0 or q0 in __seen1) and not obj_is_projopt(obj_as_root(q0))))', f'implies(q in options, options[q] is {V1})'], locals={'options': DL}),
                    2: Loop(invariant=[f'(q in options) == (q in __seen or {H1})', f'implies(q in options, options[q] is ({_pend}[q] if q in __seen else {V1}))'], locals={'options': DL}),
                    3: Loop(invariant=[f'(q in options) == (q0 in __seen or {H2})', f'implies(q in options, options[q] is ({_sp}[q0] if q0 in __seen else {V2}))'], locals={'options': DL}),
                    4: Loop(invariant=[f'(q in options) == (q in __seen0 or q in __seen1 or {H3})',
                                       f'implies(q in options, options[q] is ({_cmd}[q] if q in __seen1 else ({_mf}[q] if q in __seen0 else {V3})))'], locals={'options': DL}),
                    5: Loop(invariant=['implies(q in __seen and q not in self.augments, q in self.values and self.values[q] is options[q])',
                                       f'implies(not (q in __seen and q not in self.augments), {KEEP})'])},
             modifies=['self.values', 'self.pending_subproject_options', 'self.pending_options', 'self.subprojects'],
             opaque=OPQ, opaque_attrs=OPA, opaque_fns=OFN, native_classes=['OptionKey'], floor=20,
             note='eight-step precedence for a subproject, for dictionaries of any size: the value handed to the store for key q is the one of the highest-priority source that names it')

# ---- top-level project: prefix first, then default_options < machine file < command line (for dictionaries of any size)
TopS = Struct('OptionStore', 'mesonbuild.options:OptionStore', pending_subproject_options=Dict(Obj, Obj), is_cross=Bool, values=Dict(Obj, Obj))
NAMEA = {'name': Str, 'subproject': Opt(Str)}
REG.contract('C07', O, 'OptionStore.prefix_split_options', params={'self': TopS, 'coll': DL},
             ensures=['forall(Obj, lambda k: (k in result[1]) == (k in coll and attr_name(k) != "prefix"))',
                      'forall(Obj, lambda k: implies(k in result[1], result[1][k] is coll[k]))'],
             raises={'MesonException': 'True'}, exact_raises=False,
             loops={0: Loop(invariant=['forall(Obj, lambda k: (k in others_d) == (k in __seen and attr_name(k) != "prefix"))',
                                       'forall(Obj, lambda k: implies(k in others_d, others_d[k] is coll[k]))'], locals={'others_d': DL, 'prefix': Opt(Obj)})},
             opaque_attrs=NAMEA, floor=4, result=TupleS(Opt(Obj), DL),
             note='splitting off the prefix entry leaves every other entry exactly as it was')
SAMEK = lambda res, src_: f'forall(Obj, lambda k: implies(attr_name(k) != "prefix", ((k in {res}) == (k in {src_})) and implies(k in {src_}, {res}[k] is {src_}[k])))'
HR = "[e for e in __trace__ if e[0] == 'hard_reset_from_prefix']"
REG.contract('C07', O, 'OptionStore.first_handle_prefix', params={'self': TopS, 'project_default_options': DL, 'cmd_line_options': DL, 'machine_file_options': DL},
             ensures=[SAMEK('result[0]', 'project_default_options'), SAMEK('result[1]', 'cmd_line_options'), SAMEK('result[2]', 'machine_file_options'),
                      f'len({HR}) <= 1'],
             raises={'MesonException': 'True', 'AssertionError': 'True'}, exact_raises=False,
             requires=['implies(OptionKey("prefix") in machine_file_options, isinst(machine_file_options[OptionKey("prefix")], str))'],
             result=TupleS(DL, DL, DL),
             method_effects={'hard_reset_from_prefix': ['MesonException']}, opaque_attrs=NAMEA, native_classes=['OptionKey'], floor=5,
             note='the prefix is taken out (and applied first, at most once); every other entry of the three sources is handed on unchanged; the machine-file dictionary of the caller is not mutated (frame)')
TOPQ = {'is_for_build': ([], Bool)}
SKIP = '(not self.is_cross and obj_is_for_build(q))'
TV = f'(cmd_line_options_in[q] if q in cmd_line_options_in else (machine_file_options_in[q] if q in machine_file_options_in else project_default_options_in[q]))'
TH = '(q in cmd_line_options_in or q in machine_file_options_in or q in project_default_options_in)'
REG.contract('C07', O, 'OptionStore.set_user_option', variant='model-top', trusted=True, params={'self': TopS, 'o': Obj, 'new_value': Obj, 'first_invocation': Bool},
             modifies=['self.values'],
             ensures=['o in new(self).values and new(self).values[o] is new_value',
                      'forall(Obj, lambda k: implies(k is not o and not fn_dependent(o, k), ((k in new(self).values) == (k in self.values)) and implies(k in self.values, new(self).values[k] is self.values[k])))'],
             result=Bool, raises={'MesonException': 'True'}, exact_raises=False, opaque_fns=OFN,
             note='MODEL of set_user_option (see the subproject merge): the store then holds the given value under the given key; the aliasing of a global key to the project option of the same name inside set_user_option is outside this model')
REG.contract('C07', O, 'OptionStore.initialize_from_top_level_project_call',
             params={'self': TopS, 'project_default_options_in': DL, 'cmd_line_options_in': DL, 'machine_file_options_in': DL},
             ghosts={'q': Obj, 'had0': Bool, 'val0': Obj},
             requires=['implies(OptionKey("prefix") in machine_file_options_in, isinst(machine_file_options_in[OptionKey("prefix")], str))',
                       'attr_name(q) != "prefix"', 'attr_subproject(q) is None or attr_subproject(q) == ""',
                       'had0 == (q in self.values)', 'implies(had0, self.values[q] is val0)',
                       'forall(Obj, lambda o: not fn_dependent(o, q))'],
             ensures=[
                 # command line > machine file > project(default_options) > what the store held (the declared default)
                 f'implies({TH} and not {SKIP}, q in new(self).values and new(self).values[q] is {TV})',
                 f'implies(not ({TH} and not {SKIP}), ((q in new(self).values) == had0) and implies(had0, new(self).values[q] is val0))'],
             raises={'MesonException': 'True', 'AssertionError': 'True'}, exact_raises=False,
             loops={0: Loop(invariant=[f'implies(q in __seen and not {SKIP}, q in self.values and self.values[q] is project_default_options[q])',
                                       f'implies(not (q in __seen and not {SKIP}), ((q in self.values) == had0) and implies(had0, self.values[q] is val0))']),
                    1: Loop(invariant=[f'implies((q in __seen0 or q in __seen1) and not {SKIP}, q in self.values and self.values[q] is (cmd_line_options[q] if q in __seen1 else machine_file_options[q]))',
                                       f'implies(not ((q in __seen0 or q in __seen1) and not {SKIP}) and q in project_default_options and not {SKIP}, q in self.values and self.values[q] is project_default_options[q])',
                                       f'implies(not ((q in __seen0 or q in __seen1) and not {SKIP}) and not (q in project_default_options and not {SKIP}), ((q in self.values) == had0) and implies(had0, self.values[q] is val0))'])},
             modifies=['self.values', 'self.pending_subproject_options'],
             opaque=TOPQ, opaque_attrs=NAMEA, opaque_fns=OFN, native_classes=['OptionKey'], floor=10,
             note='top-level precedence for dictionaries of any size: command line, then machine file, then project(default_options), then the value the store already held')

# ---- per-machine classification and key normalisation (cross builds).  Option keys are opaque objects with the attributes
# name / subproject / machine; OptionKey.evolve / as_host are uninterpreted with the facts listed as assumptions (checked
# bounded on the real class by C07/bounded/OptionKey-facts).  The builtin per-machine table is read from the live module.
from pyvc import src as _src_
_MC_ = _src_.import_module('mesonbuild/utils/universal.py').MachineChoice
PMQ = {'evolve': ([Opt(Str), Obj], Obj, ['subproject', 'machine']), 'as_host': ([], Obj), 'is_compopt': ([], Bool)}
PMA = {'name': Str, 'subproject': Opt(Str), 'machine': Obj}
PStore = Struct('OptionStore', 'mesonbuild.options:OptionStore', is_cross=Bool)
EV0 = 'obj_evolve(optname, None, MachineChoice.HOST)'
KEYFACTS = ['forall(Obj, Obj, lambda a, b: implies(attr_name(a) == attr_name(b) and attr_subproject(a) == attr_subproject(b) and attr_machine(a) is attr_machine(b), a is b))']
REG.contract('C07', O, 'OptionStore.is_compiler_option', variant='pm', trusted=True, params={'self': PStore, 'key': Obj}, ensures=['result == obj_is_compopt(key)'], result=Bool,
             opaque=PMQ, note='whether the name has a language prefix: an uninterpreted predicate of the key here')
REG.contract('C07', O, 'OptionStore.is_per_machine_option', params={'self': PStore, 'optname': Obj},
             assumes=[f'attr_name({EV0}) == attr_name(optname)', f'attr_subproject({EV0}) is None', f'attr_machine({EV0}) is MachineChoice.HOST'] + KEYFACTS,
             ensures=["result == (attr_name(optname) in ('pkg_config_path', 'cmake_prefix_path') or obj_is_compopt(optname))"],
             result=Bool, pure_expr="(attr_name(optname) in ('pkg_config_path', 'cmake_prefix_path') or obj_is_compopt(optname))",
             opaque=PMQ, opaque_attrs=PMA, floor=1,
             note='an option is per-machine iff its NAME is one of the builtin per-machine options (pkg_config_path, cmake_prefix_path) or it is a compiler option — whatever its subproject and machine')
REG.contract('C07', O, 'OptionStore.ensure_and_validate_key', variant='real', params={'self': PStore, 'key': Obj}, requires=['not isinst(key, str)'],
             ensures=["implies(self.is_cross and (attr_name(key) in ('pkg_config_path', 'cmake_prefix_path') or obj_is_compopt(key)), result is key)",
                      "implies(not (self.is_cross and (attr_name(key) in ('pkg_config_path', 'cmake_prefix_path') or obj_is_compopt(key))), result is obj_as_host(key))"],
             result=Obj, opaque=PMQ, opaque_attrs=PMA, floor=2,
             note='a build-machine key keeps its machine only in a cross build and only for a per-machine option; every other key is folded onto the host machine (as_host). The merge contracts use the trusted identity form of this function: they are stated for host-machine keys')

# ---- which values are treated as paths: directory options only, and never the empty string
import pathlib as _pl
SanS = Struct('OptionStore', 'mesonbuild.options:OptionStore', pure_path_class=Const(_pl.PurePosixPath))
REG.contract('C07', O, 'OptionStore.sanitize_dir_option_value', params={'self': SanS, 'prefix': Str, 'option': Obj, 'value': Str},
             ensures=["implies(value == '' or not attr_name(option).endswith('dir'), result == value)"],
             raises={'MesonException': "attr_name(option).endswith('dir') and value != ''"}, exact_raises=False,
             opaque_attrs={'name': Str, 'parts': Obj}, opaque={'is_absolute': ([], Bool), 'relative_to': ([Str], Obj), 'as_posix': ([], Str)},
             opaque_classes=['PurePosixPath'], floor=2,
             note='a value given for a builtin option is stored as given unless the option is a DIRECTORY option (name ending in dir) and the value is not empty: only then is it read as a path (normalised, made relative to the prefix); the empty string stays empty')

# ---- the classification helpers the merge contracts treat as uninterpreted predicates of the key (obj_is_projopt, obj_is_compopt):
# what each of them IS, for the real functions (round nine).  A compiler option is one whose NAME has a prefix, up to the first '_',
# that is a language of the store — whatever its subproject and machine; project / module options are the declared ones.
ClsS = Struct('OptionStore', 'mesonbuild.options:OptionStore', project_options=Set(Obj), module_options=Set(Obj), all_languages=Set(Str))
REG.contract('C07', O, 'OptionStore.is_project_option', variant='real', params={'self': ClsS, 'key': Obj},
             ensures=['result == (key in self.project_options)'], result=Bool, floor=1,
             note='a project option is a key declared in an option file of its (sub)project: membership in the table of declared project options, nothing else')
REG.contract('C07', O, 'OptionStore.is_module_option', variant='real', params={'self': ClsS, 'key': Obj},
             ensures=['result == (key in self.module_options)'], result=Bool, floor=1, note='a module option is a key a module has declared')
REG.contract('C07', O, 'OptionStore.is_compiler_option', variant='real', params={'self': ClsS, 'key': Obj},
             ensures=["result == ('_' in attr_name(key) and attr_name(key).split('_')[0] in self.all_languages)"],
             result=Bool, opaque_attrs={'name': Str}, floor=2,
             note='a compiler option: the part of the NAME in front of the first underscore is one of the languages in use (c_args, cpp_std, ...); a name without an underscore never is')
REG.contract('C07', O, 'OptionStore.is_backend_option', variant='real', params={'self': ClsS, 'key': Obj}, requires=['not isinst(key, str)'],
             ensures=["result == attr_name(key).startswith('backend_')"], result=Bool, opaque_attrs={'name': Str}, floor=1,
             note='a backend option is recognised by the prefix backend_ of its name')
