import sys
sys.path.insert(0, '/verif')
exec(open('/verif/dev.py').read().split('only = sys.argv')[0])
from pyvc.verify import verify_contract
name = sys.argv[1]
for c in REG.contracts.values():
    if c.trusted or name not in c.name: continue
    r = verify_contract(REG, c)
    print(c.name, r.get('paths'), r.get('undecided'), r.get('error'))
    for o in r['obligations']:
        print('  ', o['status'], o['name'], (o.get('note') or '')[:150])
