#!/bin/sh
# ./reseed.sh <seed-id> [tier] — run the registered check against a filed seed again (meta.json keeps the first outcome)
ID="$1"; P="${ID%%-*}"
B=$(python3 -c "import json;print(json.load(open('seeded/$ID/meta.json'))['breaks'])")
N=$(python3 -c "import json;print(json.load(open('seeded/$ID/meta.json'))['needs_to_manifest'])")
./seedmeta.py "$ID" "$P" "$B" "$N" ${2:-quick}
