#!/bin/sh
# offline setup: nothing to build — verify the tools the checks need are present
set -e
python3-vt -c "import z3; assert z3.get_version_string().startswith('5.'), z3.get_version_string()"
/usr/bin/cvc5 --version >/dev/null
/usr/bin/z3 --version >/dev/null
/venv/bin/python -c "import sys; sys.path.insert(0, '/repo'); import mesonbuild"
mkdir -p evidence replay
echo setup ok
