"""Per-property configuration of the checker: which sidecar modules carry the contracts,
the bounded enumerators, the level, and the clauses that are NOT decided."""
PROPS = {
    'C19': dict(
        modules=['specs.version', 'contracts.version', 'lemmas.version', 'contracts.regexes'],
        bounded=['bounded.version'],
        level='proof',
        design_ref='DESIGN.md §4 C19',
        technique='deductive: VCs generated from the real AST + sidecar contracts, SMT-discharged (z3/cvc5); induction lemmas over spec functions; tokeniser bounded',
        level_text='Every function the statement depends on (Version ordering methods, operator extraction, version_compare[_many], Range algebra, version_check_to_range) carries a contract whose top-level postcondition is taken from the statement; all obligations are generated from /repo source on each run and discharged for all inputs (loop invariants, no bound). Order axioms are induction lemmas over the spec function the code is proved equal to.',
        level_note='Assumed: the regex tokenisation of Version.__init__ (checked bounded against an independent tokeniser), dataclass/copy.copy semantics, CPython tuple hashing, the AST->SMT encoding of pyvc, z3/cvc5.',
        not_decided=[],
    ),
}
PROPS['C20'] = dict(
    modules=['specs.version', 'specs.cargo', 'contracts.cargo', 'lemmas.cargo', 'contracts.regexes'],
    bounded=['bounded.cargo'],
    level='other',
    design_ref='DESIGN.md §4 C20',
    technique='deductive: VCs from the real AST of cargo/version.py and cargo/cfg.py + sidecar contracts, SMT-discharged; SemVer order lemmas by induction; tokenisers and whole-requirement acceptance bounded',
    level_text='SemVer comparison, construction, next_ver, requirement canonicalisation (split) and cargo_parse (per comparator count <= 2) and the cfg evaluator/parser carry contracts taken from the Cargo rule and SemVer section 11; obligations are generated from the source on each run and discharged for all values.',
    level_note='Assumed: regex tokenisation of SemVer strings and the cfg lexer (checked bounded against independent references); cargo_parse is proved for requirements of at most two comparators (all component values), longer lists are covered by the bounded layer only; lru_cache transparent.',
    explanation='deductive proof of the listed clauses for all inputs; level is `other`, not `proof`, because one obligation (the tokeniser pattern against the SemVer identifier grammar) FAILS on the current tree as a recorded, unrepaired finding — the property does not hold there, so discharged < obligations by exactly the obligations listed under known_findings',
    not_decided=['api()/_api_of are outside the statement'],
)
PROPS['C13'] = dict(
    modules=['specs.arglist', 'contracts.arglist', 'lemmas.arglist', 'contracts.regexes'],
    bounded=['bounded.arglist'],
    level='proof',
    design_ref='DESIGN.md §4 C13',
    technique='deductive: data structure against an abstract view; VCs from the real AST of arglist.py with quantified set invariants, SMT-discharged; the step from the abstract view to the eager meaning (lemma L13) bounded-exhaustive on the spec functions',
    level_text='Every mutating and reading method of CompilerArgs is proved, for all contents and all classification tables, to act as the corresponding list operation on the abstraction function view(container, pre, post, flag): flush_pre_post computes it (three loop invariants), += extends pre/post by the accepted split of the batch, the readers flush first. A method that forgets to flush, reorders, loses or invents an argument fails a named obligation.',
    level_note='The container methods are proved for EVERY classification (definitional abstraction can/prep of the pure classmethods _can_dedup/_should_prepend); for the C-like compilers the classification itself is under contract too (_can_dedup[clike], _should_prepend[clike]: tables and order of the tests against the kinds the statement names; the versioned-shared-library pattern compared by SMT with the names the statement means), the other subclasses are not; os.path.isabs uninterpreted; the compiler object opaque. Lemma L13 (view commutes with the statement-level eager meaning) is checked bounded-exhaustively, not proved. __radd__ and extend_preserving_lflags are outside the contracts (__len__ and __eq__ were, until the observation of a sub-agent: both were defective and are now under contract).',
    not_decided=['__radd__', 'CLikeCompilerArgs.to_native group insertion and -isystem filtering'],
)
PROPS['C18'] = dict(
    modules=['specs.tap', 'specs.mtest', 'specs.taprun', 'contracts.tap', 'lemmas.taprun'],
    bounded=['bounded.tap'],
    level='proof',
    design_ref='DESIGN.md §4 C18',
    technique='deductive: VCs from the real AST of TAPParser.parse_line / parse_test (abstract regex matches, path enumeration) against clause-wise postconditions from TAP 12/13; line recognisers and whole streams bounded; TestRunTAP.parse (the verdict fold) under three region contracts with a loop invariant over the event sequence and induction lemmas',
    level_text='parse_line is loop-free: every feasible path of the real function (per entry-state case) is executed symbolically and each clause of the TAP rules (one subtest per test line with number/name/status, plan and count errors, late plan, second plan, YAML handling, version line, bail-out, duplicate/missing numbers at the end, never raising) is an SMT obligation on that path. TestRunTAP.parse: the event loop leaves the provisional verdict equal to the fold tapres over ALL events of the parser (invariant over the iterated sequence; L18.tapres_iff_anybad: set iff some event is an error, a bail-out or a bad subtest), the all-skipped rule never overrides an error or a failure (the loop invariant carries `FAIL implies a recorded bad subtest`, lemmas L18.anybadres_prefix / L18.allskip_not_anybadres by induction), and the final assignment stores the verdict unless the run is already final.',
    level_note='Assumed: the seven regular expressions recognise their line forms (abstract match/group functions; group languages taken from the sub-patterns; checked bounded against an independent recogniser on whole streams); str.rstrip/strip/upper uninterpreted; len(set) uninterpreted. TestRunTAP.parse: TAPParser.parse_async is an effect returning an arbitrary finite event sequence (the async iteration is read as a for loop over it), harness.log_subtest an effect; the warning-formatting tail between the regions is outside the contracts.',
    not_decided=['TestRunTAP.complete (exit status) and the composition of the three regions of TestRunTAP.parse are checked bounded only'],
)
PROPS['C12'] = dict(
    modules=['specs.mtest', 'contracts.mtest', 'lemmas.mtest'],
    bounded=['bounded.mtest', 'bounded.testrun'],
    level='proof',
    design_ref='DESIGN.md §4 C12, §0.6',
    technique='deductive: VCs from the real AST of the TestRun completion methods and the harness counters against the documented exit-code rule; tally / exit-status and slice-partition lemmas by induction / arithmetic; the scheduling clauses, TIMEOUT, the printed totals and testlog.json are checked on generated test sets run by the real `meson test --no-rebuild` (bounded)',
    level_text='The classification rule (0/expected OK, 77 SKIP, 99 ERROR, other FAIL; should_fail inverts OK and FAIL only; a result already set is kept), the TAP exit-status rule, "exactly one counter per result", "exit status non-zero iff a bad result" and "the n slices partition the tests" are proved for all exit codes, flags and result sequences.',
    level_note='NOT decided deductively: exactly-once start, serial isolation and the job bound are properties of asyncio interleavings; TIMEOUT killing involves subprocesses and signals — all of these are observed on real runs instead (every test program records when it started and ended), bounded. Assumed: loggers do not touch the counters; time.time opaque; Python extended-slice semantics (checked bounded); get_tests plumbing around the slice step.',
    not_decided=['scheduling clauses as a proof (bounded only: real runs)', '--maxfail cut-off', 'gtest / rust protocols'],
)
PROPS['C07'] = dict(
    modules=['specs.options', 'contracts.options', 'lemmas.options', 'contracts.setoption', 'contracts.pending'],
    bounded=['bounded.options'],
    level='proof',
    design_ref='DESIGN.md §4 C07, §0.6',
    technique='deductive: VCs from the real AST of the validate_value family, set_value, get_option_and_value_for, the two precedence merges initialize_from_top_level_project_call / initialize_from_subproject_call (dict iteration with a ghost visited-set invariant per loop, option keys opaque, statement for an arbitrary key), prefix_split_options / first_handle_prefix / hard_reset_from_prefix / reset_prefixed_options + sidecar contracts; OptionStore.set_option as a whole (general keys and the buildtype expansion) + sidecar contracts; the end-to-end resolution through the real OptionStore bounded-exhaustive over all 2^8 source subsets',
    level_text='Validity: every validate_value (string, boolean, integer with range, combo/feature, string array with choices) is proved to reject exactly the values violating type/choices/range and to return a valid value; set_value stores the validated value. Resolution: augment > yielding parent > own value is proved on the real get_option_and_value_for. Precedence: for source dictionaries of ANY size and an arbitrary key, the value the top-level merge hands to the store is the one from the command line, else the machine file, else project(default_options), else what the store held; the value the subproject merge hands to the store follows the documented order (command-line subp:opt, machine-file subp:opt, subproject(default_options:), parent subp:opt, [a global command-line/machine-file opt keeps the top-level value], the subproject\'s own default_options). Prefix: sysconfdir/localstatedir/sharedstatedir are reset from the table entry of the SANITIZED prefix, else their default; the prefix entry is split off and every other entry handed on unchanged. The end-to-end precedence is also checked exhaustively over all source subsets through the real OptionStore (bounded stand-in).',
    level_note='Assumed: set_user_option as a MODEL (the store then holds the given value under the given key; only declared dependents change; the global-key/project-option aliasing inside it is not modelled), OptionKey.evolve sets the subproject and is injective on global keys (checked bounded on the real class), iteration over a dict visits every key once in arbitrary order, listify_array_value, key normalisation, option lookup, sanitize_prefix as an abstract normal form (trusted contracts); int() of a string through the abstract py_int_ok/py_int_val; mlog calls are effects. set_option is proved as a whole for keys other than prefix (stored value = validated value; buildtype expansion) with resolve_option / validate_value / set_value as effects. NOT proved (bounded only): the prefix branch of set_option, deprecated-option mapping, the key aliasing of set_user_option, the composition merge -> store -> get_value_for.',
    not_decided=['machine-file parsing, optinterpreter and Environment plumbing', 'cross-source interaction of buildtype with explicit debug/optimization (not stated)'],
)
PROPS['C14'] = dict(
    modules=['specs.conf', 'contracts.conf', 'contracts.regexes'],
    bounded=['bounded.conf'],
    level='other',
    design_ref='DESIGN.md §4 C14',
    technique='deductive: VCs from the real AST of the meson-format substitution callback, do_replacement_meson (single re.sub pass as a ghost-trace fact) and do_define_meson against the documented rendering; the line loops of both formats (do_conf_str_meson / do_conf_str_cmake: loop invariant against the recursively defined line-by-line meaning), the format dispatch (do_conf_str) and the file layer (do_conf_file over an abstract file system with a ghost effect trace); regular-expression recognition and the generated header bounded-exhaustive against an independent single-pass scanner',
    level_text='Proved for all matches / values: the callback renders strings verbatim, integers and booleans through str(), halves backslash runs, unescapes \\@name\\@, reports undefined names; do_replacement_meson performs exactly one re.sub pass and returns its result unchanged (never scanned again); #mesondefine renders unset/bool/int values as documented. For templates of ANY number of lines: line k of the output is the rendering of line k of the template and of nothing else, in both formats (a define line by the define renderer, any other line by the placeholder scanner); the format selects the renderer; do_conf_file reads and writes as text without newline translation (newline=\'\' on both open calls), hands the renderer exactly the lines readlines() yields, writes exactly what it returns to dst~ and replaces dst only through replace_if_different. Which text the regular expression matches is decided bounded: all templates of <= 5 (quick) / 6 (thorough) symbols x 3 configurations.',
    level_note='Assumed: re.sub applies the callback once per non-overlapping match left to right; abstract match objects (group languages and top-level alternation facts from the real pattern); str.split/strip/lstrip uninterpreted; in the line loops the per-line renderers are uninterpreted pure functions (their own contracts are separate; the cmake per-line scanner do_replacement_cmake / do_define_cmake and _dump_c_header are bounded only); file.readlines() is the function fs_lines of the path. Known finding: #mesondefine string values are scanned again.',
    explanation='kernel clauses proved: substitution callback rendering, single-pass, #mesondefine rendering; line loops of both formats, format dispatch and file layer; regex recognition / cmake per-line scanner / generated header: bounded stand-in',
    not_decided=['cmake ${VAR} / #cmakedefine scanner (index loop with in-place mutation)', 'every other byte copied unchanged: follows from re.sub semantics (assumed) and the bounded scanner comparison'],
)
PROPS['C02'] = dict(
    modules=['contracts.parser', 'lemmas.parser'],
    bounded=['bounded.parser'],
    level='other',
    design_ref='DESIGN.md §4 C02, §0.6',
    technique='deductive (kernel): VCs from the real AST of Lexer.lex (the while loop with an inductive invariant over the ghost sequence of yielded tokens; regex matches abstract, constrained to the language of the live pattern; two induction lemmas over the tiling predicate) + SMT audit of the real token table against the AST of lex; line/column positions, parser round trip and node extents bounded-exhaustive over short texts, structured programs and the shipped build files',
    level_text='Proved for all texts (both the build-file and the machine-file token table): the tokens yielded by Lexer.lex tile the text — adjacent, non-empty byte spans from 0 to the end —, the scan position strictly increases (termination), every index/key access is guarded and nothing but ParseException escapes. Discharged for all strings: no pattern of the token table matches the empty string, and every token kind whose language admits a newline has a lineno update in lex (this obligation failed for string/fstring on the pinned tree and found the fixed line-number defect). Everything else about C02 (line/column values, located errors, lossless printing, extents) is checked by enumeration to a stated bound, labelled bounded.',
    level_note='Assumed: Pattern.match(string, pos) as a match on string[pos:] (no anchors/look-around in the table, checked), the matched text is a prefix of the subject in the language of the pattern, str.find/rfind/count/split facts (stdlib), mlog and BaseNode as effects/opaque. NOT proved: the VALUES of lineno/colno/line_start (needs substring/contains reasoning that only cvc5 decides, at a cost the quick tier cannot pay; bounded instead), parser token accounting, the printer visitors.',
    explanation='kernel: lexer tiling/termination/exceptions and token-table obligations (SMT, all strings); the rest of the property is a bounded stand-in (see coverage.bounded)',
    not_decided=['line and column values of tokens as a proof (bounded only)', 'parser token accounting (every consumed token is in the tree) as a proof', 'printer visitors'],
)
PROPS['C03'] = dict(
    modules=['specs.quoting', 'contracts.quoting', 'contracts.regexes'],
    bounded=['bounded.quoting', 'bounded.argv'],
    level='other',
    design_ref='DESIGN.md §4 C03, §0.6',
    technique='deductive (kernel): VCs from the real AST of the quoting layer (ninja_quote, NinjaRule._quoter, gcc_rsp_quote, Backend.escape_extra_args) against the quoting decision table; the choice of the response-file quoter at its two sites (region contracts against one table), the live quoting patterns (regex constants); quote/unquote round trips against models of ninja, sh and gcc/cmd response-file readers bounded-exhaustive; custom_target / run_target / test commands of generated projects end to end through the real `meson setup` (stub ninja), read back from build.ninja, the pickled exe wrapper and intro-tests.json',
    level_text='Proved for all strings: a newline is always an error in ninja_quote, otherwise exactly one substitution with the pattern for the position; the four quoting modes of _quoter (shell quoting first, ninja escaping outermost); response-file quoting doubles backslashes then shell-quotes; escape_extra_args keeps count and order and doubles backslashes exactly in -D//D arguments (loop invariant). That the quoted text is read back as the original argument is checked against MODELS of the external consumers, bounded. On a POSIX host quote_arg is shlex.quote for every word, without exception (shlex.quote itself: standard library, uninterpreted).',
    level_note='Assumed: re.sub / str.replace / shlex.quote as uninterpreted functions; the consumer models (ninja $-evaluation, POSIX sh via shlex, libiberty buildargv) are models of programs outside /repo. NOT decided deductively: which call sites of the 4000-line backend route every argument through these functions (custom_target / run_target / test positions are exercised end to end, bounded; compiler and linker argument positions need a compiler, not available offline); as_meson_exe_cmdline and substitute_values are not under contract.',
    explanation='kernel clauses proved on the quoting functions; round trips against consumer models bounded; call-site coverage of the backend not decided',
    not_decided=['compiler / linker argument positions (c_args, link_args: need a compiler)', 'execution of the pickled exe wrapper (meson_exe.run_exe); its pickle is read back, bounded', '@TEMPLATE@ substitution (substitute_values)'],
)
PROPS['C04'] = dict(
    modules=['specs.ninja', 'contracts.ninja'],
    bounded=['bounded.ninja', 'bounded.manifest'],
    level='other',
    design_ref='DESIGN.md §4 C04, §0.6',
    technique='deductive (kernel): VCs from the real AST of NinjaBuildElement.check_outputs (loop invariant over a shared set), NinjaBuild.add_build, add_rule and the rule-flavour generator of NinjaRule.write; statement sequences and whole manifests through the real classes bounded-exhaustive; generated target-graph projects through the real `meson setup` with the ninja back end (stub ninja) audited by an independent manifest reader',
    level_text='Proved for all output lists and all previously registered sets: check_outputs registers every output path and marks the element erroneous exactly when a path was registered before (by another statement or earlier in the same one); add_build checks EVERY statement, phony or not, and binds a non-phony one to its defined rule; add_rule rejects a second rule of the same name; a rule is written in its plain flavour iff a statement uses it without a response file and in its _RSP flavour iff one uses it with a response file. The graph-level clauses (every rule used is defined, no path produced twice, acyclic, every input exists or is produced, reachability from all / meson-test-prereq, colliding outputs rejected at configure time) are checked on generated projects through the real meson setup, labelled bounded. What meson-test-prereq / meson-benchmark-prereq are made of is under contract: Backend.get_testlike_targets yields, for a test with at most one argument and one depends: entry (loops unrolled), the target behind the program — whatever kind of target it is —, behind each argument that is a target and behind each depends: entry, in that order and nothing else.',
    level_note='NOT decided deductively: acyclicity, closure of inputs, reachability (whole-graph facts of generate_*), target-name checks of Interpreter.add_target — bounded only, on generated projects of custom / run / alias targets, tests and compiled C targets (gcc is present; executables, static / shared / both libraries, generators, unity, layouts); implicit outputs are not registered by the code (contract scoped to explicit outputs).',
    explanation='kernel: output-collision, rule-binding and rule-flavour bookkeeping proved; graph-level clauses bounded on generated projects',
    not_decided=['dependency graph acyclic (bounded only)', 'every input exists or is produced (bounded only)', 'default and test targets reachable from all / meson-test-prereq (bounded only)', 'subprojects and the repository test corpus as generator inputs'],
)
PROPS['C06'] = dict(
    modules=['specs.quoting', 'contracts.quoting', 'specs.ninja', 'contracts.conffile', 'contracts.optionkey'],
    bounded=['bounded.ninja:run_c06', 'bounded.determinism'],
    level='other',
    design_ref='DESIGN.md §4 C06',
    technique='deductive (kernel): VCs from the real AST of replace_if_different (ghost effect trace over an abstract file system) and of NinjaBuildElement.write (set iteration modelled as a fresh arbitrary order, sorted(set) as a function of the set); hash-seed independence of a written statement, of the OrderedSet operations and of WHOLE configure runs (real `meson setup --backend=none` of generated projects under several PYTHONHASHSEED values and environment orders, then a reconfigure) bounded; replace_if_different on real files bounded',
    level_text='Proved for all paths and file contents: replace_if_different performs no replace and no write when the contents are equal (the unchanged output is not touched) and exactly one os.replace(tmp, dst) otherwise. Proved for all dependency sets: the | and || segments written by NinjaBuildElement.write are functions of the SETS, not of their iteration order. OptionKey.__lt__/__le__/__gt__/__ge__ define one strict total order (top-level keys first, then lexicographic on (subproject, machine, name)), so sorted() over option keys does not depend on the incoming (set / hash) order.',
    level_note='Assumed: the abstract file system (existence/content as functions of the path at call time), sorted() without key is a function of the set, non-Windows host. NOT decided deductively (bounded only, on four generated projects without compiled targets since no ninja/compiler back end is available offline): every other source of ordering in a configure run (directory listings, other generators), build.ninja as a whole.',
    explanation='kernel: unchanged outputs are not touched; dependency text independent of set iteration order; whole-run determinism not decided',
    not_decided=['byte-identical build.ninja across runs as a whole (no ninja back end offline; intro files and configure_file outputs are compared bounded)', 'independence of readdir order'],
)
PROPS['C11'] = dict(
    modules=['contracts.install'],
    bounded=['bounded.install', 'bounded.installrun'],
    level='other',
    design_ref='DESIGN.md §4 C11',
    technique='deductive (kernel): VCs from the real AST of set_mode / sanitize_permissions (ghost effect trace: which of chown / chmod / default-permission masking happens, in which order), Installer.should_install and get_destdir_path; resulting mode bits on real files, filter truth table and DESTDIR re-rooting bounded; generated projects installed by the real `meson install --no-rebuild --destdir` and compared with the tree their install rules prescribe (reinstall, uninstall by the log, --dry-run, --tags, --skip-subprojects) bounded',
    level_text='Proved for all modes, umasks, tags and paths: permissions are the declared install_mode or else the defaults masked by install_umask in every case, ownership is set before permissions, "preserve" changes nothing; a data item is skipped iff its subproject is skipped or tags were requested and its tag is not among them; absolute destinations are re-rooted under DESTDIR, relative ones under the prefix. install_emptydir (unrolled for 0, 1 and 2 entries of arbitrary content): every selected entry gets its destination computed from (destdir, prefix, path), the directory created with exist_ok and then set_mode(destination, its install_mode, install_umask) — also when the directory exists already. install_data / install_man / install_headers (unrolled for 1 and 2 entries): each selected entry is copied to its destination and then gets set_mode(destination, its install_mode, install_umask), also when the copy had nothing to do; something counts as installed iff a copy says so. install_symlinks (one entry): the link is made under its re-rooted name with exactly the declared target text; install_subdirs (one entry): the tree is copied to the re-rooted destination with its own excludes, mode and follow_symlinks.',
    level_note='Assumed: set_chmod / set_chown / is_executable / path_has_root / destdir_join as effects or uninterpreted functions (pathlib and the OS are outside the contracts; checked bounded on POSIX paths and real files); bit operations uninterpreted. NOT decided deductively (bounded only, on real installations of generated projects without built targets): confinement of every write, exactness of the installed tree, install log vs uninstall, dry-run, idempotence (effects of do_copyfile / do_copydir / shutil on a real file system).',
    explanation='kernel: permission decision, tag/subproject filter and DESTDIR branch proved; whole-tree clauses not decided',
    not_decided=['only beneath DESTDIR for every file operation', 'exactly the specified files/dirs/symlinks', 'uninstall removes exactly the logged paths', '--dry-run writes nothing', 'installing twice equals installing once'],
)
PROPS['C10'] = dict(
    modules=['specs.wrap', 'contracts.wrap'],
    bounded=['bounded.wrap', 'bounded.deplookup'],
    level='other',
    design_ref='DESIGN.md §4 C10',
    technique='deductive (kernel): VCs from the real AST of the wrap resolver (check_hash, _get_file_internal, one download attempt, the patch step of _resolve as region contracts with a ghost effect trace and exceptional postconditions) the whole of _download and check_can_download (nothing is fetched under nodownload), and the candidate order of dependency(); the real Resolver on local archives and file:// URLs bounded; the dependency() policy over the cross product of circumstances through the real `meson setup` (pkg-config file as system dependency, local subproject as fallback) bounded',
    level_text='Proved for all wrap files / paths: check_hash returns normally only if the file hashes to the recorded value (or none is recorded and none required); every path handed out by _get_file_internal passed check_hash or _download on that call; a download attempt leaves its try block normally only with a matching hash; WHATEVER exception the patch or diff step raises, the unpacked directory is removed before it propagates; candidates are tried in the documented order with the system lookup omitted iff the fallback is forced and known. In the verdict statement of DependencyFallbacksHolder.lookup (1-2 names, either machine): a found dependency is returned AND recorded in dependency_overrides under the identifier of every name of the call unless an entry exists, which is kept; nothing else changes; the recorded override is (dep, current node, explicit=False).',
    level_note='Assumed: hashlib/file reading (sha256_of abstract), os/pathlib calls as effects or uninterpreted functions, methods called on self as effects that may raise. Region contracts verify one statement of a large function (stated per function in the evidence). NOT decided deductively: the end-to-end decision table of dependency() (find_external_dependency, version matching, allow_fallback) — checked on the cross product of circumstances through the real meson setup, bounded.',
    explanation='kernel: hash check dominates use, cleanup on failed patch, candidate order proved; end-to-end fallback policy not decided',
    not_decided=['the dependency() policy as a proof (bounded: the full cross product through the real meson setup in the thorough tier, a sample in the quick tier)', 'lookup sequences of length 3', 'fault injection at each step of fetch -> verify -> unpack -> patch -> diff beyond the cases listed under coverage.bounded'],
)
PROPS['C08'] = dict(
    modules=['contracts.persist', 'contracts.setoption', 'contracts.pending'],
    bounded=['bounded.persist', 'bounded.lifecycle'],
    level='other',
    design_ref='DESIGN.md §4 C08',
    technique='deductive (kernel): region contracts on the storing step of OptionStore.set_option and the -U step of set_from_configure_command (opaque keys/options, override table as a symbolic map with a frame clause); whole-function contracts on OptionStore.set_option (general keys; buildtype expansion) with validation/lookup/storing as effects of the ghost trace; contract on mconf.run_impl (ghost effect trace: an accepted -D/-U is recorded in cmd_line.txt unconditionally and after validation, a rejected one persists nothing); -D/-U sequences and option-file edits through the real OptionStore bounded-exhaustive against a reference model; real setup/configure/--reconfigure/--wipe command sequences on real build directories (in process, --backend=none) bounded against a reference model',
    level_text='Proved for all keys, values and override tables: a per-subproject -D override always stores exactly the value given (whatever the inherited value) and touches no other key; an option given directly stores the validated value and stops yielding; -U of an override removes exactly that override and marks the store dirty, -U of an unknown key is an error. set_option as a whole: the value stored is the one validate_value returned, an override is stored under exactly the given key and touches no other, the returned changed flag is true exactly when the stored state differs (a NEW override counts), buildtype sets debug/optimization of the same subproject from DEFAULT_DEPENDENTS iff it changed and is not custom. `meson configure` records every accepted -D/-U in cmd_line.txt (whether or not a stored value changed) after the options were validated, saves coredata iff something changed, and persists nothing when the options are rejected. A removed option vanishes: the clean-up of update_project_options examines exactly the stored keys the option file no longer declares (region contract on the set difference) and removes of these exactly the project options of this (sub)project, from the option table and from the set of project options, leaving every other entry alone (loop invariant over the set of keys visited so far); as a whole-function contract for the case that the option file declares nothing any more. Lifecycle behaviour over command sequences and option-file edits is checked bounded on real build directories.',
    level_note='Assumed: key normalisation and option lookup; opaque option objects (set_value as an effect). Region contracts verify one statement of set_option / set_from_configure_command. Conf / coredata / introspection writers / update_cmd_line_file are effects of the ghost trace in run_impl. NOT decided deductively (bounded only): pickling to disk, --wipe re-derivation from recorded command lines, rollback when setup --reconfigure fails, multi-process histories.',
    explanation='kernel: in-memory -D/-U transitions proved; persistence across processes and failure rollback not decided',
    not_decided=['setup --wipe re-derives the configuration from the recorded command lines (bounded only)', 'a failing setup --reconfigure leaves every persisted value as it was (bounded only)', 'coredata pickling'],
)
PROPS['C01'] = dict(
    modules=['contracts.lang'],
    bounded=['bounded.lang'],
    level='other',
    design_ref='DESIGN.md §4 C01',
    technique='deductive (kernel): VCs from the real AST of interpreter primitives (integer division/modulo, array + / += and indexing) and of the and/or evaluation methods (ghost effect trace: which operand is evaluated when); small programs through the real `meson setup --backend=none` against a reference evaluator bounded',
    level_text='Proved for all operands: / and % are floor division and sign-of-divisor modulo with division by zero an error; array + and += build a NEW array and change neither operand (value semantics: frame clause on the held list and non-identity of the result); indexing accepts exactly [-n, n) and counts negative indices from the end; in `a and b` / `a or b` the left operand is evaluated first and once and the right one iff the left does not decide. range(): an error iff start < 0, stop < start or step < 1 (an explicit step of 0 included), otherwise exactly the progression (start, stop, step) is handed to the range object.',
    level_note='Assumed: the typed_operator decorators check the operand type before the call; evaluate_statement / _holderify / operator_call(BOOL) as opaque effects. NOT decided: the composition — that whole programs evaluate as the reference prescribes (precedence ladder conformance, subdir/subproject scoping, the str/dict method tables, escape decoding) is only exercised by the bounded program layer.',
    explanation='kernel clauses proved on the primitives and the short-circuit evaluation; whole-program semantics is a bounded stand-in',
    not_decided=['precedence and associativity as a proof over the parser ladder', 'subdir() / subproject() variable scoping', 'documented str/array/dict/int/bool method tables', 'escape decoding table'],
)

# properties with no check yet or outside the technique, each with the reason
NOT_APPLICABLE = {
    'C05': 'quantifies over schedules of an external executor running external tools; which files compilers read at run time is not a pre/postcondition of any meson function, and edge-completeness is a whole-graph fact of a 4000-line generator (DESIGN.md §5)',
    'C09': 'quantifies over crash points; a function contract relates the state before a call to the state after it, not the state at an arbitrary interruption between two OS calls followed by a recovery run (DESIGN.md §5)',
    'C15': 'relational property between two large generators (mintro and the ninja backend) over the live Build object graph; would need contracts over all of generate_* (DESIGN.md §5)',
    'C16': 'semantic preservation and idempotence of whole-AST rewriting passes built on dynamic visitor dispatch; needs a verified parser/printer pair and a semantics for the tree (DESIGN.md §5)',
    'C17': 'same as C16: locality and meaning preservation of rewriter edits are whole-tree relational properties outside per-function contracts (DESIGN.md §5)',
}
_PLANNED = 'contracts planned in DESIGN.md §4 but the check is not built yet in this tree; not claimed until it runs'
for _p in ('C01', 'C02', 'C03', 'C04', 'C06', 'C07', 'C08', 'C10', 'C11', 'C12', 'C13', 'C14', 'C18', 'C20'):
    if _p not in PROPS:
        NOT_APPLICABLE[_p] = _PLANNED

TEXT = {
    'notes': 'exit codes of ./check: 0 held (KNOWN-FINDING lines allowed), 1 violation (VIOLATION line + replay file), 2 undecided (solver unknown / construct outside the encodable subset; never reported as a violation), 3 checker failure. Bounded parts are reported under coverage.bounded and never added to obligations/discharged.',
    'source_commits': [],
}
