import sys
sys.path.insert(0, '/verif')
from contracts import REG
import contracts.regexes, contracts.parser
from pyvc.verify import verify_custom
for name in REG.customs:
    if len(sys.argv) > 1 and not any(a in name for a in sys.argv[1:]): continue
    r = verify_custom(REG, name)
    print(name, r.get('undecided'), (r.get('error') or '')[-300:])
    for o in r['obligations']:
        print('   ', o['status'], o['time_s'], o['name'], (o.get('model') or '')[:200].replace('\n', ' '))
