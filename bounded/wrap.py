"""C10 bounded stand-ins (native): the real Resolver on temporary directories, no network — hash verification of
cached / packagefiles archives, the nodownload guard, cleanup after a failing patch step for several exception types."""
import hashlib, io, os, shutil, tarfile, tempfile, textwrap
from bounded.util import chunked, pmap


def make_project(d, src_hash_ok=True, patch='none', patch_hash_ok=True, where='packagefiles'):
    sp = os.path.join(d, 'subprojects')
    pf = os.path.join(sp, 'packagefiles')
    cache = os.path.join(sp, 'packagecache')
    os.makedirs(pf)
    os.makedirs(cache)
    src = os.path.join(d, 'src')
    os.makedirs(os.path.join(src, 'foo-1.0'))
    open(os.path.join(src, 'foo-1.0', 'meson.build'), 'w').write("project('foo')\n")
    open(os.path.join(src, 'foo-1.0', 'foo.c'), 'w').write('int x;\n')
    target = pf if where == 'packagefiles' else cache
    tar = os.path.join(target, 'foo-1.0.tar.gz')
    with tarfile.open(tar, 'w:gz') as t:
        t.add(os.path.join(src, 'foo-1.0'), arcname='foo-1.0')
    h = hashlib.sha256(open(tar, 'rb').read()).hexdigest()
    lines = ['[wrap-file]', 'directory = foo-1.0', 'source_filename = foo-1.0.tar.gz', f'source_hash = {h if src_hash_ok else "0" * 64}']
    if where == 'cache':
        lines.insert(2, 'source_url = http://invalid.invalid/foo-1.0.tar.gz')
    if patch != 'none':
        ptar = os.path.join(pf, 'foo-patch.tar.gz')
        if patch == 'garbage':
            open(ptar, 'wb').write(b'this is not an archive')
        else:
            pd = os.path.join(d, 'p', 'foo-1.0')
            os.makedirs(pd)
            open(os.path.join(pd, 'extra.txt'), 'w').write('x')
            with tarfile.open(ptar, 'w:gz') as t:
                t.add(pd, arcname='foo-1.0')
        ph = hashlib.sha256(open(ptar, 'rb').read()).hexdigest()
        lines += ['patch_filename = foo-patch.tar.gz', f'patch_hash = {ph if patch_hash_ok else "1" * 64}']
    open(os.path.join(sp, 'foo.wrap'), 'w').write('\n'.join(lines) + '\n')
    return sp


def _case(case):
    from mesonbuild.wrap import wrap
    from mesonbuild.wrap.wrap import WrapException
    src_ok, patch, patch_ok, where = case
    with tempfile.TemporaryDirectory() as d:
        sp = make_project(d, src_ok, patch, patch_ok, where)
        r = wrap.Resolver(d, 'subprojects', wrap_mode=wrap.WrapMode.nodownload)
        try:
            r.resolve('foo')
            ok = True
            err = None
        except Exception as ex:
            ok = False
            err = f'{type(ex).__name__}: {str(ex)[:80]}'
        unpacked = os.path.isdir(os.path.join(sp, 'foo-1.0'))
        should_succeed = src_ok and (patch == 'none' or (patch == 'good' and patch_ok))
        problems = []
        if ok != should_succeed:
            problems.append(f'resolve {"succeeded" if ok else "failed (" + str(err) + ")"}, expected {"success" if should_succeed else "failure"}')
        if not should_succeed and unpacked:
            problems.append('a directory was left behind although the source/patch archive was rejected or the patch step failed')
        if should_succeed and not unpacked:
            problems.append('nothing unpacked')
        # a second run must not accept a half-prepared subproject
        if not should_succeed:
            try:
                r2 = wrap.Resolver(d, 'subprojects', wrap_mode=wrap.WrapMode.nodownload)
                r2.resolve('foo')
                problems.append('a second run accepted the subproject after the first run failed')
            except Exception:
                pass
    return problems


def _wrap_chunk(chunk):
    fails, nt = [], 0
    for case in chunk:
        nt += 1
        try:
            problems = _case(case)
        except Exception as ex:
            problems = [f'harness: {type(ex).__name__}: {ex}']
        for p in problems:
            fails.append({'case': {'source_hash_ok': case[0], 'patch': case[1], 'patch_hash_ok': case[2], 'location': case[3]}, 'stage': 'wrap', 'detail': p})
    return len(chunk), nt, fails


def _history(case):
    """one Resolver, several wraps naming the SAME cached archive file, each with its own recorded hash (right or
    wrong): every wrap is accepted iff its own recorded hash is the hash of the file — whatever was verified before"""
    from mesonbuild.wrap import wrap
    oks, where = case
    problems = []
    with tempfile.TemporaryDirectory() as d:
        sp = os.path.join(d, 'subprojects')
        tgt = os.path.join(sp, where)
        os.makedirs(tgt)
        src = os.path.join(d, 'src', 'pkg')
        os.makedirs(src)
        open(os.path.join(src, 'meson.build'), 'w').write("project('pkg')\n")
        tar = os.path.join(tgt, 'v1.0.tar.gz')
        with tarfile.open(tar, 'w:gz') as t:
            t.add(src, arcname='.')
        h = hashlib.sha256(open(tar, 'rb').read()).hexdigest()
        for i, ok in enumerate(oks):
            lines = ['[wrap-file]', f'directory = w{i}-1.0', 'lead_directory_missing = true', 'source_filename = v1.0.tar.gz', f'source_hash = {h if ok else "0" * 64}']
            if where == 'packagecache':
                lines.insert(2, 'source_url = http://invalid.invalid/v1.0.tar.gz')
            open(os.path.join(sp, f'w{i}.wrap'), 'w').write('\n'.join(lines) + '\n')
        r = wrap.Resolver(d, 'subprojects', wrap_mode=wrap.WrapMode.nodownload)
        for i, ok in enumerate(oks):
            try:
                r.resolve(f'w{i}')
                got = True
            except Exception:
                got = False
            unpacked = os.path.isfile(os.path.join(sp, f'w{i}-1.0', 'meson.build'))
            if got != ok:
                problems.append(f'wrap {i} of the history {"resolved" if got else "was refused"} although its recorded hash is {"right" if ok else "wrong"}')
            if not ok and unpacked:
                problems.append(f'wrap {i}: an archive whose hash differs from the recorded one was unpacked')
    return problems


def _history_chunk(chunk):
    fails, nt = [], 0
    for case in chunk:
        nt += len(set(case[0])) > 1
        try:
            problems = _history(case)
        except Exception as ex:
            problems = [f'harness: {type(ex).__name__}: {ex}']
        for p in problems:
            fails.append({'case': {'hash_ok_per_wrap': list(case[0]), 'location': case[1]}, 'stage': 'history', 'detail': p})
    return len(chunk), nt, fails


def run(REG, tier, seed, jobs):
    cases = [(s, p, ph, w) for s in (True, False) for p in ('none', 'good', 'garbage') for ph in (True, False) for w in ('packagefiles', 'cache') if not (p == 'none' and not ph)]
    ev, nt, fails = pmap(_wrap_chunk, chunked(iter(cases), 2), jobs)
    import itertools
    k = 3 if tier == 'quick' else 4
    hist = [(oks, w) for j in range(1, k + 1) for oks in itertools.product((True, False), repeat=j) for w in ('packagefiles', 'packagecache')]
    ev2, nt2, fails2 = pmap(_history_chunk, chunked(iter(hist), 2), jobs)
    hpart = {'name': 'C10/bounded/one-resolver-many-wraps', 'function': 'Resolver.resolve x k on one Resolver (shared archive file name)', 'bound': f'{len(hist)} histories: <= {k} wraps naming the same archive, each recorded hash right/wrong, archive in packagefiles/packagecache',
             'evaluations': ev2, 'distinct_nontrivial': nt2, 'rule': 'non-trivial: the history mixes right and wrong recorded hashes', 'exhaustive': True, 'failures': fails2}
    return {'parts': [hpart, {'name': 'C10/bounded/wrap-hash-and-cleanup', 'function': 'Resolver.resolve (nodownload, local archives)', 'bound': f'{len(cases)} cases: source hash right/wrong x patch none/good/not-an-archive x patch hash right/wrong x archive in packagefiles/packagecache; each followed by a second run',
                       'evaluations': ev, 'distinct_nontrivial': nt, 'rule': 'every case', 'exhaustive': True, 'failures': fails}]}


CHECKS = {'C10/bounded/one-resolver-many-wraps': (_history_chunk, lambda c: (tuple(c['hash_ok_per_wrap']), c['location'])),
          'C10/bounded/wrap-hash-and-cleanup': (_wrap_chunk, lambda c: (c['source_hash_ok'], c['patch'], c['patch_hash_ok'], c['location']))}
