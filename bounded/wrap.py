"""C10 bounded stand-ins (native): the real Resolver on temporary directories, no network — hash verification of
cached / packagefiles archives, the nodownload guard, cleanup after a failing patch step for several exception types."""
import hashlib, io, os, shutil, tarfile, tempfile, textwrap
from bounded.util import chunked, pmap


def make_project(d, src_hash_ok=True, patch='none', patch_hash_ok=True, where='packagefiles'):
    sp = os.path.join(d, 'subprojects')
    pf = os.path.join(sp, 'packagefiles')
    cache = os.path.join(sp, 'packagecache')
    os.makedirs(pf)
    os.makedirs(cache)
    src = os.path.join(d, 'src')
    os.makedirs(os.path.join(src, 'foo-1.0'))
    open(os.path.join(src, 'foo-1.0', 'meson.build'), 'w').write("project('foo')\n")
    open(os.path.join(src, 'foo-1.0', 'foo.c'), 'w').write('int x;\n')
    target = pf if where == 'packagefiles' else cache
    tar = os.path.join(target, 'foo-1.0.tar.gz')
    with tarfile.open(tar, 'w:gz') as t:
        t.add(os.path.join(src, 'foo-1.0'), arcname='foo-1.0')
    h = hashlib.sha256(open(tar, 'rb').read()).hexdigest()
    lines = ['[wrap-file]', 'directory = foo-1.0', 'source_filename = foo-1.0.tar.gz', f'source_hash = {h if src_hash_ok else "0" * 64}']
    if where == 'cache':
        lines.insert(2, 'source_url = http://invalid.invalid/foo-1.0.tar.gz')
    if patch != 'none':
        ptar = os.path.join(pf, 'foo-patch.tar.gz')
        if patch == 'garbage':
            open(ptar, 'wb').write(b'this is not an archive')
        else:
            pd = os.path.join(d, 'p', 'foo-1.0')
            os.makedirs(pd)
            open(os.path.join(pd, 'extra.txt'), 'w').write('x')
            with tarfile.open(ptar, 'w:gz') as t:
                t.add(pd, arcname='foo-1.0')
        ph = hashlib.sha256(open(ptar, 'rb').read()).hexdigest()
        lines += ['patch_filename = foo-patch.tar.gz', f'patch_hash = {ph if patch_hash_ok else "1" * 64}']
    open(os.path.join(sp, 'foo.wrap'), 'w').write('\n'.join(lines) + '\n')
    return sp


def _case(case):
    from mesonbuild.wrap import wrap
    from mesonbuild.wrap.wrap import WrapException
    src_ok, patch, patch_ok, where = case
    with tempfile.TemporaryDirectory() as d:
        sp = make_project(d, src_ok, patch, patch_ok, where)
        r = wrap.Resolver(d, 'subprojects', wrap_mode=wrap.WrapMode.nodownload)
        try:
            r.resolve('foo')
            ok = True
            err = None
        except Exception as ex:
            ok = False
            err = f'{type(ex).__name__}: {str(ex)[:80]}'
        unpacked = os.path.isdir(os.path.join(sp, 'foo-1.0'))
        should_succeed = src_ok and (patch == 'none' or (patch == 'good' and patch_ok))
        problems = []
        if ok != should_succeed:
            problems.append(f'resolve {"succeeded" if ok else "failed (" + str(err) + ")"}, expected {"success" if should_succeed else "failure"}')
        if not should_succeed and unpacked:
            problems.append('a directory was left behind although the source/patch archive was rejected or the patch step failed')
        if should_succeed and not unpacked:
            problems.append('nothing unpacked')
        # a second run must not accept a half-prepared subproject
        if not should_succeed:
            try:
                r2 = wrap.Resolver(d, 'subprojects', wrap_mode=wrap.WrapMode.nodownload)
                r2.resolve('foo')
                problems.append('a second run accepted the subproject after the first run failed')
            except Exception:
                pass
    return problems


def _wrap_chunk(chunk):
    fails, nt = [], 0
    for case in chunk:
        nt += 1
        try:
            problems = _case(case)
        except Exception as ex:
            problems = [f'harness: {type(ex).__name__}: {ex}']
        for p in problems:
            fails.append({'case': {'source_hash_ok': case[0], 'patch': case[1], 'patch_hash_ok': case[2], 'location': case[3]}, 'stage': 'wrap', 'detail': p})
    return len(chunk), nt, fails


def _history(case):
    """one Resolver, several wraps naming the SAME cached archive file, each with its own recorded hash (right or
    wrong): every wrap is accepted iff its own recorded hash is the hash of the file — whatever was verified before"""
    from mesonbuild.wrap import wrap
    oks, where = case
    problems = []
    with tempfile.TemporaryDirectory() as d:
        sp = os.path.join(d, 'subprojects')
        tgt = os.path.join(sp, where)
        os.makedirs(tgt)
        src = os.path.join(d, 'src', 'pkg')
        os.makedirs(src)
        open(os.path.join(src, 'meson.build'), 'w').write("project('pkg')\n")
        tar = os.path.join(tgt, 'v1.0.tar.gz')
        with tarfile.open(tar, 'w:gz') as t:
            t.add(src, arcname='.')
        h = hashlib.sha256(open(tar, 'rb').read()).hexdigest()
        for i, ok in enumerate(oks):
            lines = ['[wrap-file]', f'directory = w{i}-1.0', 'lead_directory_missing = true', 'source_filename = v1.0.tar.gz', f'source_hash = {h if ok else "0" * 64}']
            if where == 'packagecache':
                lines.insert(2, 'source_url = http://invalid.invalid/v1.0.tar.gz')
            open(os.path.join(sp, f'w{i}.wrap'), 'w').write('\n'.join(lines) + '\n')
        r = wrap.Resolver(d, 'subprojects', wrap_mode=wrap.WrapMode.nodownload)
        for i, ok in enumerate(oks):
            try:
                r.resolve(f'w{i}')
                got = True
            except Exception:
                got = False
            unpacked = os.path.isfile(os.path.join(sp, f'w{i}-1.0', 'meson.build'))
            if got != ok:
                problems.append(f'wrap {i} of the history {"resolved" if got else "was refused"} although its recorded hash is {"right" if ok else "wrong"}')
            if not ok and unpacked:
                problems.append(f'wrap {i}: an archive whose hash differs from the recorded one was unpacked')
    return problems


def _dl_case(case):
    """downloads through file:// URLs (no network): the wrap mode, the recorded hash, the primary and the fallback URL"""
    from mesonbuild.wrap import wrap
    import pathlib, time
    mode, primary, fallback, hash_ok = case
    problems = []
    with tempfile.TemporaryDirectory() as d:
        sp = os.path.join(d, 'subprojects')
        os.makedirs(sp)
        srv = os.path.join(d, 'srv')
        os.makedirs(srv)
        src = os.path.join(d, 'src', 'pkg')
        os.makedirs(src)
        open(os.path.join(src, 'meson.build'), 'w').write("project('pkg')\n")
        good = os.path.join(srv, 'good.tar.gz')
        with tarfile.open(good, 'w:gz') as t:
            t.add(src, arcname='.')
        bad = os.path.join(srv, 'bad.tar.gz')
        open(bad, 'wb').write(b'something else entirely')
        h = hashlib.sha256(open(good, 'rb').read()).hexdigest()
        url = {'good': pathlib.Path(good).as_uri(), 'bad': pathlib.Path(bad).as_uri(), 'missing': pathlib.Path(srv, 'nothing-here.tar.gz').as_uri()}
        lines = ['[wrap-file]', 'directory = dl-1.0', 'lead_directory_missing = true', 'source_filename = dl-1.0.tar.gz', f'source_url = {url[primary]}',
                 f'source_hash = {h if hash_ok else "0" * 64}']
        if fallback != 'none':
            lines.append(f'source_fallback_url = {url[fallback]}')
        open(os.path.join(sp, 'dl.wrap'), 'w').write('\n'.join(lines) + '\n')
        fetched = []
        real = wrap.Resolver.get_data

        def spy(self, u):
            fetched.append(u)
            return real(self, u)
        wrap.Resolver.get_data = spy
        real_sleep = time.sleep
        time.sleep = lambda s_: None
        try:
            r = wrap.Resolver(d, 'subprojects', wrap_mode=getattr(wrap.WrapMode, mode))
            try:
                r.resolve('dl')
                ok = True
            except Exception:
                ok = False
        finally:
            wrap.Resolver.get_data = real
            time.sleep = real_sleep
        usable = hash_ok and (primary == 'good' or fallback == 'good')
        should = usable and mode != 'nodownload'
        cached = os.path.exists(os.path.join(sp, 'packagecache', 'dl-1.0.tar.gz'))
        unpacked = os.path.exists(os.path.join(sp, 'dl-1.0', 'meson.build'))
        if mode == 'nodownload' and fetched:
            problems.append(f'wrap_mode=nodownload but {len(fetched)} URL(s) were fetched: {[u.rsplit("/", 1)[-1] for u in fetched]}')
        if ok != should:
            problems.append(f'resolve {"succeeded" if ok else "failed"}, expected {"success" if should else "failure"}')
        if not should and (cached or unpacked):
            problems.append('an archive was cached or unpacked although the wrap must be refused')
        if should and not unpacked:
            problems.append('nothing unpacked')
    return problems


def _dl_chunk(chunk):
    fails, nt = [], 0
    for case in chunk:
        nt += 1
        try:
            problems = _dl_case(case)
        except Exception as ex:
            problems = [f'harness: {type(ex).__name__}: {ex}']
        for p in problems:
            fails.append({'case': {'wrap_mode': case[0], 'primary_url': case[1], 'fallback_url': case[2], 'recorded_hash_ok': case[3]}, 'stage': 'download', 'detail': p})
    return len(chunk), nt, fails


def _history_chunk(chunk):
    fails, nt = [], 0
    for case in chunk:
        nt += len(set(case[0])) > 1
        try:
            problems = _history(case)
        except Exception as ex:
            problems = [f'harness: {type(ex).__name__}: {ex}']
        for p in problems:
            fails.append({'case': {'hash_ok_per_wrap': list(case[0]), 'location': case[1]}, 'stage': 'history', 'detail': p})
    return len(chunk), nt, fails


def run(REG, tier, seed, jobs):
    cases = [(s, p, ph, w) for s in (True, False) for p in ('none', 'good', 'garbage') for ph in (True, False) for w in ('packagefiles', 'cache') if not (p == 'none' and not ph)]
    ev, nt, fails = pmap(_wrap_chunk, chunked(iter(cases), 2), jobs)
    import itertools
    k = 3 if tier == 'quick' else 4
    hist = [(oks, w) for j in range(1, k + 1) for oks in itertools.product((True, False), repeat=j) for w in ('packagefiles', 'packagecache')]
    ev2, nt2, fails2 = pmap(_history_chunk, chunked(iter(hist), 2), jobs)
    hpart = {'name': 'C10/bounded/one-resolver-many-wraps', 'function': 'Resolver.resolve x k on one Resolver (shared archive file name)', 'bound': f'{len(hist)} histories: <= {k} wraps naming the same archive, each recorded hash right/wrong, archive in packagefiles/packagecache',
             'evaluations': ev2, 'distinct_nontrivial': nt2, 'rule': 'non-trivial: the history mixes right and wrong recorded hashes', 'exhaustive': True, 'failures': fails2}
    dl = [(m, p_, f_, hk) for m in ('default', 'nodownload', 'forcefallback') for p_ in ('good', 'bad', 'missing') for f_ in ('none', 'good', 'bad') for hk in (True, False)]
    ev3, nt3, fails3 = pmap(_dl_chunk, chunked(iter(dl), 3), jobs)
    dpart = {'name': 'C10/bounded/download-through-file-urls', 'function': 'Resolver._download / _get_file_internal (file:// URLs, no network)', 'bound': f'{len(dl)} cases: wrap_mode default/nodownload/forcefallback x primary URL good/wrong-content/missing x fallback URL none/good/wrong-content x recorded hash right/wrong',
             'evaluations': ev3, 'distinct_nontrivial': nt3, 'rule': 'every case', 'exhaustive': True, 'failures': fails3}
    return {'parts': [dpart, hpart, {'name': 'C10/bounded/wrap-hash-and-cleanup', 'function': 'Resolver.resolve (nodownload, local archives)', 'bound': f'{len(cases)} cases: source hash right/wrong x patch none/good/not-an-archive x patch hash right/wrong x archive in packagefiles/packagecache; each followed by a second run',
                       'evaluations': ev, 'distinct_nontrivial': nt, 'rule': 'every case', 'exhaustive': True, 'failures': fails}]}


CHECKS = {'C10/bounded/download-through-file-urls': (_dl_chunk, lambda c: (c['wrap_mode'], c['primary_url'], c['fallback_url'], c['recorded_hash_ok'])),
          'C10/bounded/one-resolver-many-wraps': (_history_chunk, lambda c: (tuple(c['hash_ok_per_wrap']), c['location'])),
          'C10/bounded/wrap-hash-and-cleanup': (_wrap_chunk, lambda c: (c['source_hash_ok'], c['patch'], c['patch_hash_ok'], c['location']))}
