"""C08 bounded stand-ins (native): short sequences of `configure -D` / `-U` of a per-subproject override and of
option-file edits through the real OptionStore against a reference model.  (setup/--wipe/--reconfigure of real build
directories, pickling and rollback on failure are NOT exercised.)"""
import copy, itertools, random
from bounded.util import chunked, pmap

VALS = ['c++11', 'c++14', 'c++17']


def mk_store():
    from mesonbuild import options as O
    st = O.OptionStore(False)
    st.add_system_option('prefix', O.UserStringOption('prefix', 'd', '/usr/local'))
    st.add_system_option('cpp_std', O.UserComboOption('cpp_std', 'd', 'c++11', choices=VALS))
    st.initialize_from_top_level_project_call({}, {}, {})
    st.initialize_from_subproject_call('sub', {}, {}, {}, {})
    return st


def _seq_chunk(chunk):
    from mesonbuild import options as O
    from mesonbuild.utils.core import MesonException
    K = O.OptionKey
    fails, nt = [], 0
    for seq in chunk:
        st = mk_store()
        glob, over = 'c++11', None           # reference model: global value, per-subproject override (None = inherits)
        bad = None
        for step, (op, val) in enumerate(seq):
            try:
                if op == 'D':
                    st.set_from_configure_command({K('cpp_std'): val})
                    glob = val
                elif op == 'Dsub':
                    st.set_from_configure_command({K('cpp_std', 'sub'): val})
                    over = val
                elif op == 'Usub':
                    if over is None:
                        try:
                            st.set_from_configure_command({K('cpp_std', 'sub'): None})
                            bad = f'step {step}: -Usub:cpp_std accepted although no override exists'
                        except MesonException:
                            pass
                    else:
                        st.set_from_configure_command({K('cpp_std', 'sub'): None})
                        over = None
            except MesonException as ex:
                bad = f'step {step} ({op} {val}): unexpected {ex}'
            if bad:
                break
            got = (st.get_value_for('cpp_std'), st.get_value_for('cpp_std', 'sub'))
            exp = (glob, over if over is not None else glob)
            if got != exp:
                bad = f'after step {step} ({op} {val}): (global, sub) = {got}, expected {exp}'
                break
        nt += len(seq) >= 2
        if bad:
            fails.append({'case': {'sequence': [list(s) for s in seq]}, 'stage': 'lifecycle', 'detail': bad})
    return len(chunk), nt, fails


def _file_chunk(chunk):
    """option-file edits: a new option gets its default, a removed one vanishes, a changed choice list keeps the old
    value when still valid and otherwise falls back to the new default"""
    from mesonbuild import options as O
    K = O.OptionKey
    fails, nt = [], 0
    for user_val, new_choices, new_default, removed, added in chunk:
        st = O.OptionStore(False)
        st.add_system_option('prefix', O.UserStringOption('prefix', 'd', '/usr/local'))
        k = K('mode', '')
        st.add_project_option(k, O.UserComboOption('mode', 'd', 'a', choices=['a', 'b', 'c']))
        if user_val is not None:
            st.set_option(k, user_val)
        newopts = {}
        if not removed:
            newopts[k] = O.UserComboOption('mode', 'd', new_default, choices=list(new_choices))
        if added:
            newopts[K('extra', '')] = O.UserStringOption('extra', 'd', 'dflt')
        st.update_project_options(newopts, '')
        nt += 1
        cur = user_val if user_val is not None else 'a'
        problems = []
        if removed:
            if k in st.options:
                problems.append('a removed option did not vanish')
        else:
            got = st.get_value_for(k)
            exp = cur if (cur in new_choices) else new_default
            if list(new_choices) == ['a', 'b', 'c']:
                exp = cur
            if got != exp:
                problems.append(f'value {got!r} after the choices became {list(new_choices)} (default {new_default!r}); expected {exp!r}')
        if added and st.get_value_for(K('extra', '')) != 'dflt':
            problems.append('a new option did not get its default')
        for p in problems:
            fails.append({'case': {'user_value': user_val, 'new_choices': list(new_choices), 'new_default': new_default, 'removed': removed, 'added': added}, 'stage': 'option-file', 'detail': p})
    return len(chunk), nt, fails


def _int_chunk(chunk):
    """option-file edits of an INTEGER option: a changed range (lower bound, upper bound or both) keeps the old value when it is
    still inside and otherwise falls back to the new default; afterwards values are validated against the NEW range"""
    from mesonbuild import options as O
    from mesonbuild.utils.core import MesonException
    K = O.OptionKey
    fails, nt = [], 0
    for user_val, new_min, new_max, new_default, probe in chunk:
        st = O.OptionStore(False)
        st.add_system_option('prefix', O.UserStringOption('prefix', 'd', '/usr/local'))
        k = K('lvl', '')
        st.add_project_option(k, O.UserIntegerOption('lvl', 'd', 3, min_value=0, max_value=10))
        if user_val is not None:
            st.set_option(k, user_val)
        st.update_project_options({k: O.UserIntegerOption('lvl', 'd', new_default, min_value=new_min, max_value=new_max)}, '')
        nt += 1
        cur = user_val if user_val is not None else 3
        case = {'user_value': user_val, 'new_min': new_min, 'new_max': new_max, 'new_default': new_default, 'probe': probe}
        exp = cur if (new_min, new_max) == (0, 10) or new_min <= cur <= new_max else new_default
        got = st.get_value_for(k)
        if got != exp:
            fails.append({'case': case, 'stage': 'option-file-int', 'detail': f'value {got} after the range became [{new_min}, {new_max}] (default {new_default}); expected {exp}'})
            continue
        try:
            st.set_option(k, probe)
            accepted = True
        except MesonException:
            accepted = False
        if accepted != (new_min <= probe <= new_max):
            fails.append({'case': case, 'stage': 'option-file-int', 'detail': f'-Dlvl={probe} is {"accepted" if accepted else "rejected"} although the range is now [{new_min}, {new_max}]'})
    return len(chunk), nt, fails


def run(REG, tier, seed, jobs):
    parts = []
    steps = [('D', v) for v in VALS] + [('Dsub', v) for v in VALS] + [('Usub', None)]
    n = 3 if tier == 'quick' else 4
    seqs = itertools.chain.from_iterable(itertools.product(steps, repeat=j) for j in range(1, n + 1))
    ev, nt, fails = pmap(_seq_chunk, chunked(seqs, 60), jobs)
    parts.append({'name': 'C08/bounded/configure-D-U-sequences', 'function': 'OptionStore.set_from_configure_command', 'bound': f'all sequences of <= {n} steps over -Dopt=v, -Dsub:opt=v (3 values each) and -Usub:opt, checked against a reference model after every step',
                  'evaluations': ev, 'distinct_nontrivial': nt, 'rule': 'non-trivial: at least two steps', 'exhaustive': True, 'failures': fails})
    cases = [(u, ch, nd, rm, ad) for u in (None, 'b', 'c') for ch, nd in ((('a', 'b', 'c'), 'a'), (('a', 'b'), 'a'), (('b', 'c', 'd'), 'd'), (('x', 'y'), 'x')) for rm in (False, True) for ad in (False, True)]
    ev, nt, fails = pmap(_file_chunk, chunked(iter(cases), 8), jobs)
    parts.append({'name': 'C08/bounded/option-file-edits', 'function': 'OptionStore.update_project_options', 'bound': f'{len(cases)} edits: user value x new choice list/default x option removed x option added',
                  'evaluations': ev, 'distinct_nontrivial': nt, 'rule': 'every case', 'exhaustive': True, 'failures': fails})
    icases = [(u, mn, mx, nd, pr) for u in (None, 1, 8) for mn, mx in ((0, 10), (0, 5), (0, 20), (2, 10), (5, 20)) for nd in (mn, mx) for pr in (1, 4, 9, 15)]
    ev, nt, fails = pmap(_int_chunk, chunked(iter(icases), 20), jobs)
    parts.append({'name': 'C08/bounded/integer-range-edits', 'function': 'OptionStore.update_project_options / choices_are_different', 'bound': f'{len(icases)} edits of an integer option: user value x new [min, max] (only max, only min, both, none changed) x new default x a later -D probe',
                  'evaluations': ev, 'distinct_nontrivial': nt, 'rule': 'every case', 'exhaustive': True, 'failures': fails})
    return {'parts': parts}


CHECKS = {'C08/bounded/configure-D-U-sequences': (_seq_chunk, lambda c: tuple(tuple(s) for s in c['sequence']))}
