"""C11 bounded stand-in (native), end to end: generated projects with install rules (install_data / headers / man /
subdir with excludes and strip_directory / emptydir / symlink, a subproject, names with blanks and non-ASCII, install_mode,
tags, relative and absolute install dirs, several prefixes) are configured by the real `meson setup` and installed by the
real `meson install --no-rebuild --destdir ...`.  The resulting tree is compared with the tree the install rules
prescribe (written down here from the reference manual, not taken from meson's own install plan): exactly those files,
directories and links, at exactly those places, with the prescribed permissions; nothing outside DESTDIR; --dry-run writes
nothing; --tags / --skip-subprojects restrict; installing twice gives the same tree; uninstalling by the log removes
exactly what was installed."""
import os, random, shutil, stat, subprocess, sys, tempfile
from bounded.util import chunked, pmap

FNAMES = ['a.txt', 'b c.txt', 'ü.dat', 'd.h', 'e.1', ' lead.txt', 'tab\tname']          # (a leading blank, a tab: the log must name them exactly; a SOURCE name ending in a blank is refused by meson)


def stub_ninja(d):
    p = os.path.join(d, 'stub', 'ninja')
    os.makedirs(os.path.dirname(p), exist_ok=True)
    open(p, 'w').write('#!/bin/sh\necho 1.11.1\n')
    os.chmod(p, 0o755)
    return p


def q(s):
    return "'" + s.replace("'", "\\'") + "'"


def gen(rnd):
    """-> (files {rel: (content, mode)}, meson.build text, sub meson.build text, expected [(dest relative to root '/', kind, mode or None, tag, subproject)], prefix)"""
    prefix = rnd.choice(['/usr', '/opt/p x', '/usr/local'])
    files, lines, exp = {}, [], []
    P = prefix.lstrip('/')

    def add_file(rel, mode=0o644):
        files[rel] = ('x', mode)
    # install_data
    for i in range(rnd.randint(1, 3)):
        fn = f'data{i}/' + rnd.choice(FNAMES)
        srcmode = rnd.choice([0o644, 0o600, 0o755, 0o664])
        add_file(fn, srcmode)
        absdir = rnd.random() < 0.3
        idir = rnd.choice(['/etc/cfg', '/srv/x y']) if absdir else rnd.choice(['share/pkg', 'share/p q', 'lib/pkg'])
        mode = rnd.choice([None, None, 'rwxr-x---', 'rw-r--r--', 'owner-only'])
        tag = rnd.choice([None, 'runtime', 'devel'])
        kw = f"install_dir: {q(idir)}" + (f", install_mode: [false, {os.getuid()}]" if mode == 'owner-only' else (f", install_mode: {q(mode)}" if mode else '')) + (f", install_tag: {q(tag)}" if tag else '')
        lines.append(f"install_data({q(fn)}, {kw})")
        dest = (idir.lstrip('/') if absdir else P + '/' + idir) + '/' + os.path.basename(fn)
        m = {'rwxr-x---': 0o750, 'rw-r--r--': 0o644}.get(mode) if mode in ('rwxr-x---', 'rw-r--r--') else ((0o755 if srcmode & 0o111 else 0o644))
        exp.append((dest, 'file', m, tag, ''))
    # an installed name that ends in a blank (only `rename:` can make one): the log line must still name exactly that file
    if rnd.random() < 0.4:
        add_file('ren/plain.txt')
        lines.append("install_data('ren/plain.txt', install_dir: 'share/ren', rename: 'note ')")
        exp.append((P + '/share/ren/note ', 'file', 0o644, None, ''))
    # a destination that climbs out with `..`: '/../x' IS '/x' (and a relative one that climbs above the root is clamped there), so the
    # file belongs beneath DESTDIR like every other one.  (The climb is sized to leave DESTDIR by exactly one level: a stray file lands in
    # the scratch directory of this run, next to DESTDIR, never elsewhere.)
    if rnd.random() < 0.25:
        add_file('esc/e.txt')
        if rnd.random() < 0.5:
            lines.append("install_data('esc/e.txt', install_dir: '/../esc-abs')")
            exp.append(('esc-abs/e.txt', 'file', 0o644, None, ''))
        else:
            up = '../' * (len(P.split('/')) + 1)
            lines.append(f"install_data('esc/e.txt', install_dir: {q(up + 'esc-rel')})")
            exp.append(('esc-rel/e.txt', 'file', 0o644, None, ''))
    # headers
    if rnd.random() < 0.7:
        add_file('inc/h1.h')
        add_file('inc/h 2.h')
        sub = rnd.choice([None, 'pk g'])
        lines.append(f"install_headers('inc/h1.h', 'inc/h 2.h'" + (f", subdir: {q(sub)}" if sub else '') + ")")
        for h in ('h1.h', 'h 2.h'):
            exp.append((P + '/include/' + (sub + '/' if sub else '') + h, 'file', 0o644, 'devel', ''))
    # man
    if rnd.random() < 0.6:
        add_file('man/tool.1')
        add_file('man/conf.5')
        lines.append("install_man('man/tool.1', 'man/conf.5')")
        exp.append((P + '/share/man/man1/tool.1', 'file', 0o644, 'man', ''))
        exp.append((P + '/share/man/man5/conf.5', 'file', 0o644, 'man', ''))
        if rnd.random() < 0.6:
            # translated pages (reference manual: installed under <mandir>/<locale>/man<N>/, and "foo.fr.1" is installed as "foo.1"):
            # only the locale component in front of the section goes, whatever else the name contains
            loc = rnd.choice(['fr', 'de'])
            names = [f'tool.{loc}.1', f'my.{loc}ontend.{loc}.1'] if loc == 'fr' else [f'tool.{loc}.1', f'a.{loc}mo.{loc}.5']
            for nm in names:
                add_file('man/' + nm)
            lines.append('install_man(' + ', '.join(q('man/' + nm) for nm in names) + f', locale: {q(loc)})')
            for nm in names:
                sec = nm.rsplit('.', 1)[1]
                base = nm[:-len(f'.{loc}.{sec}')] + '.' + sec
                exp.append((P + f'/share/man/{loc}/man{sec}/{base}', 'file', 0o644, 'man', ''))
    # subdir
    if rnd.random() < 0.8:
        tree = ['top.txt', 'keep/k.txt', 'keep/deep/d e.txt', 'skipdir/s.txt', 'skip.me', 'x/ü.txt']
        for t in tree:
            add_file('tree/' + t)
        withlink = rnd.random() < 0.6
        if withlink:
            add_file('secret.key', 0o600)
            files['tree/x/lnk'] = ('->../../secret.key', None)
            files['tree/x/inner'] = ('->../top.txt', None)
        strip = rnd.random() < 0.5
        excl = rnd.random() < 0.6
        kw = "install_dir: 'share/tr', follow_symlinks: false" + (", strip_directory: true" if strip else '') + (", exclude_files: ['skip.me', 'keep/k.txt'], exclude_directories: ['skipdir']" if excl else '')
        tag = rnd.choice([None, 'runtime'])
        if tag:
            kw += f", install_tag: {q(tag)}"
        # the directory may be written with a trailing slash: the same directory, the same destinations
        lines.append(f"install_subdir({q(rnd.choice(['tree', 'tree', 'tree/']))}, {kw})")
        base = P + '/share/tr' + ('' if strip else '/tree')
        dirs = set()
        for t in tree:
            if excl and (t in ('skip.me', 'keep/k.txt') or t.startswith('skipdir/')):
                continue
            exp.append((base + '/' + t, 'file', 0o644, tag, ''))
            dd = os.path.dirname(t)
            while dd:
                dirs.add(dd)
                dd = os.path.dirname(dd)
        if excl and rnd.random() < 0.6:
            # another rule installs into the directory the subdir rule excludes: on a reinstall that directory already exists
            add_file('datax/extra.txt')
            lines.append(f"install_data('datax/extra.txt', install_dir: {q('share/tr' + ('' if strip else '/tree') + '/skipdir')})")
            exp.append((base + '/skipdir/extra.txt', 'file', 0o644, None, ''))
        if withlink:
            exp.append((base + '/x/lnk', 'link:../../secret.key', None, tag, ''))
            exp.append((base + '/x/inner', 'link:../top.txt', None, tag, ''))
        if not excl:
            dirs.add('skipdir')
        else:
            dirs.add('keep')          # keep/ still holds deep/
        for dd in dirs:
            exp.append((base + '/' + dd, 'dir', None, tag, ''))
        exp.append((base, 'dir', None, tag, ''))
        if rnd.random() < 0.5:
            # a symbolic link whose target is a DIRECTORY that exists after the installation (uninstall must remove the link,
            # not look through it)
            lines.append("install_symlink('cur', pointing_to: 'tr', install_dir: 'share')")
            exp.append((P + '/share/cur', 'link:tr', None, None, ''))
    if rnd.random() < 0.5:
        lines.append("install_emptydir('var/empty dir', install_mode: 'rwx------')")
        exp.append((P + '/var/empty dir', 'dir', 0o700, None, ''))
    if rnd.random() < 0.5:
        # a directory with a declared mode that ANOTHER rule has already created when the emptydir rule runs (headers are
        # installed before empty directories): the declared mode still applies
        add_file('hold/f.h')
        hm = rnd.choice(['rwxr-x---', 'rwx------', 'rwxrwxr-x'])
        lines.append("install_headers('hold/f.h', subdir: 'holder')")
        lines.append(f"install_emptydir('include/holder', install_mode: {q(hm)})")
        exp.append((P + '/include/holder/f.h', 'file', 0o644, 'devel', ''))
        exp.append((P + '/include/holder', 'dir', {'rwxr-x---': 0o750, 'rwx------': 0o700, 'rwxrwxr-x': 0o775}[hm], None, ''))
    if rnd.random() < 0.5:
        lines.append("install_symlink('the link', pointing_to: '../target file', install_dir: 'share/lnk')")
        exp.append((P + '/share/lnk/the link', 'link:../target file', None, None, ''))
    subtxt = None
    if rnd.random() < 0.5:
        files['subprojects/sp/s.txt'] = ('s', 0o644)
        subtxt = "project('sp')\ninstall_data('s.txt', install_dir: 'share/sp', install_tag: 'runtime')\n"
        lines.append("subproject('sp')")
        exp.append((P + '/share/sp/s.txt', 'file', 0o644, 'runtime', 'sp'))
    text = f"project('inst', default_options: ['prefix={prefix}'])\n" + '\n'.join(lines) + '\n'
    return files, text, subtxt, exp, prefix


def tree_of(root):
    out = {}
    for dp, dns, fns in os.walk(root):
        for n in dns + fns:
            p = os.path.join(dp, n)
            rel = os.path.relpath(p, root)
            if os.path.islink(p):
                out[rel] = ('link:' + os.readlink(p), None)
            elif os.path.isdir(p):
                out[rel] = ('dir', stat.S_IMODE(os.lstat(p).st_mode))
            else:
                out[rel] = ('file', stat.S_IMODE(os.lstat(p).st_mode))
    return out


def expected_tree(exp, tags=None, skip=()):
    want = {}
    for dest, kind, mode, tag, sp in exp:
        if tags is not None and tag not in tags:
            continue
        if sp and (sp in skip or '*' in skip):
            continue
        want[dest] = (kind, mode)
    # parent directories exist as a consequence
    for dest in list(want):
        dd = os.path.dirname(dest)
        while dd:
            want.setdefault(dd, ('dir', None))
            dd = os.path.dirname(dd)
    return want


def compare(got, want):
    probs = []
    for p_, (k, m) in want.items():
        if p_ not in got:
            probs.append(f'{p_!r} ({k}) was not installed')
        elif got[p_][0] != k:
            probs.append(f'{p_!r} is a {got[p_][0]}, the install rules prescribe a {k}')
        elif m is not None and got[p_][1] != m:
            probs.append(f'{p_!r} has mode {oct(got[p_][1])}, prescribed {oct(m)}')
    for p_ in got:
        if p_ not in want:
            probs.append(f'{p_!r} was installed although no install rule (or the requested tags / skipped subprojects) prescribes it')
    return probs


def _inst_chunk(chunk):
    repo = os.environ.get('VERIF_REPO', '/repo')
    fails, nt = [], 0
    for seed in chunk:
        rnd = random.Random(seed)
        files, text, subtxt, exp, prefix = gen(rnd)
        d = tempfile.mkdtemp(prefix='c11inst')
        try:
            src, build = os.path.join(d, 'src'), os.path.join(d, 'b')
            for rel, (content, mode) in files.items():
                p = os.path.join(src, rel)
                os.makedirs(os.path.dirname(p), exist_ok=True)
                if mode is None:
                    os.symlink(content[2:], p)
                    continue
                open(p, 'w').write(content)
                os.chmod(p, mode)
            open(os.path.join(src, 'meson.build'), 'w').write(text)
            if subtxt:
                open(os.path.join(src, 'subprojects', 'sp', 'meson.build'), 'w').write(subtxt)
            env = dict(os.environ, NINJA=stub_ninja(d))
            old_umask = os.umask(0o022)
            try:
                r = subprocess.run([sys.executable, os.path.join(repo, 'meson.py'), 'setup', build, src], capture_output=True, text=True, env=env)
                case0 = {'generator_seed': seed, 'prefix': prefix, 'rules': text.split('\n')[1:-1]}
                if r.returncode != 0:
                    fails.append({'case': case0, 'stage': 'install-e2e', 'detail': 'setup failed: ' + (r.stdout + r.stderr)[-300:]})
                    continue
                src_before = tree_of(src)

                def install(dest, extra=()):
                    return subprocess.run([sys.executable, os.path.join(repo, 'meson.py'), 'install', '--no-rebuild', '--destdir', dest, *extra], cwd=build, capture_output=True, text=True, env=env)
                variants = [((), None, ()), (('--tags', 'runtime'), {'runtime'}, ()), (('--skip-subprojects', 'sp'), None, ('sp',)), (('--tags', 'devel,man', '--skip-subprojects'), {'devel', 'man'}, ('*',)), (('--tags', 'runtime', '--skip-subprojects', 'sp'), {'runtime'}, ('sp',))]
                for vi, (extra, tags, skip) in enumerate(variants):
                    nt += 1
                    dest = os.path.join(d, f'dest {vi}')
                    case = dict(case0, arguments=list(extra))
                    pr = install(dest, extra)
                    if pr.returncode != 0:
                        fails.append({'case': case, 'stage': 'install-e2e', 'detail': 'install failed: ' + (pr.stdout + pr.stderr)[-300:]})
                        continue
                    got = tree_of(dest) if os.path.isdir(dest) else {}
                    for pb in compare(got, expected_tree(exp, tags, skip))[:4]:
                        fails.append({'case': case, 'stage': 'install-e2e', 'detail': pb})
                    if vi == 0:
                        # twice = once
                        pr2 = install(dest)
                        if pr2.returncode != 0:
                            fails.append({'case': case, 'stage': 'install-e2e', 'detail': 'installing a second time into the same DESTDIR failed: ' + (pr2.stdout + pr2.stderr)[-300:]})
                        if tree_of(dest) != got:
                            fails.append({'case': case, 'stage': 'install-e2e', 'detail': 'installing twice gives a different tree than installing once'})
                        # the log names what was created: removing exactly that leaves no file or link behind
                        log = os.path.join(build, 'meson-logs', 'install-log.txt')
                        named = [l.strip() for l in open(log, encoding='utf-8') if not l.startswith('#')]
                        for n_ in named:
                            if not os.path.abspath(n_).startswith(os.path.abspath(dest) + os.sep):
                                fails.append({'case': case, 'stage': 'install-e2e', 'detail': f'the install log names {n_!r}, which is not beneath DESTDIR'})
                        subprocess.run([sys.executable, os.path.join(repo, 'meson.py'), '--internal', 'uninstall'], cwd=build, capture_output=True, text=True, env=env)
                        left = [p_ for p_, (k, _m) in (tree_of(dest) if os.path.isdir(dest) else {}).items() if k != 'dir']
                        if left:
                            fails.append({'case': case, 'stage': 'install-e2e', 'detail': f'after uninstalling by the log these installed files remain: {sorted(left)[:4]}'})
                stray = sorted(x for x in os.listdir(d) if x not in ('src', 'b', 'stub') and not x.startswith('dest '))
                if stray:
                    fails.append({'case': case0, 'stage': 'install-e2e', 'detail': f'written outside DESTDIR (next to it): {stray}'})
                # dry run writes nothing
                dest = os.path.join(d, 'dest dry')
                install(dest, ('--dry-run',))
                if os.path.exists(dest) and tree_of(dest):
                    fails.append({'case': case0, 'stage': 'install-e2e', 'detail': f'--dry-run created {sorted(tree_of(dest))[:3]}'})
                if tree_of(src) != src_before:
                    fails.append({'case': case0, 'stage': 'install-e2e', 'detail': 'the source tree was modified by the installation'})
                if prefix != '/usr' and prefix != '/usr/local' and os.path.exists(prefix):
                    fails.append({'case': case0, 'stage': 'install-e2e', 'detail': f'{prefix!r} was created outside DESTDIR'})
            finally:
                os.umask(old_umask)
        finally:
            shutil.rmtree(d, ignore_errors=True)
    return len(chunk), nt, fails


def run(REG, tier, seed, jobs):
    n = 40 if tier == 'quick' else 600
    seeds = [seed * 32452843 + i for i in range(n)]
    ev, nt, fails = pmap(_inst_chunk, chunked(iter(seeds), 2), jobs)
    return {'parts': [{'name': 'C11/bounded/real-meson-install-runs', 'function': 'meson install --no-rebuild --destdir (real copy / chmod / symlink / log)',
                       'bound': f'{n} generated projects (install_data with relative and absolute dirs, modes and tags; headers; man pages (also translated ones, whose locale component is dropped from the installed name); install_subdir with excludes, strip_directory and symbolic links pointing out of and into the tree; emptydir (also one whose directory another rule creates first); symlink; a subproject; names with blanks and non-ASCII; destinations that climb with `..`; 3 prefixes) x 5 selections (all, --tags, --skip-subprojects, both in two ways) + reinstall, uninstall by the log, --dry-run',
                       'evaluations': ev, 'distinct_nontrivial': nt, 'rule': 'every installation', 'exhaustive': False, 'failures': fails}]}


CHECKS = {'C11/bounded/real-meson-install-runs': (_inst_chunk, lambda c: c['generator_seed'])}
