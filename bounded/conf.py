"""C14 bounded stand-ins (native): the meson-format placeholder scanner against an independent single-pass reference
(escape rule as pinned by the repository's own fixture config6.h.in), #mesondefine / #cmakedefine rendering, simple
cmake-format placeholders, and the generated header.  Labelled bounded; never counted as proved."""
import itertools, io, itertools, random
from bounded.util import strings, chunked, pmap

NAME = set('abcdefghijklmnopqrstuvwxyzABCDEFGHIJKLMNOPQRSTUVWXYZ0123456789_-')


def spec_replace(line, conf):
    """single left-to-right pass; a substituted value is never scanned again"""
    out, missing, i, n = [], set(), 0, len(line)

    def name_end(j):
        k = j
        while k < n and line[k] in NAME:
            k += 1
        return k if k > j else None
    while i < n:
        c = line[i]
        if c == '\\':
            k = i
            while k < n and line[k] == '\\':
                k += 1
            run = k - i
            if run >= 2 and k < n and line[k] == '@':
                out.append('\\' * (run // 2))
                i += 2 * (run // 2)
                continue
            if line[i + 1:i + 2] == '@':
                e = name_end(i + 2)
                if e is not None and line[e:e + 2] == '\\@':
                    out.append('@' + line[i + 2:e] + '@')
                    i = e + 2
                    continue
            out.append(c)
            i += 1
            continue
        if c == '@' and (i == 0 or line[i - 1] != '\\'):
            e = name_end(i + 1)
            if e is not None and e < n and line[e] == '@':
                nm = line[i + 1:e]
                if nm in conf:
                    v = conf[nm]
                    out.append(v if isinstance(v, str) else str(v))
                else:
                    missing.add(nm)
                i = e + 1
                continue
        out.append(c)
        i += 1
    return ''.join(out), missing


CONFS = [{}, {'A': 'x', 'b': '@A@', 'N': 7}, {'A': '\\@b\\@', 'b': True, 'A-b': '${A}'}]


class CD:
    """stand-in for ConfigurationData (dict of name -> (value, description))"""
    def __init__(self, d):
        self.values = {k: (v, None) for k, v in d.items()}

    def get(self, k):
        return self.values[k]

    def keys(self):
        return self.values.keys()

    def __contains__(self, k):
        return k in self.values


def _meson_chunk(chunk):
    from mesonbuild.utils.universal import do_conf_str
    from mesonbuild import mlog
    fails, nt = [], 0
    for t in chunk:
        for ci, conf in enumerate(CONFS):
            exp, miss = spec_replace(t, conf)
            try:
                res, gm, _ = do_conf_str('src', [t], CD(conf), 'meson')
            except Exception as ex:
                fails.append({'case': {'template': t, 'conf': ci}, 'stage': 'meson', 'detail': f'{type(ex).__name__}: {ex}'})
                continue
            if '@' in t:
                nt += 1
            if res != [exp] or gm != miss:
                fails.append({'case': {'template': t, 'conf': ci}, 'stage': 'meson', 'detail': f'output {res!r} missing {sorted(gm)!r}; single-pass reference {[exp]!r} missing {sorted(miss)!r}'})
    return len(chunk) * len(CONFS), nt, fails


VALID = set('abcdefghijklmnopqrstuvwxyzABCDEFGHIJKLMNOPQRSTUVWXYZ0123456789_/.+-')


class Malformed(Exception):
    pass


def ref_cmake(line, at_only, conf, missing):
    """reference for the cmake / cmake@ formats, written from the documentation: @NAME@ (and ${NAME} unless at-only) is replaced
    by the value of NAME when NAME consists of [a-zA-Z0-9_/.+-]; other text between two @ is left alone; an invalid character
    inside ${...} or a missing } is an error; an undefined name is replaced by nothing and reported.  (Values used here contain
    no @ $ { }, so whether inserted text is scanned again does not matter.)"""
    out, i = '', 0

    def value(name):
        if name in conf:
            v = conf[name]
            return str(int(v)) if isinstance(v, bool) else str(v)
        missing.add(name)
        return ''
    while i < len(line):
        c = line[i]
        if c == '@':
            j = line.find('@', i + 1)
            if j > i + 1 and all(ch in VALID for ch in line[i + 1:j]):
                out += value(line[i + 1:j])
                i = j + 1
                continue
        elif not at_only and line[i:i + 2] == '${':
            depth, j = 1, i + 2
            while depth > 0:
                if j >= len(line):
                    raise Malformed('incomplete')
                if line[j:j + 2] == '${':
                    depth += 1
                    j += 2
                elif line[j] == '}':
                    depth -= 1
                    j += 1
                elif line[j] in '@\n' or line[j] in VALID:
                    j += 1
                else:
                    raise Malformed('invalid character')
            name = ref_cmake(line[i + 2:j - 1], at_only, conf, missing)
            if any(ch not in VALID for ch in name):
                raise Malformed('invalid character')
            out += value(name)
            i = j
            continue
        out += c
        i += 1
    return out


CCONFS = [{}, {'A': 'v', 'b': 'w w', 'Ab': 7, 'v': 'deep', 'T': True}]


def _cmake_chunk(chunk):
    from mesonbuild.utils.universal import do_conf_str
    from mesonbuild.utils.core import MesonException
    fails, nt = [], 0
    for t in chunk:
        for ci, conf in enumerate(CCONFS):
            for fmt in ('cmake', 'cmake@'):
                miss = set()
                try:
                    exp = ref_cmake(t, fmt == 'cmake@', conf, miss)
                except Malformed:
                    exp = 'error'
                try:
                    res, gm, _ = do_conf_str('src', [t], CD(conf), fmt)
                    got = res[0]
                except MesonException:
                    got, gm = 'error', set()
                except Exception as ex:
                    fails.append({'case': {'template': t, 'conf': ci, 'format': fmt}, 'stage': 'cmake', 'detail': f'{type(ex).__name__}: {ex}'})
                    continue
                nt += ('@' in t or '${' in t)
                if got != exp or (exp != 'error' and gm != miss):
                    fails.append({'case': {'template': t, 'conf': ci, 'format': fmt}, 'stage': 'cmake', 'detail': f'output {got!r} missing {sorted(gm)!r}; reference {exp!r} missing {sorted(miss)!r}'})
    return len(chunk) * len(CCONFS) * 2, nt, fails


def ref_cmakedefine(line, conf):
    """#cmakedefine VAR [tokens...] -> `/* #undef VAR */` when VAR is undefined or false-ish, else `#define VAR tokens` with each token
    that names a variable replaced by its value; #cmakedefine01 VAR -> `#define VAR 0|1`"""
    arr = line.strip()[1:].split()
    var = arr[1]
    if arr[0] == 'cmakedefine01':
        return '#define %s %d\n' % (var, 1 if conf.get(var) else 0)
    if not conf.get(var):
        return '/* #undef %s */\n' % var
    toks = [str(conf[t]) if t in conf else t for t in arr[2:]]
    return ('#define %s %s' % (var, ' '.join(toks))).strip() + '\n'


DEFCONFS = [{}, {'V': 'text', 'ON': True, 'OFF': False, 'N': 3, 'Z': 0, 'E': ''}]


def _cmakedefine_chunk(chunk):
    from mesonbuild.utils.universal import do_conf_str
    fails, nt = [], 0
    for line in chunk:
        for ci, conf in enumerate(DEFCONFS):
            for fmt in ('cmake', 'cmake@'):
                exp = keep_eol(ref_cmakedefine(line, conf), line)
                nt += 1
                try:
                    res, _gm, _ = do_conf_str('src', [line], CD(conf), fmt)
                except Exception as ex:
                    fails.append({'case': {'line': line, 'conf': ci, 'format': fmt}, 'stage': 'cmakedefine', 'detail': f'{type(ex).__name__}: {ex}'})
                    continue
                if res != [exp]:
                    fails.append({'case': {'line': line, 'conf': ci, 'format': fmt}, 'stage': 'cmakedefine', 'detail': f'output {res!r}, reference {[exp]!r}'})
    return len(chunk) * len(DEFCONFS) * 2, nt, fails


def keep_eol(rendered, line):
    """a define line keeps the line ending of the template ("copies every other byte (including line endings) unchanged"); a
    define line with no terminator at all gets '\\n' (as upstream's own do_conf_str tests pin)"""
    eol = line[len(line.rstrip('\r\n')):]
    return rendered if rendered == 'error' or not eol else rendered[:-1] + eol


def spec_define(line, conf):
    """#mesondefine VAR: unset -> undef comment; bool -> #define / #undef; int -> #define V n; str -> #define V s, the value copied verbatim"""
    arr = line.split()
    if len(arr) != 2:
        return 'error'
    v = arr[1]
    if v not in conf:
        return '/* #undef %s */\n' % v
    x = conf[v]
    if isinstance(x, bool):
        return ('#define %s\n' if x else '#undef %s\n') % v
    if isinstance(x, int):
        return '#define %s %d\n' % (v, x)
    return ('#define %s %s' % (v, x)).strip() + '\n'


def _define_chunk(chunk):
    from mesonbuild.utils.universal import do_conf_str
    from mesonbuild.utils.core import MesonException
    fails, nt = [], 0
    for line, ci in chunk:
        conf = DCONFS[ci]
        exp = keep_eol(spec_define(line, conf), line)
        try:
            res, _, _ = do_conf_str('src', [line], CD(conf), 'meson')
            got = res[0]
        except MesonException:
            got = 'error'
        except Exception as ex:
            got = f'internal {type(ex).__name__}'
        nt += 1
        if got != exp:
            fails.append({'case': {'line': line, 'conf': ci}, 'stage': 'mesondefine', 'detail': f'rendered {got!r}, documented rendering {exp!r}'})
    return len(chunk), nt, fails


FILE_LINES = ['#mesondefine V', 'plain @V@ text', 'x\f#mesondefine W', '#mesondefine T\f', 'a\x0bb @W@', 'p\x1cq #mesondefine V', 'u\x85#mesondefine V', 'z\u2028#mesondefine V',
              '\u2029', '', '  #mesondefine F', 'k\x1d\x1e#mesondefine V']
FILE_SEPS = ['\n', '\r\n', '\r']


def _file_chunk(chunk):
    """whole template FILES through do_conf_file: the file is cut into lines at \\n, \\r\\n and \\r only (what a text editor
    and the C preprocessor call a line); form feed, vertical tab, the FS/GS/RS controls, NEL, U+2028/9 are ordinary characters"""
    import os, re, tempfile
    from mesonbuild.utils.universal import do_conf_file
    from mesonbuild.utils.core import MesonException
    conf = DCONFS[1]
    fails, nt = [], 0
    d = tempfile.mkdtemp(prefix='c14file')
    try:
        for lines, seps in chunk:
            text = ''.join(l + s_ for l, s_ in zip(lines, seps))
            exp = []
            for ln in re.findall(r'[^\r\n]*(?:\r\n|\r|\n)|[^\r\n]+', text):
                if ln.lstrip().startswith('#mesondefine'):
                    exp.append(keep_eol(spec_define(ln, conf), ln))
                else:
                    exp.append(spec_replace(ln, conf)[0])
            exp = 'error' if 'error' in exp else ''.join(exp)
            src, dst = os.path.join(d, 'in'), os.path.join(d, 'out')
            with open(src, 'w', encoding='utf-8', newline='') as f:
                f.write(text)
            try:
                do_conf_file(src, dst, CD(conf), 'meson')
                with open(dst, encoding='utf-8', newline='') as f:
                    got = f.read()
            except MesonException:
                got = 'error'
            except Exception as ex:
                got = f'internal {type(ex).__name__}: {ex}'
            nt += 1
            if got != exp:
                fails.append({'case': {'lines': list(lines), 'separators': list(seps)}, 'stage': 'file', 'detail': f'the file {text!r} is rendered as {got!r}, line by line it should be {exp!r}'})
    finally:
        import shutil
        shutil.rmtree(d, ignore_errors=True)
    return len(chunk), nt, fails


DCONFS = [{}, {'V': 'text', 'W': 3, 'T': True, 'F': False, 'X': 'y'}, {'V': '@X@', 'X': 'y', 'W': 0}, {'V': ' spaced ', 'W': -5}]


def _header_chunk(chunk):
    """a header generated without a template defines exactly the keys of the data, once each, in sorted order"""
    from mesonbuild.utils.universal import _dump_c_header
    import re
    fails, nt = [], 0
    for items in chunk:
        cd = CD(dict(items))
        for fmt, guard in (('c', None), ('c', 'G_H'), ('nasm', None)):
            f = io.StringIO()
            _dump_c_header(f, cd, fmt, guard)
            text = f.getvalue()
            pre = '#' if fmt == 'c' else '%'
            keys = re.findall(r'^%s(?:define|undef) (\S+)' % re.escape(pre), text, re.M)
            if guard:
                keys = [k for k in keys if k != guard]
            nt += 1
            if keys != sorted(dict(items)):
                fails.append({'case': {'items': [list(i) for i in items], 'format': fmt, 'guard': guard}, 'stage': 'header', 'detail': f'defined keys {keys!r}, expected {sorted(dict(items))!r}'})
                continue
            # ... and each key with the documented rendering of its value: true -> define, false -> undef, integers and strings as text
            want = [header_line(pre, k, v) for k, v in sorted(dict(items).items())]
            got = [l for l in text.splitlines() if re.match(r'^%s(?:define|undef) ' % re.escape(pre), l) and (not guard or not l.endswith(' ' + guard))]
            if got != want:
                fails.append({'case': {'items': [list(i) for i in items], 'format': fmt, 'guard': guard}, 'stage': 'header-values', 'detail': f'define lines {got!r}, documented rendering {want!r}'})
    return len(chunk) * 3, nt, fails


def header_line(pre, k, v):
    if isinstance(v, bool):
        return f'{pre}define {k}' if v else f'{pre}undef {k}'
    return f'{pre}define {k} {v}'


def _history_chunk(chunk):
    """the rendering of a value is a function of the value: what was rendered earlier in the same process (the same key as a boolean,
    then as the integer that compares equal to it, and the other way round; template and generated header) changes nothing"""
    from mesonbuild.utils.universal import do_conf_str, _dump_c_header
    fails, nt = [], 0
    for key, first, second, how in chunk:
        out = []
        for v in (first, second):
            if how == 'template':
                res, _, _ = do_conf_str('src', [f'#mesondefine {key}\n'], CD({key: v}), 'meson')
                out.append((res[0], spec_define(f'#mesondefine {key}\n', {key: v})))
            else:
                f = io.StringIO()
                _dump_c_header(f, CD({key: v}), how, None)
                pre = '#' if how == 'c' else '%'
                out.append(([l for l in f.getvalue().splitlines() if l.startswith(pre + 'define ') or l.startswith(pre + 'undef ')], [header_line(pre, key, v)]))
        nt += 1
        for (got, want), v in zip(out, (first, second)):
            if got != want:
                fails.append({'case': {'key': key, 'values': [repr(first), repr(second)], 'through': how}, 'stage': 'history', 'detail': f'{key} = {v!r} rendered after {first!r}: {got!r}, documented rendering {want!r}'})
                break
    return len(chunk), nt, fails


def file_cases():
    out = []
    for l1 in FILE_LINES:
        for s1 in FILE_SEPS:
            out.append(((l1,), (s1,)))
            out.append(((l1,), ('',)))
            for l2 in FILE_LINES:
                for s2 in FILE_SEPS + ['']:
                    if l2 == '' and s2 == '':
                        continue
                    out.append(((l1, l2), (s1, s2)))
    return out


def run(REG, tier, seed, jobs):
    parts = []
    fc = file_cases()
    ev, nt, fails = pmap(_file_chunk, chunked(iter(fc), 100), jobs)
    parts.append({'name': 'C14/bounded/whole-files-line-by-line', 'function': 'do_conf_file (real files, meson format)',
                  'bound': f'{len(fc)} template files of 1-2 lines over {len(FILE_LINES)} line bodies (define lines, placeholders, and the characters str.splitlines treats as line ends but a text file does not: FF, VT, FS, GS, RS, NEL, U+2028, U+2029, before and after a directive) x line ends LF / CRLF / CR / none at the end',
                  'evaluations': ev, 'distinct_nontrivial': nt, 'rule': 'every file', 'exhaustive': True, 'failures': fails})
    alpha = ['@', '\\', 'A', 'b', 'N', 'x', '-', ' ', '$', '{', '}']
    n = 5 if tier == 'quick' else 6
    # plus: characters that are word characters for Python's re but NOT name characters of a placeholder (only ASCII letters, digits, _ and -)
    alpha2 = ['@', '\\', 'A', 'é', '日', 'ß', '٣']
    ev, nt, fails = pmap(_meson_chunk, chunked(itertools.chain(strings(alpha, n), strings(alpha2, 4)), 20000), jobs)
    parts.append({'name': 'C14/bounded/meson-format-vs-single-pass-scanner', 'function': 'do_replacement_meson / get_variable_regex', 'bound': f'all templates of <= {n} symbols over {alpha!r} and of <= 4 symbols over {alpha2!r} (non-ASCII word characters are not name characters) x {len(CONFS)} configurations (values that look like placeholders included)',
                  'evaluations': ev, 'distinct_nontrivial': nt, 'rule': 'non-trivial: the template contains @', 'exhaustive': True, 'failures': fails})
    lines = ['#mesondefine ' + v for v in ['V', 'W', 'T', 'F', 'X', 'Q']] + ['  #mesondefine V', '#mesondefine', '#mesondefine V W', '#mesondefine V\n', '\t#mesondefine W\r\n']
    cases = [(l, ci) for l in lines for ci in range(len(DCONFS))]
    ev, nt, fails = pmap(_define_chunk, chunked(iter(cases), 8), jobs)
    parts.append({'name': 'C14/bounded/mesondefine-rendering', 'function': 'do_define_meson', 'bound': f'{len(lines)} #mesondefine line forms x {len(DCONFS)} configurations (string / int / bool / unset, a string value that looks like a placeholder)',
                  'evaluations': ev, 'distinct_nontrivial': nt, 'rule': 'every case is distinct', 'exhaustive': True, 'failures': fails})
    vals = ['s', 3, True, False, '']
    names = ['b', 'A', 'c_1', 'Z']
    sets = []
    for k in range(0, 4):
        for ns in itertools.permutations(names, k):
            for vs in itertools.product(vals, repeat=k):
                sets.append(tuple(zip(ns, vs)))
    rnd = random.Random(seed)
    if tier == 'quick' and len(sets) > 3000:
        sets = rnd.sample(sets, 3000)
    ev, nt, fails = pmap(_header_chunk, chunked(iter(sets), 200), jobs)
    parts.append({'name': 'C14/bounded/generated-header-sorted-keys-once', 'function': '_dump_c_header', 'bound': f'{len(sets)} configuration data sets (insertion orders, value types) x 3 output formats',
                  'evaluations': ev, 'distinct_nontrivial': nt, 'rule': 'every case is distinct', 'exhaustive': tier != 'quick', 'failures': fails})
    hc, n_ = [], 0
    for how in ('template', 'c', 'nasm'):
        for a, b in ((True, 1), (1, True), (False, 0), (0, False), (True, '1'), (1, '1'), (2, True)):
            n_ += 1
            hc.append((f'HK{n_}', a, b, how))          # a fresh key per case: no case meets what another one left behind
    ev, nt, fails = pmap(_history_chunk, chunked(iter(hc), 1), jobs)
    parts.append({'name': 'C14/bounded/rendering-independent-of-earlier-renderings', 'function': 'do_define_meson / _dump_c_header', 'bound': f'{len(hc)} pairs of renderings of one key in one process (boolean then the equal integer and the reverse, integer / string), through a template and through the generated header (c, nasm)',
                  'evaluations': ev, 'distinct_nontrivial': nt, 'rule': 'every case is distinct', 'exhaustive': True, 'failures': fails})
    dl = [f'{ind}#{sp}{kw} {var}{rest}\n' for ind in ('', '  ') for sp in ('', ' ') for kw in ('cmakedefine', 'cmakedefine01') for var in ('V', 'ON', 'OFF', 'N', 'Z', 'E', 'U')
          for rest in (('', ' 1', ' V', ' N x', ' "q"') if kw == 'cmakedefine' else ('',))]
    ev, nt, fails = pmap(_cmakedefine_chunk, chunked(iter(dl), 40), jobs)
    parts.append({'name': 'C14/bounded/cmakedefine-rendering', 'function': 'do_define_cmake', 'bound': f'{len(dl)} #cmakedefine / #cmakedefine01 line forms (indentation, blank after #, values string / true / false / int / 0 / empty / undefined, trailing tokens) x {len(DEFCONFS)} configurations x 2 formats',
                  'evaluations': ev, 'distinct_nontrivial': nt, 'rule': 'every line', 'exhaustive': True, 'failures': fails})
    calpha = ['@', 'A', 'b', ',', ' ', '${', '}', '-', 'T', '\\', 'v']
    cn = 4 if tier == 'quick' else 5
    ctempl = (''.join(t) for k in range(cn + 1) for t in itertools.product(calpha, repeat=k))
    ev, nt, fails = pmap(_cmake_chunk, chunked(ctempl, 3000), jobs)
    parts.append({'name': 'C14/bounded/cmake-formats-vs-reference', 'function': 'do_replacement_cmake / do_conf_str_cmake', 'bound': f'all templates of <= {cn} symbols over {calpha!r} x {len(CCONFS)} configurations x the cmake and cmake@ formats',
                  'evaluations': ev, 'distinct_nontrivial': nt, 'rule': 'non-trivial: the template contains @ or ${', 'exhaustive': True, 'failures': fails})
    return {'parts': parts}


CHECKS = {
    'C14/bounded/whole-files-line-by-line': (_file_chunk, lambda c: (tuple(c['lines']), tuple(c['separators']))),
    'C14/bounded/meson-format-vs-single-pass-scanner': (_meson_chunk, lambda c: c['template']),
    'C14/bounded/mesondefine-rendering': (_define_chunk, lambda c: (c['line'], c['conf'])),
}
