"""C12 bounded stand-ins (native): the real TestRun classes driven over exit codes x should_fail x pre-set results,
the harness counters over result sequences, and Python's extended slice as used by --slice."""
import itertools, random
from bounded.util import chunked, pmap


def mk_run(cls, should_fail, expected_exitcode=0):
    from mesonbuild import mtest

    class T_:
        name = 't'
        is_parallel = False
        timeout = 30
        fname = ['x']
        suite = ['s']
        project_name = 'p'
        protocol = mtest.TestProtocol.EXITCODE
        cmd_args = []
        env = None
        exe_wrapper = None
        workdir = None
        needs_exe_wrapper = False
        priority = 0
        verbose = False
    t = T_()
    t.should_fail = should_fail
    t.expected_fail = should_fail
    t.expected_exitcode = expected_exitcode
    t.protocol = {v: k for k, v in mtest.TestRun.PROTOCOL_TO_CLASS.items()}[cls]
    run = cls(t, {}, 'name', 30, False, False, False)
    run.start([])
    return run


def _cls_chunk(chunk):
    from mesonbuild import mtest
    from mesonbuild.mtest import TestResult
    from specs.mtest import finish, by_exit_code, bad
    fails, nt = [], 0
    for clsname, rc, sf, exp, pre in chunk:
        run = mk_run(getattr(mtest, clsname), sf, exp)
        if pre is not None:
            run.res = TestResult[pre]
        run.returncode = rc
        run.complete()
        r0 = TestResult[pre] if pre else TestResult.RUNNING
        if clsname == 'TestRunExitCode':
            want = finish(by_exit_code(r0, rc, exp), sf, False)
        else:
            want = finish(TestResult.ERROR if (rc != 0 and not bad(r0)) else r0, sf, False)
        nt += 1
        if run.res is not want:
            fails.append({'case': {'class': clsname, 'returncode': rc, 'should_fail': sf, 'expected_exitcode': exp, 'preset': pre},
                          'stage': 'classify', 'detail': f'classified {run.res.name}, documented rule gives {want.name}'})
    return len(chunk), nt, fails


def _tally_chunk(chunk):
    from mesonbuild import mtest
    from mesonbuild.mtest import TestResult
    from specs.mtest import bad
    fails, nt = [], 0
    for seq in chunk:
        h = object.__new__(mtest.TestHarness)
        # every counter the real constructor starts at zero (read from its source: a counter added later is counted too)
        import inspect, re as _re
        counters = sorted(set(_re.findall(r'self\.(\w+_count)\s*=\s*0', inspect.getsource(mtest.TestHarness.__init__)))
                          | {'timeout_count', 'skip_count', 'ignored_count', 'success_count', 'fail_count', 'expectedfail_count', 'unexpectedpass_count'})
        for c in counters:
            setattr(h, c, 0)
        h.collected_failures = []
        h.loggers = []
        h.options = type('O', (), {'maxfail': 0})()
        h.maxfail_reached = False if 'maxfail_reached' not in dir(mtest.TestHarness) or not isinstance(getattr(mtest.TestHarness, 'maxfail_reached', None), property) else None

        class R:
            pass
        for name in seq:
            r = R()
            r.res = TestResult[name]
            h.process_test_result(r)
        total = sum(getattr(h, c) for c in counters)
        anybad = any(bad(TestResult[n]) for n in seq)
        nt += 1
        if total != len(seq) or (h.total_failure_count() != 0) != anybad or h.success_count != seq.count('OK') or h.skip_count != seq.count('SKIP') \
                or h.timeout_count != seq.count('TIMEOUT') \
                or h.expectedfail_count != seq.count('EXPECTEDFAIL') or h.unexpectedpass_count != seq.count('UNEXPECTEDPASS'):
            fails.append({'case': {'results': list(seq)}, 'stage': 'tally', 'detail': f'counters do not equal the tally of the classifications (exit status {h.total_failure_count()})'})
    return len(chunk), nt, fails


def run(REG, tier, seed, jobs):
    parts = []
    rcs = [0, 1, 2, 77, 99, 100, 127, 255, -11]
    pres = [None, 'TIMEOUT', 'INTERRUPT', 'SKIP', 'ERROR', 'FAIL']
    cases = [(c, rc, sf, exp, pre) for c in ('TestRunExitCode', 'TestRunTAP') for rc in rcs for sf in (False, True) for exp in (0, 1, 77, 99) for pre in pres
             if not (c == 'TestRunTAP' and exp != 0)]
    ev, nt, fails = pmap(_cls_chunk, chunked(iter(cases), 50), jobs)
    parts.append({'name': 'C12/bounded/classification-by-exit-code', 'function': 'TestRunExitCode.complete / TestRunTAP.complete', 'bound': f'{len(cases)} cases: exit codes {rcs} x should_fail x expected exit code x pre-set result',
                  'evaluations': ev, 'distinct_nontrivial': nt, 'rule': 'every case is distinct', 'exhaustive': True, 'failures': fails})
    labels = ['OK', 'TIMEOUT', 'INTERRUPT', 'SKIP', 'FAIL', 'EXPECTEDFAIL', 'UNEXPECTEDPASS', 'ERROR', 'IGNORED']
    n = 4 if tier == 'quick' else 5
    seqs = itertools.chain.from_iterable(itertools.product(labels, repeat=k) for k in range(n + 1))
    ev, nt, fails = pmap(_tally_chunk, chunked(seqs, 500), jobs)
    parts.append({'name': 'C12/bounded/counters-equal-tally', 'function': 'TestHarness.process_test_result', 'bound': f'all result sequences of length <= {n} over {labels!r}',
                  'evaluations': ev, 'distinct_nontrivial': nt, 'rule': 'every sequence is distinct', 'exhaustive': True, 'failures': fails})
    bad_slices = []
    cnt = 0
    for ln in range(0, 13):
        xs = list(range(ln))
        for nn in range(1, ln + 1):
            got = [xs[i - 1::nn] for i in range(1, nn + 1)]
            cnt += 1
            if sorted(sum(got, [])) != xs or any(x % nn != i for i, g in enumerate(got) for x in g):
                bad_slices.append({'case': {'len': ln, 'n': nn}, 'stage': 'slice', 'detail': 'slices do not partition'})
    parts.append({'name': 'C12/bounded/python-extended-slice', 'function': 'list[i-1::n] (CPython)', 'bound': 'lists of length <= 12, every n <= length', 'evaluations': cnt, 'distinct_nontrivial': cnt,
                  'rule': 'every (length, n) pair', 'exhaustive': True, 'failures': bad_slices})
    return {'parts': parts}


CHECKS = {
    'C12/bounded/classification-by-exit-code': (_cls_chunk, lambda c: (c['class'], c['returncode'], c['should_fail'], c['expected_exitcode'], c['preset'])),
    'C12/bounded/counters-equal-tally': (_tally_chunk, lambda c: tuple(c['results'])),
}
