"""C04 bounded stand-in (native): generated projects of target graphs (custom targets with one or two outputs, in the
root and in a subdirectory, with inputs from other targets, depends, build_by_default / install flags, odd names; run and
alias targets; tests depending on targets; both layouts) through the REAL `meson setup` with the ninja back end (a stub
`ninja` that only answers --version: nothing is built).  The written build.ninja is parsed with an independent reader:
every rule used is defined, no path has two producers, the graph is acyclic, every input exists or is produced, what is built
by default is reachable from `all`, what tests need from `meson-test-prereq`; projects whose outputs collide must be
rejected at configure time."""
import os, random, re, shutil, subprocess, sys, tempfile
from bounded.util import chunked, pmap

NAMES = ['o1.txt', 'o2.txt', 'sp ace.txt', 'dol$lar.txt', 'uml-é.txt', 'o1.h', 'e1', 'libs1.a']
CKINDS = ['executable', 'static_library', 'shared_library', 'both_libraries']


# ---------------------------------------------------------------- an independent reader of ninja manifests
def _split_paths(s):
    """split on unescaped blanks; `$ ` `$:` `$$` are escapes; returns (list of decoded tokens, with '|', '||', ':' kept)"""
    out, cur, i = [], '', 0
    while i < len(s):
        c = s[i]
        if c == '$' and i + 1 < len(s):
            n = s[i + 1]
            if n in ' :$':
                cur += n
                i += 2
                continue
            if n == '\n':
                i += 2
                while i < len(s) and s[i] == ' ':
                    i += 1
                continue
            cur += c
            i += 1
            continue
        if c == ' ':
            if cur:
                out.append(cur)
            cur = ''
        elif c == ':':
            if cur:
                out.append(cur)
            out.append(':')
            cur = ''
        else:
            cur += c
        i += 1
    if cur:
        out.append(cur)
    return out


def parse_manifest(text):
    text = text.replace('$\n', '$\n')
    rules, builds, defaults = [], [], []
    lines = text.split('\n')
    i = 0
    while i < len(lines):
        l = lines[i]
        while l.endswith('$') and not l.endswith('$$') and i + 1 < len(lines):
            i += 1
            l = l[:-1] + lines[i].lstrip(' ')
        if l.startswith('rule '):
            rules.append(l[5:].strip())
        elif l.startswith('build '):
            toks = _split_paths(l[6:])
            if ':' not in toks:
                raise ValueError('build line without colon: ' + l[:80])
            k = toks.index(':')
            outs, rest = toks[:k], toks[k + 1:]
            if not rest:
                raise ValueError('build line without rule: ' + l[:80])
            rule, ins = rest[0], rest[1:]
            eo, io = (outs[:outs.index('|')], outs[outs.index('|') + 1:]) if '|' in outs else (outs, [])
            oo = []
            if '||' in ins:
                oo = ins[ins.index('||') + 1:]
                ins = ins[:ins.index('||')]
            ii = []
            if '|' in ins:
                ii = ins[ins.index('|') + 1:]
                ins = ins[:ins.index('|')]
            builds.append({'outs': eo + io, 'rule': rule, 'ins': ins + ii + oo})
        elif l.startswith('default '):
            defaults += _split_paths(l[8:])
        i += 1
    return rules, builds, defaults


def audit(build_dir, text):
    problems = []
    rules, builds, defaults = parse_manifest(text)
    if len(rules) != len(set(rules)):
        problems.append(f'a rule is defined twice: {sorted(r for r in rules if rules.count(r) > 1)}')
    prod = {}
    for b in builds:
        if b['rule'] != 'phony' and b['rule'] not in rules:
            problems.append(f"statement for {b['outs']} uses undefined rule {b['rule']!r}")
        for o in b['outs']:
            if o in prod:
                problems.append(f'path {o!r} is produced by two statements')
            prod[o] = b
    for b in builds:
        for x in b['ins']:
            if x not in prod and not os.path.exists(os.path.join(build_dir, x)):
                problems.append(f"input {x!r} of the statement for {b['outs']} neither exists after configuration nor is produced by a statement")
    # acyclic
    color = {}

    def visit(o, stack):
        if color.get(o) == 2:
            return
        if color.get(o) == 1:
            problems.append(f'dependency cycle through {o!r}')
            return
        color[o] = 1
        b = prod.get(o)
        if b:
            for x in b['ins']:
                visit(x, stack + [o])
        color[o] = 2
    for o in list(prod):
        visit(o, [])

    def reach(root):
        seen, st = set(), [root]
        while st:
            o = st.pop()
            if o in seen:
                continue
            seen.add(o)
            b = prod.get(o)
            if b:
                seen.update(b['outs'])          # running the statement produces all of its outputs
                st.extend(b['ins'])
        return seen
    return problems, prod, reach


# ---------------------------------------------------------------- project generator
def gen_project(rnd):
    """-> (files, spec): spec lists the targets with their output paths, default-ness and the tests' needs"""
    n = rnd.randint(1, 5)
    layout = rnd.choice(['mirror', 'mirror', 'flat'])
    targets = []
    for i in range(n):
        sub = rnd.choice(['', '', 'd1'])
        outs = rnd.sample(NAMES, rnd.choice([1, 1, 2]))
        if any(o.endswith('.h') for o in outs) and rnd.random() < 0.5:
            outs = [o for o in outs if not o.endswith('.h')] or outs
        prev = [t for t in targets if (t['sub'] == '' or sub == 'd1')]     # the root is processed before subdir('d1') ... see order below
        inputs = rnd.sample(prev, min(len(prev), rnd.choice([0, 0, 1]))) if prev else []
        depends = rnd.sample(prev, min(len(prev), rnd.choice([0, 1]))) if prev else []
        targets.append({'name': f't{i}', 'sub': sub, 'outs': outs, 'inputs': inputs, 'depends': depends, 'default': rnd.random() < 0.5, 'install': rnd.random() < 0.2, 'depfile': rnd.random() < 0.4})
    # root targets first, then the subdirectory (a subdir target may refer to root targets, not vice versa)
    root = [t for t in targets if t['sub'] == '']
    d1 = [t for t in targets if t['sub'] == 'd1']
    for t in root:
        t['inputs'] = [x for x in t['inputs'] if x['sub'] == '']
        t['depends'] = [x for x in t['depends'] if x['sub'] == '']

    def decl(t):
        q = lambda s: "'" + s.replace("'", "\\'") + "'"
        parts = [f"{t['name']} = custom_target({q(t['name'])}", 'output: [' + ', '.join(q(o) for o in t['outs']) + ']', "command: [py, '-c', 'pass', '@OUTPUT@']"]
        if t['inputs']:
            parts.append('input: [' + ', '.join(x['name'] for x in t['inputs']) + ']')
        if t['depends']:
            parts.append('depends: [' + ', '.join(x['name'] for x in t['depends']) + ']')
        if t.get('depfile'):
            parts.append("depfile: 'gen.d'")        # the same depfile name for several targets of one directory is legal
        if t['default']:
            parts.append('build_by_default: true')
        if t['install']:
            parts.append("install: true, install_dir: 'share'")
        return ',\n  '.join(parts) + ')\n'
    # compiled targets (C): executables and libraries linking earlier libraries, in the root, after the custom targets
    compiled = []
    mixed = rnd.random() < 0.4          # the project also has C++ sources
    if rnd.random() < 0.6:
        cn = ['e1', 'e2', 's1', 'd1x', 'b1']
        for j in range(rnd.randint(1, 3)):
            kind = rnd.choice(CKINDS)
            name = {'executable': ['e1', 'e2'], 'static_library': ['s1'], 'shared_library': ['d1x'], 'both_libraries': ['b1']}[kind]
            name = next((x for x in name if x not in [c['name'] for c in compiled]), None)
            if name is None:
                continue
            libs = [c for c in compiled if c['kind'] != 'executable']
            link = rnd.sample(libs, min(len(libs), rnd.choice([0, 1])))
            outs = {'executable': [name], 'static_library': [f'lib{name}.a'], 'shared_library': [f'lib{name}.so'], 'both_libraries': [f'lib{name}.so', f'lib{name}.a']}[kind]
            # a second language in the target (C++ next to C), and objects taken out of an earlier library (extract_all_objects)
            extract = rnd.choice(libs) if libs and rnd.random() < 0.4 else None
            compiled.append({'name': name, 'kind': kind, 'sub': '', 'outs': outs, 'link': link, 'default': True, 'install': False, 'gen_src': rnd.random() < 0.3,
                             'cpp': mixed and rnd.random() < 0.6, 'extract': extract})
    unity = rnd.choice(['off', 'off', 'on']) if compiled else 'off'
    deflib = rnd.choice(['shared', 'static', 'both'])

    def cdecl(c):
        srcs = "'m.c'" if c['kind'] == 'executable' else "'f.c'"
        if c['gen_src']:
            srcs += ", gen.process('x.in')"
        if c.get('cpp'):
            srcs += ", 'g.cpp'"
        if c.get('extract'):
            srcs += f", objects: {c['extract']['name']}.extract_all_objects(recursive: false)"
        lw = (', link_with: [' + ', '.join(x['name'] for x in c['link']) + ']') if c['link'] else ''
        return f"{c['name']} = {c['kind']}('{c['name']}', {srcs}{lw})\n"
    tests = []
    lang = (", 'c', 'cpp'" if mixed else ", 'c'") if compiled else ''
    root_txt = "project('gen'" + lang + ", default_options: ['layout=" + layout + "', 'unity=" + unity + "', 'default_library=" + deflib + "'])\npy = find_program('python3')\n" + ''.join(decl(t) for t in root)
    if compiled:
        root_txt += "gen = generator(py, output: '@BASENAME@.c', arguments: ['-c', 'pass', '@INPUT@', '@OUTPUT@'])\n" + ''.join(cdecl(c) for c in compiled)
    d1_txt = ''.join(decl(t) for t in d1)
    tail = ''
    if d1:
        root_txt += "subdir('d1')\n"
    if targets and rnd.random() < 0.7:
        need = rnd.sample(targets, min(len(targets), 2))
        tail += "test('tt', py, args: ['-c', 'pass'], depends: [" + ', '.join(x['name'] for x in need) + "])\n"
        tests = need
    if targets and rnd.random() < 0.5:
        tail += "alias_target('al', " + ', '.join(t['name'] for t in targets[:2]) + ")\n"
    if rnd.random() < 0.4:
        tail += "run_target('rt', command: [py, '-c', 'pass']" + (", depends: [" + targets[0]['name'] + "]" if targets else '') + ")\n"
    files = {'meson.build': root_txt + tail}
    if compiled:
        files['m.c'] = 'int main(void) { return 0; }\n'
        files['f.c'] = 'int f(void) { return 1; }\n'
        files['x.in'] = ''
        files['g.cpp'] = 'int g() { return 2; }\n'
        if rnd.random() < 0.5:
            tail2 = "test('ct', " + next((c['name'] for c in compiled if c['kind'] == 'executable'), 'py') + ")\n"
            files['meson.build'] += tail2
            ex = [c for c in compiled if c['kind'] == 'executable'][:1]
            tests = tests + ex
    if d1:
        files['d1/meson.build'] = d1_txt
    targets = targets + compiled
    for t in targets:
        t['paths'] = [('meson-out/' + o) if layout == 'flat' else (o if not t['sub'] else t['sub'] + '/' + o) for o in t['outs']]
    allp = [p for t in targets for p in t['paths']]
    collide = len(allp) != len(set(allp))
    return files, {'layout': layout, 'targets': targets, 'tests': tests, 'collide': collide, 'unity': unity, 'default_library': deflib}


def stub_ninja(d):
    p = os.path.join(d, 'stub', 'ninja')
    os.makedirs(os.path.dirname(p), exist_ok=True)
    open(p, 'w').write('#!/bin/sh\necho 1.11.1\n')
    os.chmod(p, 0o755)
    return p


def _graph_chunk(chunk):
    repo = os.environ.get('VERIF_REPO', '/repo')
    fails, nt = [], 0
    for seed in chunk:
        rnd = random.Random(seed)
        files, spec = gen_project(rnd)
        d = tempfile.mkdtemp(prefix='c04gen')
        try:
            src, build = os.path.join(d, 'src'), os.path.join(d, 'b')
            for rel, txt in files.items():
                p = os.path.join(src, rel)
                os.makedirs(os.path.dirname(p), exist_ok=True)
                open(p, 'w').write(txt)
            env = dict(os.environ, NINJA=stub_ninja(d))
            r = subprocess.run([sys.executable, os.path.join(repo, 'meson.py'), 'setup', build, src], capture_output=True, text=True, env=env)
            case = {'generator_seed': seed, 'layout': spec['layout'], 'unity': spec['unity'], 'default_library': spec['default_library'], 'targets': [[t['name'], t['sub'], t['outs']] for t in spec['targets']]}
            if spec['collide']:
                nt += 1
                if r.returncode == 0:
                    fails.append({'case': case, 'stage': 'collision', 'detail': 'two targets produce the same path but the project was accepted at configure time'})
                elif 'Traceback' in r.stdout + r.stderr:
                    fails.append({'case': case, 'stage': 'collision', 'detail': 'rejected with an internal error: ' + (r.stdout + r.stderr)[-200:]})
                continue
            if r.returncode != 0:
                fails.append({'case': case, 'stage': 'configure', 'detail': 'a collision-free project was rejected: ' + (r.stdout + r.stderr)[-300:]})
                continue
            nt += 1
            text = open(os.path.join(build, 'build.ninja'), encoding='utf-8').read()
            try:
                problems, prod, reach = audit(build, text)
            except Exception as ex:
                fails.append({'case': case, 'stage': 'manifest', 'detail': f'the manifest cannot be read: {type(ex).__name__}: {ex}'})
                continue
            for t in spec['targets']:
                for p in t['paths']:
                    if p not in prod:
                        problems.append(f"output {p!r} of target {t['name']} has no build statement")
            if 'all' in prod:
                ra = reach('all')
                for t in spec['targets']:
                    if t['default'] or t['install']:
                        for p in t['paths']:
                            if p not in ra:
                                problems.append(f"{p!r} is built by default but is not reachable from `all`")
            else:
                problems.append('no `all` target')
            if spec['tests']:
                if 'meson-test-prereq' not in prod:
                    problems.append('no `meson-test-prereq` target')
                else:
                    rt = reach('meson-test-prereq')
                    for t in spec['tests']:
                        for p in t['paths']:
                            if p not in rt:
                                problems.append(f"{p!r}, which a test depends on, is not reachable from `meson-test-prereq`")
            for pr in problems[:3]:
                fails.append({'case': case, 'stage': 'manifest', 'detail': pr})
        finally:
            shutil.rmtree(d, ignore_errors=True)
    return len(chunk), nt, fails


KINDS = ['executable', 'custom_target', 'custom_target_index', 'jar', 'args_target', 'depends_target', 'args_custom_index']


def _kinds_chunk(chunk):
    """every kind of thing a test can run or depend on, each NOT built by default, as test() and as benchmark():
    it must be reachable from meson-test-prereq / meson-benchmark-prereq"""
    repo = os.environ.get('VERIF_REPO', '/repo')
    fails, nt = [], 0
    for kind, fn in chunk:
        if kind == 'jar' and not shutil.which('javac'):
            continue
        d = tempfile.mkdtemp(prefix='c04kind')
        try:
            src, build = os.path.join(d, 'src'), os.path.join(d, 'b')
            os.makedirs(src)
            open(os.path.join(src, 'm.c'), 'w').write('int main(void) { return 0; }\n')
            open(os.path.join(src, 'J.java'), 'w').write('class J { public static void main(String[] a) { } }\n')
            langs = "'c', 'java'" if kind == 'jar' else "'c'"
            txt = f"project('k', {langs})\npy = find_program('python3')\n"
            ct = "custom_target('{0}', output: ['{0}.sh', '{0}.dat'], command: [py, '-c', 'pass', '@OUTPUT@'], build_by_default: false)"
            if kind == 'executable':
                txt += f"x = executable('prog', 'm.c', build_by_default: false)\n{fn}('t', x)\n"
                want = ['prog']
            elif kind == 'custom_target':
                txt += "x = custom_target('scr', output: 'scr.sh', command: [py, '-c', 'pass', '@OUTPUT@'], build_by_default: false)\n" + f"{fn}('t', x)\n"
                want = ['scr.sh']
            elif kind == 'custom_target_index':
                txt += 'x = ' + ct.format('two') + f"\n{fn}('t', x[0])\n"
                want = ['two.sh']
            elif kind == 'jar':
                txt += f"x = jar('jprog', 'J.java', main_class: 'J', build_by_default: false)\n{fn}('t', x)\n"
                want = ['jprog.jar']
            elif kind == 'args_target':
                txt += f"x = executable('helper', 'm.c', build_by_default: false)\n{fn}('t', py, args: ['-c', 'pass', x])\n"
                want = ['helper']
            elif kind == 'depends_target':
                txt += f"x = executable('dep', 'm.c', build_by_default: false)\n{fn}('t', py, args: ['-c', 'pass'], depends: [x])\n"
                want = ['dep']
            else:
                txt += 'x = ' + ct.format('arg') + f"\n{fn}('t', py, args: ['-c', 'pass', x[1]])\n"
                want = ['arg.dat']
            open(os.path.join(src, 'meson.build'), 'w').write(txt)
            env = dict(os.environ, NINJA=stub_ninja(d))
            r = subprocess.run([sys.executable, os.path.join(repo, 'meson.py'), 'setup', build, src], capture_output=True, text=True, env=env)
            case = {'kind': kind, 'function': fn}
            if r.returncode != 0:
                fails.append({'case': case, 'stage': 'configure', 'detail': 'a valid project was rejected: ' + (r.stdout + r.stderr)[-300:]})
                continue
            nt += 1
            try:
                problems, prod, reach = audit(build, open(os.path.join(build, 'build.ninja'), encoding='utf-8').read())
            except Exception as ex:
                fails.append({'case': case, 'stage': 'manifest', 'detail': f'the manifest cannot be read: {type(ex).__name__}: {ex}'})
                continue
            root = f'meson-{fn}-prereq'
            if root not in prod:
                problems.append(f'no `{root}` target')
            else:
                rt = reach(root)
                for w in want:
                    if w not in rt:
                        problems.append(f"{w!r}, which the {fn} runs or depends on ({kind}), is not reachable from `{root}`")
            for pr in problems[:3]:
                fails.append({'case': case, 'stage': 'manifest', 'detail': pr})
        finally:
            shutil.rmtree(d, ignore_errors=True)
    return len(chunk), nt, fails


ALIASES = ['generated-header-of-a-linked-library-static', 'generated-header-of-a-linked-library-shared', 'generator-chain-shared-by-two-targets', 'generated-list-shared-by-two-targets', 'run-target-top-level', 'run-target-inside-subproject', 'subproject-run-target-from-top-level', 'alias-of-alias-in-subproject', 'custom-target-in-subproject']


def _alias_chunk(chunk):
    """alias_target() of run targets / aliases / custom targets, at top level and across a subproject boundary: the written
    manifest is closed (every input exists or is produced by a statement) and the alias reaches what it names"""
    repo = os.environ.get('VERIF_REPO', '/repo')
    fails, nt = [], 0
    for kind in chunk:
        d = tempfile.mkdtemp(prefix='c04alias')
        try:
            src, build = os.path.join(d, 'src'), os.path.join(d, 'b')
            os.makedirs(os.path.join(src, 'subprojects', 'sp'))
            RT = "rt = run_target('rt', command: [py, '-c', 'pass'])\n"
            CT = "ct = custom_target('ct', output: 'ct.out', command: [py, '-c', 'pass', '@OUTPUT@'])\n"
            top, sub = "project('p')\npy = find_program('python3')\n", "project('sp')\npy = find_program('python3')\n"
            if kind in ('generator-chain-shared-by-two-targets', 'generated-list-shared-by-two-targets'):
                # generator outputs live in the private directory of each consuming target: every consumer gets its own statements
                top = ("project('p', 'c')\npy = find_program('python3')\n"
                       "g1 = generator(py, output: '@PLAINNAME@.mid', arguments: ['-c', 'pass', '@INPUT@', '@OUTPUT@'])\n"
                       "g2 = generator(py, output: '@BASENAME@.c', arguments: ['-c', 'pass', '@INPUT@', '@OUTPUT@'])\n"
                       + ("src = g2.process(g1.process('x.in'))\n" if kind.startswith('generator-chain') else "src = g2.process('x.in')\n")
                       + "executable('e1', 'm.c', src)\nexecutable('e2', 'm.c', src)\nstatic_library('s3', src)\n")
                open(os.path.join(src, 'm.c'), 'w').write('int main(void) { return 0; }\n')
                open(os.path.join(src, 'x.in'), 'w').write('')
                want = None
            elif kind.startswith('generated-header-of-a-linked-library'):
                # a library whose sources hold a generator() result with a HEADER output, linked by targets that do not process that
                # input themselves: the consumers wait for the header where the library's statements produce it (inputs closed)
                top = ("project('p', 'c')\npy = find_program('python3')\n"
                       "gh = generator(py, output: ['@BASENAME@.h', '@BASENAME@.c'], arguments: ['-c', 'pass', '@INPUT@', '@OUTPUT0@', '@OUTPUT1@'])\n"
                       + ("lib = static_library('gl', gh.process('defs.in'))\n" if 'static' in kind else "lib = shared_library('gl', gh.process('defs.in'))\n")
                       + "mid = static_library('mid', 'mid.c', link_with: lib)\n"
                       "executable('app', 'm.c', link_with: lib)\nexecutable('app2', 'm.c', link_with: mid)\n")
                open(os.path.join(src, 'm.c'), 'w').write('int main(void) { return 0; }\n')
                open(os.path.join(src, 'mid.c'), 'w').write('int mid(void) { return 0; }\n')
                open(os.path.join(src, 'defs.in'), 'w').write('')
                want = None
            elif kind == 'run-target-top-level':
                top += RT + "alias_target('al', rt)\n"
                want = ('al', 'rt')
            elif kind == 'run-target-inside-subproject':
                top += "subproject('sp')\n"
                sub += RT + "alias_target('inner', rt)\n"
                want = ('sp@@inner', 'sp@@rt')
            elif kind == 'subproject-run-target-from-top-level':
                top += "sp = subproject('sp')\nalias_target('al', sp.get_variable('rt'))\n"
                sub += RT
                want = ('al', 'sp@@rt')
            elif kind == 'alias-of-alias-in-subproject':
                top += "subproject('sp')\n"
                sub += CT + "a1 = alias_target('a1', ct)\nalias_target('a2', a1)\n"
                want = ('sp@@a2', 'subprojects/sp/ct.out')
            else:
                top += "sp = subproject('sp')\nalias_target('al', sp.get_variable('ct'))\n"
                sub += CT
                want = ('al', 'subprojects/sp/ct.out')
            open(os.path.join(src, 'meson.build'), 'w').write(top)
            open(os.path.join(src, 'subprojects', 'sp', 'meson.build'), 'w').write(sub)
            r = subprocess.run([sys.executable, os.path.join(repo, 'meson.py'), 'setup', build, src], capture_output=True, text=True, env=dict(os.environ, NINJA=stub_ninja(d)))
            case = {'kind': kind}
            if r.returncode != 0:
                fails.append({'case': case, 'stage': 'configure', 'detail': 'a valid project was rejected: ' + (r.stdout + r.stderr)[-300:]})
                continue
            nt += 1
            try:
                problems, prod, reach = audit(build, open(os.path.join(build, 'build.ninja'), encoding='utf-8').read())
            except Exception as ex:
                fails.append({'case': case, 'stage': 'manifest', 'detail': f'the manifest cannot be read: {type(ex).__name__}: {ex}'})
                continue
            if want is None:
                pass
            elif want[0] not in prod:
                problems.append(f'no statement for the alias {want[0]!r}')
            elif want[1] not in reach(want[0]):
                problems.append(f'the alias {want[0]!r} does not reach {want[1]!r}')
            for pr in problems[:3]:
                fails.append({'case': case, 'stage': 'manifest', 'detail': pr})
        finally:
            shutil.rmtree(d, ignore_errors=True)
    return len(chunk), nt, fails


def run(REG, tier, seed, jobs):
    aev, ant, afails = pmap(_alias_chunk, chunked(iter(ALIASES), 1), jobs)
    apart = {'name': 'C04/bounded/alias-targets-across-subprojects', 'function': 'meson setup (ninja back end, stub ninja) -> build.ninja',
             'bound': f'{len(ALIASES)} projects: a library with a generator-made header linked by other targets (static / shared); a generator chain / a generated list used as a source of three targets; alias_target() of a run target, of another alias, of a custom target — in the top-level project, inside a subproject, and from the top level onto a target of a subproject',
             'evaluations': aev, 'distinct_nontrivial': ant, 'rule': 'every project', 'exhaustive': True, 'failures': afails}
    kinds = [(k, f) for k in KINDS for f in ('test', 'benchmark')]
    kev, knt, kfails = pmap(_kinds_chunk, chunked(iter(kinds), 1), jobs)
    kpart = {'name': 'C04/bounded/test-program-kinds-are-prerequisites', 'function': 'meson setup (ninja back end, stub ninja) -> build.ninja',
             'bound': f'{len(kinds)} projects: test() and benchmark() whose program / argument / depends: is an executable, a custom target, one output of a custom target, a jar (real javac), each with build_by_default: false',
             'evaluations': kev, 'distinct_nontrivial': knt, 'rule': 'non-trivial: configured (the jar cases need javac)', 'exhaustive': True, 'failures': kfails}
    n = 160 if tier == 'quick' else 3000
    seeds = [seed * 100003 + i for i in range(n)]
    ev, nt, fails = pmap(_graph_chunk, chunked(iter(seeds), 5), jobs)
    return {'parts': [apart, kpart, {'name': 'C04/bounded/generated-target-graphs-through-meson-setup', 'function': 'meson setup (ninja back end, stub ninja) -> build.ninja',
                       'bound': f'{n} generated projects: <= 5 custom targets with 1-2 outputs over {NAMES!r} in the root and a subdirectory, inputs/depends on earlier targets, build_by_default / install, depfiles (one name shared by several targets); <= 3 compiled C targets (executable, static / shared / both libraries linking earlier libraries, generator-produced sources); tests, alias and run targets; layout mirror/flat, unity on/off, default_library shared/static/both; C++ sources next to C ones, objects extracted from an earlier library',
                       'evaluations': ev, 'distinct_nontrivial': nt, 'rule': 'non-trivial: configured, or rejected for a collision', 'exhaustive': False, 'failures': fails}]}


CHECKS = {'C04/bounded/generated-target-graphs-through-meson-setup': (_graph_chunk, lambda c: c['generator_seed']),
          'C04/bounded/alias-targets-across-subprojects': (_alias_chunk, lambda c: c['kind']),
          'C04/bounded/test-program-kinds-are-prerequisites': (_kinds_chunk, lambda c: (c['kind'], c['function']))}
