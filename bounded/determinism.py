"""C06 bounded stand-in (native): WHOLE configure runs of small generated projects through the real `meson setup`
with the ninja back end (a stub `ninja` that only answers --version is put in $NINJA: nothing is built) in fresh interpreters — under several PYTHONHASHSEED values and with the environment in two different
orders the generated text (build.ninja, meson-info/intro-*.json, configure_file outputs, cmd_line.txt) is byte-identical; a
reconfigure with nothing changed leaves it identical and does not touch unchanged configure_file outputs."""
import hashlib, json, os, shutil, subprocess, sys, tempfile
from bounded.util import chunked, pmap

PROJECTS = {
    'install': {
        'meson.build': """project('install')
install_subdir('sub', install_dir: 'share', exclude_files: ['a.txt', 'b.txt', 'c.txt', 'dd.txt'], exclude_directories: ['x', 'y', 'zz'])
install_data('d1.txt', 'd2.txt', 'd3.txt', install_dir: 'share/p', install_tag: 'runtime')
install_headers('h2.h', 'h1.h', subdir: 'p')
install_man('p.1', 'q.3')
install_emptydir('share/empty')
install_symlink('lnk', pointing_to: 'tgt', install_dir: 'share')
""",
        'd1.txt': '', 'd2.txt': '', 'd3.txt': '', 'h1.h': '', 'h2.h': '', 'p.1': '', 'q.3': '', 'sub/a.txt': '', 'sub/k.txt': '',
    },
    'configure': {
        'meson.build': """project('configure', version: '1.2.3')
cd = configuration_data()
foreach k : ['ZETA', 'alpha', 'Beta', 'beta', 'X1', 'x2', 'M', 'N', 'O']
  cd.set(k, k.to_lower())
endforeach
cd.set10('ON', true)
cd.set_quoted('Q', 'a b')
configure_file(output: 'config.h', configuration: cd)
configure_file(input: 'in.txt.in', output: 'out.txt', configuration: cd)
configure_file(output: 'dict.h', configuration: {'b': 1, 'a': 2, 'c': 'x y', 'A': true})
configure_file(input: 'in.txt.in', output: 'copy.txt', copy: true)
summary({'zeta': 1, 'alpha': true, 'mid': 'x'}, section: 'S')
""",
        'in.txt.in': 'v=@alpha@ @ZETA@ @M@\n#mesondefine ON\n',
    },
    'tests': {
        'meson.build': """project('tests')
p = find_program('python3')
test('t2', p, args: ['-c', 'pass'], env: {'K2': 'v', 'K1': 'w', 'K3': 'x'}, suite: ['s2', 's1'])
test('t1', p, args: ['-c', 'pass'], env: ['E2=1', 'E1=2'], is_parallel: false, priority: 3)
e = environment({'B': '1', 'A': '2', 'C': '3'})
e.prepend('PATH', '/x', '/y')
test('t3', p, env: e, timeout: 5)
benchmark('b1', p, args: ['-c', 'pass'])
add_test_setup('su', env: {'S2': '1', 'S1': '2'}, exe_wrapper: [p], timeout_multiplier: 2)
""",
    },
    'targets': {
        'meson.build': """project('targets')
p = find_program('python3')
g = custom_target('gen', output: ['g2.txt', 'g1.txt'], command: [p, '-c', 'pass'], install: true, install_dir: ['share', 'share'], install_tag: 'devel')
h = custom_target('hh', output: 'h.txt', command: [p, '-c', 'pass'], depends: g, env: {'B': '1', 'A': '2', 'C': '3'})
k = custom_target('kk', output: 'k.txt', command: [p, '-c', 'pass', '@INPUT@'], input: g, depend_files: ['meson.build'], build_by_default: true)
j = custom_target('jj', output: 'j.txt', command: [p, '-c', 'pass'], depends: [k, h, g], capture: true)
run_target('rt', command: [p, '-c', 'pass'], depends: [h, g, k], env: {'Z': '1', 'Y': '2'})
e4 = environment({'E2': 'b', 'E1': 'a', 'E3': 'c', 'E4': 'd'})
e4.append('E5', 'x')
e4.prepend('E0', 'y')
m = custom_target('mm', output: 'm.txt', command: [p, '-c', 'pass'], capture: true, env: e4)
n = custom_target('nn', output: 'n.txt', command: [p, '-c', 'pass'], feed: true, input: 'meson.build', env: {'N2': '1', 'N1': '2', 'N3': '3'})
run_target('rt2', command: [p, '-c', 'pass'], env: e4)
alias_target('al', h, g, k, j)
test('t2', p, args: ['-c', 'pass', g, h], env: {'K2': 'v', 'K1': 'w', 'K3': 'x'}, suite: ['s2', 's1'], depends: [g, h, k, j])
gen = generator(p, output: '@BASENAME@.out', arguments: ['-c', 'pass', '@INPUT@', '@OUTPUT@'])
""",
    },
    'options': {
        'meson.build': """project('options', default_options: ['o_b=true', 'o_a=zz', 'warning_level=2'])
subproject('sp', default_options: ['sp_y=2', 'sp_x=1'])
d = declare_dependency(variables: {'v2': 'b', 'v1': 'a', 'v3': 'c'})
meson.override_dependency('dd', d)
message(get_option('o_a'))
""",
        'meson.options': "option('o_c', type: 'combo', choices: ['z', 'y', 'x'], value: 'y')\noption('o_a', type: 'string', value: 'a')\noption('o_b', type: 'boolean', value: false)\noption('o_arr', type: 'array', choices: ['q', 'p', 'r'], value: ['r', 'p'])\noption('o_f', type: 'feature')\noption('o_i', type: 'integer', min: 0, max: 9, value: 4)\n",
        'subprojects/sp/meson.build': "project('sp')\n",
        'subprojects/sp/meson.options': "option('sp_y', type: 'string', value: 'y')\noption('sp_x', type: 'string', value: 'x')\n",
    },
    'compiled': {
        'meson.build': """project('compiled', 'c', version: '0.3', default_options: ['b_ndebug=if-release', 'c_std=c99'])
lib = static_library('l', 'f.c', install: true)
executable('e', 'm.c', link_with: lib, c_args: ['-DX=1'])
import('pkgconfig').generate(lib, name: 'l', description: 'd', variables: ['b=2', 'a=1'], requires: ['bar >= 1.5', 'bar != 1.5', 'bar < 2.0', 'zed', 'alpha > 1'], requires_private: ['qux <= 3', 'qux != 3', 'qux >= 3'], libraries: ['-lz', '-la', '-lz'], extra_cflags: ['-DB', '-DA'])
""",
        'f.c': 'int f(void) { return 1; }\n',
        'm.c': 'int f(void); int main(void) { return f() - 1; }\n',
    },
}

# ---- histories: a build directory that went through <first> and was then reconfigured to <then> must hold the same generated
# text as a fresh build directory configured with <then> directly
HIST_PROJECT = {
    'meson.build': """project('hist', 'c', version: '1')
foo = dependency('foo')
lib = library('l', 'f.c', dependencies: foo)
executable('e', 'm.c', link_with: lib)
message(get_option('o_a'))
configure_file(output: 'conf.h', configuration: {'A': get_option('o_a'), 'V': foo.version()})
configure_file(input: 'ver.txt', output: 'ver-copy.txt', copy: true)
configure_file(input: 'tmpl.in', output: 'tmpl.out', configuration: {'A': get_option('o_a')})
""",
    'ver.txt': '1.2.3\n',
    'tmpl.in': 'a=@A@ rev 3\n',
    'meson.options': "option('o_a', type: 'string', value: 'a')\noption('o_b', type: 'boolean', value: false)\n",
    'f.c': 'int f(void) { return 1; }\n',
    'm.c': 'int f(void); int main(void) { return f() - 1; }\n',
    'pcA/foo.pc': 'd=1\n\nName: foo\nDescription: d\nVersion: 1.0.1\nCflags: -DFOO_FROM_A\n',
    'pcB/foo.pc': 'd=1\ne=2\n\nName: foo\nDescription: d\nVersion: 1.0.2\nCflags: -DFOO_FROM_B\n',
}
HISTORIES = {
    'pkg_config_path-switched': (['-Dpkg_config_path=@SRC@/pcA'], ['-Dpkg_config_path=@SRC@/pcB']),
    'project-option-changed': (['-Dpkg_config_path=@SRC@/pcA', '-Do_a=x', '-Do_b=true'], ['-Dpkg_config_path=@SRC@/pcA', '-Do_a=y', '-Do_b=false']),
    'default_library-changed': (['-Dpkg_config_path=@SRC@/pcA', '-Ddefault_library=static'], ['-Dpkg_config_path=@SRC@/pcA', '-Ddefault_library=shared']),
    'buildtype-changed': (['-Dpkg_config_path=@SRC@/pcA', '-Dbuildtype=release'], ['-Dpkg_config_path=@SRC@/pcA', '-Dbuildtype=debug']),
    'base-option-changed': (['-Dpkg_config_path=@SRC@/pcA', '-Db_ndebug=true', '-Db_lto=true'], ['-Dpkg_config_path=@SRC@/pcA', '-Db_ndebug=false', '-Db_lto=false']),
    # the inputs of configure_file() are replaced between the two runs by files of the SAME size, modification time and mode with other
    # content (an unpacked release archive with fixed timestamps, cp -p, rsync -t): the outputs follow the content
    'inputs-replaced-keeping-size-mtime-mode': (['-Dpkg_config_path=@SRC@/pcA'], ['-Dpkg_config_path=@SRC@/pcA']),
}


def _hist_chunk(chunk):
    repo = os.environ.get('VERIF_REPO', '/repo')
    fails, nt = [], 0
    for name in chunk:
        first, then = HISTORIES[name]
        d = tempfile.mkdtemp(prefix='c06hist')
        try:
            src, build = os.path.join(d, 'src'), os.path.join(d, 'build')
            for rel, text in HIST_PROJECT.items():
                p = os.path.join(src, rel)
                os.makedirs(os.path.dirname(p), exist_ok=True)
                open(p, 'w').write(text)
            sub = lambda a: [x.replace('@SRC@', src) for x in a]
            env_clean = {k: v for k, v in os.environ.items() if not k.startswith('PKG_CONFIG')}
            def st(extra):
                env = dict(env_clean, PYTHONHASHSEED='3', NINJA=stub_ninja(d))
                r = subprocess.run([sys.executable, os.path.join(repo, 'meson.py'), 'setup', *extra, build, src], capture_output=True, text=True, env=env)
                return r.returncode, r.stdout[-300:] + r.stderr[-300:]
            rc, out = st(sub(first))
            if rc == 0 and name == 'inputs-replaced-keeping-size-mtime-mode':
                for rel, text in (('ver.txt', '1.2.4\n'), ('tmpl.in', 'a=@A@ rev 4\n')):
                    p_ = os.path.join(src, rel)
                    st_ = os.stat(p_)
                    open(p_, 'w').write(text)
                    os.utime(p_, ns=(st_.st_atime_ns, st_.st_mtime_ns))
            if rc == 0:
                rc, out = st(['--reconfigure'] + sub(then))
            nt += 1
            if rc != 0:
                fails.append({'case': {'history': name}, 'stage': 'history', 'detail': 'configuration failed: ' + out})
                continue
            hist = snapshot(build)
            shutil.rmtree(build)
            rc, out = st(sub(then))
            if rc != 0:
                fails.append({'case': {'history': name}, 'stage': 'history', 'detail': 'fresh configuration failed: ' + out})
                continue
            fresh = snapshot(build)
            diff = sorted(k for k in set(hist) | set(fresh) if hist.get(k) != fresh.get(k) and not k.endswith('cmd_line.txt'))
            if diff:
                fails.append({'case': {'history': name, 'first': first, 'then': then}, 'stage': 'history',
                              'detail': f'the build directory configured with {first} and reconfigured with {then} differs from a fresh one configured with {then} in {diff}'})
        finally:
            shutil.rmtree(d, ignore_errors=True)
    return len(chunk), nt, fails


def write_project(name, d):
    for rel, text in PROJECTS[name].items():
        p = os.path.join(d, rel)
        os.makedirs(os.path.dirname(p), exist_ok=True)
        open(p, 'w').write(text)


def snapshot(build):
    """{relative path: sha256} of the generated text the statement lists"""
    out = {}
    for root, _dirs, files in os.walk(build):
        for f in files:
            p = os.path.join(root, f)
            rel = os.path.relpath(p, build)
            if rel.startswith('meson-info' + os.sep + 'intro-') or rel == os.path.join('meson-private', 'cmd_line.txt') or (rel.startswith('meson-private' + os.sep) and rel.endswith('.pc')) or (os.sep not in rel and not f.endswith(('.dat', '.log', '.json')) and not f.startswith('.')):
                out[rel] = hashlib.sha256(open(p, 'rb').read()).hexdigest()
    return out


def stub_ninja(d):
    p = os.path.join(d, 'stub', 'ninja')
    os.makedirs(os.path.dirname(p), exist_ok=True)
    open(p, 'w').write('#!/bin/sh\necho 1.11.1\n')
    os.chmod(p, 0o755)
    return p


def setup(repo, src, build, seed, reverse_env, extra=()):
    env = dict(os.environ, PYTHONHASHSEED=str(seed), NINJA=stub_ninja(os.path.dirname(src)))
    # several environment variables that feed ONE option (c_args takes CFLAGS and CPPFLAGS, c_link_args takes LDFLAGS and CFLAGS): the
    # order of the environment must not show in the result
    env.update(CFLAGS='-DFROM_CFLAGS=1', CPPFLAGS='-DFROM_CPPFLAGS=2', LDFLAGS='-Wl,--as-needed', CXXFLAGS='-DFROM_CXXFLAGS=3')
    if reverse_env:
        env = dict(reversed(list(env.items())))
    r = subprocess.run([sys.executable, os.path.join(repo, 'meson.py'), 'setup', *extra, build, src], capture_output=True, text=True, env=env)
    return r.returncode, r.stdout[-300:] + r.stderr[-300:]


def _det_chunk(chunk):
    repo = os.environ.get('VERIF_REPO', '/repo')
    fails, nt = [], 0
    for name in chunk:
        d = tempfile.mkdtemp(prefix='c06det')
        try:
            src, build = os.path.join(d, 'src'), os.path.join(d, 'build')
            os.makedirs(src)
            write_project(name, src)
            ref = None
            for seed, rev in ((0, False), (1, False), (2, True), (3, False), (7, True), (11, False)):
                shutil.rmtree(build, ignore_errors=True)
                rc, out = setup(repo, src, build, seed, rev)
                nt += 1
                if rc != 0:
                    fails.append({'case': {'project': name, 'PYTHONHASHSEED': seed}, 'stage': 'determinism', 'detail': 'setup failed: ' + out})
                    break
                snap = snapshot(build)
                if ref is None:
                    ref = snap
                elif snap != ref:
                    diff = sorted(k for k in set(snap) | set(ref) if snap.get(k) != ref.get(k))
                    fails.append({'case': {'project': name, 'PYTHONHASHSEED': seed, 'reversed_environment': rev}, 'stage': 'determinism',
                                  'detail': f'generated text differs from the run with PYTHONHASHSEED=0 in {diff}'})
                    break
            else:
                # reconfigure with nothing changed: same text; unchanged configure_file outputs are not touched
                # build.ninja is rewritten by every configure run (only its CONTENT must stay identical, compared above); the
                # configure_file outputs must not be touched
                top = {f: os.stat(os.path.join(build, f)).st_mtime_ns for f in os.listdir(build) if os.path.isfile(os.path.join(build, f)) and f not in ('build.ninja', 'compile_commands.json') and not f.startswith('.')}
                import time, glob
                gen_files = sorted(glob.glob(os.path.join(build, 'meson-info', 'intro-*.json')) + glob.glob(os.path.join(build, 'meson-private', '*.pc')) + glob.glob(os.path.join(build, 'meson-uninstalled', '*.pc')))
                gen_before = {f: (os.stat(f).st_mtime_ns, open(f, 'rb').read()) for f in gen_files}
                time.sleep(0.05)
                rc, out = setup(repo, src, build, 5, False, ('--reconfigure',))
                if rc != 0:
                    fails.append({'case': {'project': name}, 'stage': 'reconfigure', 'detail': 'reconfigure failed: ' + out})
                else:
                    snap = snapshot(build)
                    if snap != ref:
                        diff = sorted(k for k in set(snap) | set(ref) if snap.get(k) != ref.get(k))
                        fails.append({'case': {'project': name}, 'stage': 'reconfigure', 'detail': f'a reconfigure with nothing changed altered {diff}'})
                    touched = [f for f in top if os.stat(os.path.join(build, f)).st_mtime_ns != top[f]]
                    if touched:
                        fails.append({'case': {'project': name}, 'stage': 'reconfigure', 'detail': f'a reconfigure with nothing changed touched unchanged outputs {sorted(touched)}'})
                    gtouched = [os.path.relpath(f, build) for f, (mt, data) in gen_before.items() if os.path.exists(f) and open(f, 'rb').read() == data and os.stat(f).st_mtime_ns != mt]
                    if gtouched:
                        kinds = sorted({'meson-info/intro-*.json' if 'intro-' in g else 'generated pkg-config files' for g in gtouched})
                        fails.append({'case': {'project': name}, 'stage': 'reconfigure-generated', 'detail': f'a reconfigure with nothing changed touched unchanged generated files: {kinds} ({len(gtouched)} files rewritten with identical content)'})
        finally:
            shutil.rmtree(d, ignore_errors=True)
    return len(chunk), nt, fails


def run(REG, tier, seed, jobs):
    names = list(PROJECTS)
    ev, nt, fails = pmap(_det_chunk, chunked(iter(names), 1), min(jobs, len(names)))
    hev, hnt, hfails = pmap(_hist_chunk, chunked(iter(list(HISTORIES)), 1), min(jobs, len(HISTORIES)))
    hpart = {'name': 'C06/bounded/history-independence', 'function': 'meson setup, then meson setup --reconfigure with changed options, against a fresh meson setup (ninja back end, stub ninja, real cc and pkg-config)',
             'bound': f'{len(HISTORIES)} histories of one C project with a pkg-config dependency, a library, a configure_file: ' + ', '.join(HISTORIES) + '; build.ninja, meson-info/intro-*.json, generated files compared byte for byte (cmd_line.txt excluded: it records the history by design)',
             'evaluations': hev, 'distinct_nontrivial': hnt, 'rule': 'every history', 'exhaustive': False, 'failures': hfails}
    return {'parts': [hpart, {'name': 'C06/bounded/whole-configure-runs-byte-identical', 'function': 'meson setup with the ninja back end and a stub ninja (fresh interpreters)',
                       'bound': f'{len(names)} generated projects (install data and subdirs with excludes; configuration data and configure_file; custom / run / alias targets with depends and env, tests depending on targets; tests, benchmarks and test setups with env; options, subproject, dependency variables) x 6 PYTHONHASHSEED values x environment in two orders (CFLAGS / CPPFLAGS / LDFLAGS / CXXFLAGS set: several variables feeding one option), then a reconfigure with nothing changed',
                       'evaluations': ev, 'distinct_nontrivial': nt, 'rule': 'every setup run', 'exhaustive': False, 'failures': fails}]}


CHECKS = {'C06/bounded/whole-configure-runs-byte-identical': (_det_chunk, lambda c: c['project']),
          'C06/bounded/history-independence': (_hist_chunk, lambda c: c['history'])}
