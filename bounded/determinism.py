"""C06 bounded stand-in (native): WHOLE configure runs of small generated projects through the real `meson setup`
with the ninja back end (a stub `ninja` that only answers --version is put in $NINJA: nothing is built) in fresh interpreters — under several PYTHONHASHSEED values and with the environment in two different
orders the generated text (build.ninja, meson-info/intro-*.json, configure_file outputs, cmd_line.txt) is byte-identical; a
reconfigure with nothing changed leaves it identical and does not touch unchanged configure_file outputs."""
import hashlib, json, os, shutil, subprocess, sys, tempfile
from bounded.util import chunked, pmap

PROJECTS = {
    'install': {
        'meson.build': """project('install')
install_subdir('sub', install_dir: 'share', exclude_files: ['a.txt', 'b.txt', 'c.txt', 'dd.txt'], exclude_directories: ['x', 'y', 'zz'])
install_data('d1.txt', 'd2.txt', 'd3.txt', install_dir: 'share/p', install_tag: 'runtime')
install_headers('h2.h', 'h1.h', subdir: 'p')
install_man('p.1', 'q.3')
install_emptydir('share/empty')
install_symlink('lnk', pointing_to: 'tgt', install_dir: 'share')
""",
        'd1.txt': '', 'd2.txt': '', 'd3.txt': '', 'h1.h': '', 'h2.h': '', 'p.1': '', 'q.3': '', 'sub/a.txt': '', 'sub/k.txt': '',
    },
    'configure': {
        'meson.build': """project('configure', version: '1.2.3')
cd = configuration_data()
foreach k : ['ZETA', 'alpha', 'Beta', 'beta', 'X1', 'x2', 'M', 'N', 'O']
  cd.set(k, k.to_lower())
endforeach
cd.set10('ON', true)
cd.set_quoted('Q', 'a b')
configure_file(output: 'config.h', configuration: cd)
configure_file(input: 'in.txt.in', output: 'out.txt', configuration: cd)
configure_file(output: 'dict.h', configuration: {'b': 1, 'a': 2, 'c': 'x y', 'A': true})
configure_file(input: 'in.txt.in', output: 'copy.txt', copy: true)
summary({'zeta': 1, 'alpha': true, 'mid': 'x'}, section: 'S')
""",
        'in.txt.in': 'v=@alpha@ @ZETA@ @M@\n#mesondefine ON\n',
    },
    'tests': {
        'meson.build': """project('tests')
p = find_program('python3')
test('t2', p, args: ['-c', 'pass'], env: {'K2': 'v', 'K1': 'w', 'K3': 'x'}, suite: ['s2', 's1'])
test('t1', p, args: ['-c', 'pass'], env: ['E2=1', 'E1=2'], is_parallel: false, priority: 3)
e = environment({'B': '1', 'A': '2', 'C': '3'})
e.prepend('PATH', '/x', '/y')
test('t3', p, env: e, timeout: 5)
benchmark('b1', p, args: ['-c', 'pass'])
add_test_setup('su', env: {'S2': '1', 'S1': '2'}, exe_wrapper: [p], timeout_multiplier: 2)
""",
    },
    'targets': {
        'meson.build': """project('targets')
p = find_program('python3')
g = custom_target('gen', output: ['g2.txt', 'g1.txt'], command: [p, '-c', 'pass'], install: true, install_dir: ['share', 'share'], install_tag: 'devel')
h = custom_target('hh', output: 'h.txt', command: [p, '-c', 'pass'], depends: g, env: {'B': '1', 'A': '2', 'C': '3'})
k = custom_target('kk', output: 'k.txt', command: [p, '-c', 'pass', '@INPUT@'], input: g, depend_files: ['meson.build'], build_by_default: true)
j = custom_target('jj', output: 'j.txt', command: [p, '-c', 'pass'], depends: [k, h, g], capture: true)
run_target('rt', command: [p, '-c', 'pass'], depends: [h, g, k], env: {'Z': '1', 'Y': '2'})
alias_target('al', h, g, k, j)
test('t2', p, args: ['-c', 'pass', g, h], env: {'K2': 'v', 'K1': 'w', 'K3': 'x'}, suite: ['s2', 's1'], depends: [g, h, k, j])
gen = generator(p, output: '@BASENAME@.out', arguments: ['-c', 'pass', '@INPUT@', '@OUTPUT@'])
""",
    },
    'options': {
        'meson.build': """project('options', default_options: ['o_b=true', 'o_a=zz', 'warning_level=2'])
subproject('sp', default_options: ['sp_y=2', 'sp_x=1'])
d = declare_dependency(variables: {'v2': 'b', 'v1': 'a', 'v3': 'c'})
meson.override_dependency('dd', d)
message(get_option('o_a'))
""",
        'meson.options': "option('o_c', type: 'combo', choices: ['z', 'y', 'x'], value: 'y')\noption('o_a', type: 'string', value: 'a')\noption('o_b', type: 'boolean', value: false)\noption('o_arr', type: 'array', choices: ['q', 'p', 'r'], value: ['r', 'p'])\noption('o_f', type: 'feature')\noption('o_i', type: 'integer', min: 0, max: 9, value: 4)\n",
        'subprojects/sp/meson.build': "project('sp')\n",
        'subprojects/sp/meson.options': "option('sp_y', type: 'string', value: 'y')\noption('sp_x', type: 'string', value: 'x')\n",
    },
}


def write_project(name, d):
    for rel, text in PROJECTS[name].items():
        p = os.path.join(d, rel)
        os.makedirs(os.path.dirname(p), exist_ok=True)
        open(p, 'w').write(text)


def snapshot(build):
    """{relative path: sha256} of the generated text the statement lists"""
    out = {}
    for root, _dirs, files in os.walk(build):
        for f in files:
            p = os.path.join(root, f)
            rel = os.path.relpath(p, build)
            if rel.startswith('meson-info' + os.sep + 'intro-') or rel == os.path.join('meson-private', 'cmd_line.txt') or (os.sep not in rel and not f.endswith(('.dat', '.log', '.json')) and not f.startswith('.')):
                out[rel] = hashlib.sha256(open(p, 'rb').read()).hexdigest()
    return out


def stub_ninja(d):
    p = os.path.join(d, 'stub', 'ninja')
    os.makedirs(os.path.dirname(p), exist_ok=True)
    open(p, 'w').write('#!/bin/sh\necho 1.11.1\n')
    os.chmod(p, 0o755)
    return p


def setup(repo, src, build, seed, reverse_env, extra=()):
    env = dict(os.environ, PYTHONHASHSEED=str(seed), NINJA=stub_ninja(os.path.dirname(src)))
    if reverse_env:
        env = dict(reversed(list(env.items())))
    r = subprocess.run([sys.executable, os.path.join(repo, 'meson.py'), 'setup', *extra, build, src], capture_output=True, text=True, env=env)
    return r.returncode, r.stdout[-300:] + r.stderr[-300:]


def _det_chunk(chunk):
    repo = os.environ.get('VERIF_REPO', '/repo')
    fails, nt = [], 0
    for name in chunk:
        d = tempfile.mkdtemp(prefix='c06det')
        try:
            src, build = os.path.join(d, 'src'), os.path.join(d, 'build')
            os.makedirs(src)
            write_project(name, src)
            ref = None
            for seed, rev in ((0, False), (1, False), (2, True), (3, False), (7, True), (11, False)):
                shutil.rmtree(build, ignore_errors=True)
                rc, out = setup(repo, src, build, seed, rev)
                nt += 1
                if rc != 0:
                    fails.append({'case': {'project': name, 'PYTHONHASHSEED': seed}, 'stage': 'determinism', 'detail': 'setup failed: ' + out})
                    break
                snap = snapshot(build)
                if ref is None:
                    ref = snap
                elif snap != ref:
                    diff = sorted(k for k in set(snap) | set(ref) if snap.get(k) != ref.get(k))
                    fails.append({'case': {'project': name, 'PYTHONHASHSEED': seed, 'reversed_environment': rev}, 'stage': 'determinism',
                                  'detail': f'generated text differs from the run with PYTHONHASHSEED=0 in {diff}'})
                    break
            else:
                # reconfigure with nothing changed: same text; unchanged configure_file outputs are not touched
                # build.ninja is rewritten by every configure run (only its CONTENT must stay identical, compared above); the
                # configure_file outputs must not be touched
                top = {f: os.stat(os.path.join(build, f)).st_mtime_ns for f in os.listdir(build) if os.path.isfile(os.path.join(build, f)) and f not in ('build.ninja', 'compile_commands.json') and not f.startswith('.')}
                import time
                time.sleep(0.05)
                rc, out = setup(repo, src, build, 5, False, ('--reconfigure',))
                if rc != 0:
                    fails.append({'case': {'project': name}, 'stage': 'reconfigure', 'detail': 'reconfigure failed: ' + out})
                else:
                    snap = snapshot(build)
                    if snap != ref:
                        diff = sorted(k for k in set(snap) | set(ref) if snap.get(k) != ref.get(k))
                        fails.append({'case': {'project': name}, 'stage': 'reconfigure', 'detail': f'a reconfigure with nothing changed altered {diff}'})
                    touched = [f for f in top if os.stat(os.path.join(build, f)).st_mtime_ns != top[f]]
                    if touched:
                        fails.append({'case': {'project': name}, 'stage': 'reconfigure', 'detail': f'a reconfigure with nothing changed touched unchanged outputs {sorted(touched)}'})
        finally:
            shutil.rmtree(d, ignore_errors=True)
    return len(chunk), nt, fails


def run(REG, tier, seed, jobs):
    names = list(PROJECTS)
    ev, nt, fails = pmap(_det_chunk, chunked(iter(names), 1), min(jobs, len(names)))
    return {'parts': [{'name': 'C06/bounded/whole-configure-runs-byte-identical', 'function': 'meson setup with the ninja back end and a stub ninja (fresh interpreters)',
                       'bound': f'{len(names)} generated projects (install data and subdirs with excludes; configuration data and configure_file; custom / run / alias targets with depends and env, tests depending on targets; tests, benchmarks and test setups with env; options, subproject, dependency variables) x 6 PYTHONHASHSEED values x environment in two orders, then a reconfigure with nothing changed',
                       'evaluations': ev, 'distinct_nontrivial': nt, 'rule': 'every setup run', 'exhaustive': False, 'failures': fails}]}


CHECKS = {'C06/bounded/whole-configure-runs-byte-identical': (_det_chunk, lambda c: c['project'])}
