"""C03 bounded stand-ins (native): quoting round trips against MODELS of the external consumers — ninja's $-evaluation,
POSIX sh word splitting (shlex.split, cross-checked against /bin/sh in the thorough tier) and libiberty buildargv for
gcc response files.  The consumers are programs outside /repo; these are models of them and are named as such."""
import itertools, random, shlex, subprocess
from bounded.util import strings, chunked, pmap


def ninja_eval(s):
    """model of ninja's evaluation of a variable value: $$ -> $, `$ ` -> space, $: -> :"""
    out, i = [], 0
    while i < len(s):
        if s[i] == '$' and i + 1 < len(s) and s[i + 1] in '$ :':
            out.append(s[i + 1])
            i += 2
        elif s[i] == '$':
            raise ValueError('dangling $')
        else:
            out.append(s[i])
            i += 1
    return ''.join(out)


def buildargv(s):
    """model of libiberty buildargv (gcc @rsp files): backslash ALWAYS escapes the next character, quotes group"""
    args, cur, i, q, have = [], [], 0, None, False
    while i < len(s):
        c = s[i]
        if c == '\\' and i + 1 < len(s):
            cur.append(s[i + 1])
            have = True
            i += 2
            continue
        if q:
            if c == q:
                q = None
            else:
                cur.append(c)
        elif c in '\'"':
            q = c
            have = True
        elif c in ' \t\n':
            if have:
                args.append(''.join(cur))
                cur, have = [], False
        else:
            cur.append(c)
            have = True
        i += 1
    if have:
        args.append(''.join(cur))
    return args


def _rt_chunk(chunk):
    from mesonbuild.backend import ninjabackend as nb
    fails, nt = [], 0
    for s in chunk:
        if '\n' in s:
            continue
        nt += any(c in s for c in ' $\'"\\;*#:')
        try:
            a = nb.NinjaCommandArg(s)           # Quoting.both
            q = nb.NinjaRule._quoter(a)
            back = shlex.split(ninja_eval(q))
            if back != [s]:
                fails.append({'case': {'arg': s}, 'stage': 'shell', 'detail': f'command line: quoted {q!r} evaluates (ninja model, sh model) to {back!r}'})
            q2 = nb.NinjaRule._quoter(a, nb.gcc_rsp_quote)
            back2 = buildargv(ninja_eval(q2))
            if back2 != [s]:
                fails.append({'case': {'arg': s}, 'stage': 'rsp', 'detail': f'response file: quoted {q2!r} evaluates (ninja model, buildargv model) to {back2!r}'})
            b = nb.ninja_quote(s, True)
            if ninja_eval(b) != s:
                fails.append({'case': {'arg': s}, 'stage': 'build-line', 'detail': f'build line: {b!r} evaluates to {ninja_eval(b)!r}'})
        except Exception as ex:
            fails.append({'case': {'arg': s}, 'stage': 'shell', 'detail': f'{type(ex).__name__}: {ex}'})
    return len(chunk), nt, fails


def cmd_split(s):
    """model of a cmd-style response-file reader (CommandLineToArgvW rules): 2n backslashes + quote -> n backslashes and
    the quote toggles quoting; 2n+1 backslashes + quote -> n backslashes and a literal quote; other backslashes literal"""
    out, cur, inq, i, started = [], '', False, 0, False
    while i < len(s):
        c = s[i]
        if c == '\\':
            j = i
            while j < len(s) and s[j] == '\\':
                j += 1
            nb_ = j - i
            if j < len(s) and s[j] == '"':
                cur += '\\' * (nb_ // 2)
                if nb_ % 2:
                    cur += '"'
                else:
                    inq = not inq
                started = True
                i = j + 1
            else:
                cur += '\\' * nb_
                started = True
                i = j
            continue
        if c == '"':
            inq = not inq
            started = True
        elif c in ' \t' and not inq:
            if started:
                out.append(cur)
            cur, started = '', False
        else:
            cur += c
            started = True
        i += 1
    if started:
        out.append(cur)
    return out


def _rspfile_chunk(chunk):
    """end to end through the real NinjaRule / NinjaBuildElement writers with a response file in use: the arguments of the
    build statement, as the reader of the response file (gcc-style or cmd-style) sees them, are the arguments given"""
    import io
    from mesonbuild.backend import ninjabackend as nb
    from mesonbuild.linkers.base import RSPFileSyntax
    fails, nt = [], 0
    old = nb.rsp_threshold
    nb.rsp_threshold = 0
    try:
        for style, args in chunk:
            if any('\n' in a for a in args):
                continue
            nt += 1
            st = getattr(RSPFileSyntax, style)
            rule = nb.NinjaRule('R', ['tool'], nb.NinjaCommandArg.list(['$ARGS', '$in'], nb.Quoting.none), 'desc', rspable=True, rspfile_quote_style=st)
            el = nb.NinjaBuildElement(set(), 'out.o', 'R', 'in.c')
            el.add_item('ARGS', list(args))
            el.rule = rule
            rule.refcount += 0
            rule.rsprefcount += 1
            buf = io.StringIO()
            try:
                el.write(buf)
            except Exception as ex:
                fails.append({'case': {'style': style, 'args': list(args)}, 'stage': 'rspfile', 'detail': f'{type(ex).__name__}: {ex}'})
                continue
            line = [l for l in buf.getvalue().splitlines() if l.startswith(' ARGS = ')]
            if len(line) != 1 or '_RSP' not in buf.getvalue():
                fails.append({'case': {'style': style, 'args': list(args)}, 'stage': 'rspfile', 'detail': 'the harness did not get a response-file build statement: ' + buf.getvalue()[:120]})
                continue
            text = ninja_eval(line[0][len(' ARGS = '):])
            back = buildargv(text) if style == 'GCC' else cmd_split(text)
            if back != list(args):
                fails.append({'case': {'style': style, 'args': list(args)}, 'stage': 'rspfile', 'detail': f'{style} response file content {text!r} is read as {back!r}'})
    finally:
        nb.rsp_threshold = old
    return len(chunk), nt, fails


def _list_chunk(chunk):
    """several arguments joined into one command line arrive as the same list"""
    from mesonbuild.backend import ninjabackend as nb
    fails, nt = [], 0
    for args in chunk:
        if any('\n' in a for a in args):
            continue
        nt += 1
        line = ' '.join(nb.NinjaRule._quoter(nb.NinjaCommandArg(a)) for a in args)
        back = shlex.split(ninja_eval(line))
        if back != list(args):
            fails.append({'case': {'args': list(args)}, 'stage': 'argv', 'detail': f'{line!r} arrives as {back!r}'})
        esc = nb.NinjaBackend.escape_extra_args(list(args)) if hasattr(nb.NinjaBackend, 'escape_extra_args') else None
        if esc is not None:
            exp = [a.replace('\\', '\\\\') if a.startswith(('-D', '/D')) else a for a in args]
            if esc != exp:
                fails.append({'case': {'args': list(args)}, 'stage': 'escape_extra_args', 'detail': f'{esc!r}, expected {exp!r}'})
    return len(chunk), nt, fails


def _sh_chunk(chunk):
    """the sh model against the real /bin/sh"""
    fails = []
    for s in chunk:
        q = shlex.quote(s)
        r = subprocess.run(['/bin/sh', '-c', f'printf "%s" {q}'], capture_output=True)
        if r.stdout.decode('utf-8', 'surrogateescape') != s:
            fails.append({'case': {'arg': s}, 'stage': 'sh-model', 'detail': f'/bin/sh yields {r.stdout!r}'})
    return len(chunk), len(chunk), fails


def run(REG, tier, seed, jobs):
    parts = []
    alpha = ['a', ' ', "'", '"', '$', '#', ';', '*', '\\', ':', 'é', '\t', '-D']
    n = 4 if tier == 'quick' else 5
    ev, nt, fails = pmap(_rt_chunk, chunked(strings(alpha, n), 10000), jobs)
    parts.append({'name': 'C03/bounded/quote-roundtrip-against-consumer-models', 'function': 'NinjaRule._quoter / ninja_quote / gcc_rsp_quote',
                  'bound': f'all argument strings of <= {n} symbols over {alpha!r} (newline excluded: it is an error by contract)', 'evaluations': ev, 'distinct_nontrivial': nt,
                  'rule': 'non-trivial: contains a shell or ninja metacharacter', 'exhaustive': True, 'failures': fails})
    words = ['a b', "it's", '$x', '-DX="a\\b"', '/DY=\\', 'plain', '', '#', 'a;b', '*', '&&']
    lists = list(itertools.chain.from_iterable(itertools.product(words, repeat=k) for k in range(1, 4)))
    ev, nt, fails = pmap(_list_chunk, chunked(iter(lists), 200), jobs)
    parts.append({'name': 'C03/bounded/argv-count-and-order', 'function': 'NinjaRule._quoter (joined command line) / Backend.escape_extra_args', 'bound': f'all argument lists of <= 3 arguments over {words!r}',
                  'evaluations': ev, 'distinct_nontrivial': nt, 'rule': 'every list is distinct', 'exhaustive': True, 'failures': fails})
    rwords = ['a b', "it's", 'x"y', 'tail\\', '-DMSG=hello world', 'plain', 'a\\b', '#', 'é', 'q\\"']
    rl = [(st, t) for st in ('GCC', 'MSVC', 'TASKING') for k in (1, 2) for t in itertools.product(rwords, repeat=k)]
    ev, nt, fails = pmap(_rspfile_chunk, chunked(iter(rl), 60), jobs)
    parts.append({'name': 'C03/bounded/response-file-end-to-end', 'function': 'NinjaRule / NinjaBuildElement.write with a response file', 'bound': f'{len(rl)} cases: GCC / MSVC / TASKING response-file syntax x all argument lists of <= 2 arguments over {rwords!r}, read back by a buildargv model resp. a CommandLineToArgvW model',
                  'evaluations': ev, 'distinct_nontrivial': nt, 'rule': 'every case', 'exhaustive': True, 'failures': fails})
    if tier != 'quick':
        rnd = random.Random(seed)
        sample = [s for s in strings(alpha[:10], 3)]
        ev, nt, fails = pmap(_sh_chunk, chunked(iter(sample), 50), jobs)
        parts.append({'name': 'C03/bounded/sh-model-vs-bin-sh', 'function': 'model check: shlex vs /bin/sh', 'bound': f'{len(sample)} strings through the real /bin/sh', 'evaluations': ev,
                      'distinct_nontrivial': nt, 'rule': 'every string', 'exhaustive': True, 'failures': fails})
    return {'parts': parts}


CHECKS = {
    'C03/bounded/quote-roundtrip-against-consumer-models': (_rt_chunk, lambda c: c['arg']),
    'C03/bounded/response-file-end-to-end': (_rspfile_chunk, lambda c: (c['style'], tuple(c['args']))),
    'C03/bounded/argv-count-and-order': (_list_chunk, lambda c: tuple(c['args'])),
}
