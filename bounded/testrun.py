"""C12 bounded stand-in (native), end to end: generated test sets (parallel / serial, priorities, durations, exit codes,
should_fail, timeouts, suites) are configured by the real `meson setup` and run by the real `meson test --no-rebuild` with
several --num-processes / --repeat / --slice / --suite / --maxfail selections.  Every test program records when it started
and ended; afterwards the schedule (exactly once per repetition, serial tests alone, never more than the requested jobs),
the classification of every run, the printed totals, testlog.json and the exit status are compared with the statement."""
import json, os, random, re, shutil, subprocess, sys, tempfile, time
from bounded.util import chunked, pmap

PROG = """import os, signal, sys, time
tid, dur, code, logdir = sys.argv[1], float(sys.argv[2]), int(sys.argv[3]), sys.argv[4]
t0 = time.monotonic()
f = open(os.path.join(logdir, '%s.%d.%f' % (tid, os.getpid(), t0)), 'w')
f.write('%f\\n' % t0)
f.flush()


def term(sig, frm):
    f.write('%f\\n' % time.monotonic())
    f.flush()
    os._exit(code if tid.endswith('z') else 143)       # a test named ...z exits with its normal status when terminated


signal.signal(signal.SIGTERM, term)
time.sleep(dur)
f.write('%f\\n' % time.monotonic())
f.flush()
sys.exit(code)
"""
BAD = {'FAIL', 'ERROR', 'TIMEOUT', 'UNEXPECTEDPASS', 'INTERRUPT'}


def stub_ninja(d):
    p = os.path.join(d, 'stub', 'ninja')
    os.makedirs(os.path.dirname(p), exist_ok=True)
    open(p, 'w').write('#!/bin/sh\necho 1.11.1\n')
    os.chmod(p, 0o755)
    return p


def gen_tests(rnd):
    if rnd.random() < 0.3:
        # an early LONG parallel test, more short parallel ones than there are job slots, then a non-parallel test: the long
        # one is still running when everything queued after it has finished
        k = rnd.randint(3, 5)
        mk = lambda name, dur, par: {'name': name, 'dur': dur, 'code': 0, 'parallel': par, 'priority': 0, 'should_fail': False, 'timeout': 30, 'suite': 'a'}
        return [mk('t0long', rnd.choice([0.6, 0.8]), True)] + [mk(f't{i + 1}', rnd.choice([0.02, 0.05]), True) for i in range(k)] + [mk(f't{k + 1}serial', 0.1, False), mk(f't{k + 2}', 0.05, True)]
    n = rnd.randint(3, 8)
    tests = []
    for i in range(n):
        code = rnd.choice([0, 0, 0, 1, 77, 99, 3])
        slow = rnd.random() < 0.12
        tests.append({'name': f't{i}' + ('z' if slow and rnd.random() < 0.5 else ''), 'dur': 1.5 if slow else rnd.choice([0.02, 0.05, 0.1, 0.15]), 'code': code, 'parallel': rnd.random() < 0.65, 'priority': rnd.choice([0, 0, 5, -3]),
                      'should_fail': rnd.random() < 0.25, 'timeout': 3 if slow else 30, 'suite': rnd.choice(['a', 'b', 'ab'])})
    return tests


def classify(t, timed_out):
    if timed_out:
        return 'TIMEOUT'
    c = t['code']
    if c == 77:
        return 'SKIP'
    if c == 99:
        return 'ERROR'
    if t['should_fail']:
        return 'EXPECTEDFAIL' if c != 0 else 'UNEXPECTEDPASS'
    return 'OK' if c == 0 else 'FAIL'


def _run_chunk(chunk):
    repo = os.environ.get('VERIF_REPO', '/repo')
    fails, nt = [], 0
    for seed in chunk:
        rnd = random.Random(seed)
        tests = gen_tests(rnd)
        d = tempfile.mkdtemp(prefix='c12run')
        try:
            src, build, logdir = os.path.join(d, 'src'), os.path.join(d, 'b'), os.path.join(d, 'log')
            os.makedirs(src)
            open(os.path.join(src, 'prog.py'), 'w').write(PROG)
            lines = ["project('tests')", "py = find_program('python3')", "prog = files('prog.py')"]
            for t in tests:
                lines.append(f"test('{t['name']}', py, args: [prog, '{t['name']}', '{t['dur']}', '{t['code']}', '{logdir}'], is_parallel: {'true' if t['parallel'] else 'false'}, "
                             f"priority: {t['priority']}, should_fail: {'true' if t['should_fail'] else 'false'}, timeout: {t['timeout']}, suite: {list(t['suite'])!r})")
            open(os.path.join(src, 'meson.build'), 'w').write('\n'.join(lines) + '\n')
            env = dict(os.environ, NINJA=stub_ninja(d))
            r = subprocess.run([sys.executable, os.path.join(repo, 'meson.py'), 'setup', build, src], capture_output=True, text=True, env=env)
            if r.returncode != 0:
                fails.append({'case': {'generator_seed': seed}, 'stage': 'testrun', 'detail': 'setup failed: ' + (r.stdout + r.stderr)[-300:]})
                continue
            invocations = [(['--num-processes', str(rnd.choice([1, 2, 3, 4]))], 'plain'),
                           (['--num-processes', str(rnd.choice([2, 3])), '--repeat', '2'], 'repeat'),
                           (['--num-processes', '2', '--suite', 'a'], 'suite'),
                           # a test in both an included and an excluded suite is excluded
                           (['--num-processes', '2', '--suite', 'a', '--no-suite', 'b'], 'suite-nosuite'), (['--num-processes', '2', '--no-suite', 'a'], 'nosuite'),
                           (['--num-processes', '3', '--slice', '1/2'], 'slice1'), (['--num-processes', '3', '--slice', '2/2'], 'slice2'),
                           # test-name arguments whose patterns overlap (a name, a glob, the project-qualified spelling): still once each
                           (['--num-processes', '2', tests[0]['name'], 't*', 'tests:' + tests[-1]['name']], 'names')]
            sliced = {}
            for extra, kind in invocations:
                shutil.rmtree(logdir, ignore_errors=True)
                os.makedirs(logdir)
                for stale in ('testlog.json', 'testlog.txt'):         # an invocation that selects no test writes no log: never read an old one
                    try:
                        os.unlink(os.path.join(build, 'meson-logs', stale))
                    except FileNotFoundError:
                        pass
                pr = subprocess.run([sys.executable, os.path.join(repo, 'meson.py'), 'test', '--no-rebuild', '-C', build, '-t', '0.3', *extra], capture_output=True, text=True, env=env, timeout=300)
                nt += 1
                case = {'generator_seed': seed, 'arguments': extra, 'tests': [[t['name'], t['code'], t['parallel'], t['should_fail'], t['dur'], t['suite']] for t in tests]}
                jobs = int(extra[1])
                reps = 2 if kind == 'repeat' else 1
                selected = [t for t in tests if (kind not in ('suite', 'suite-nosuite') or 'a' in t['suite']) and (kind != 'suite-nosuite' or 'b' not in t['suite']) and (kind != 'nosuite' or 'a' not in t['suite'])]
                runs = {}
                for f in os.listdir(logdir):
                    tid = f.split('.')[0]
                    ls = open(os.path.join(logdir, f)).read().split()
                    st = float(ls[0])
                    en = float(ls[1]) if len(ls) > 1 else None
                    runs.setdefault(tid, []).append((st, en))
                if kind.startswith('slice'):
                    sliced[kind] = sorted(runs)
                    sel_names = set(runs)
                else:
                    sel_names = {t['name'] for t in selected}
                    for t in selected:
                        k = len(runs.get(t['name'], []))
                        if k != reps and not (kind == 'repeat' and k < reps):
                            fails.append({'case': case, 'stage': 'testrun', 'detail': f"test {t['name']} was started {k} time(s), expected {reps}"})
                    for tid in runs:
                        if tid not in sel_names:
                            fails.append({'case': case, 'stage': 'testrun', 'detail': f'test {tid} ran although it is not selected'})
                # schedule
                iv = [(st, en if en is not None else st + 10, tid) for tid, rs in runs.items() for st, en in rs]
                byname = {t['name']: t for t in tests}
                for a in iv:
                    if not byname[a[2]]['parallel']:
                        for b in iv:
                            if b is not a and b[0] < a[1] and a[0] < b[1]:
                                fails.append({'case': case, 'stage': 'testrun', 'detail': f'non-parallel test {a[2]} ran while {b[2]} was running'})
                                break
                events = sorted([(st, 1) for st, en, _ in iv] + [(en, -1) for st, en, _ in iv])
                cur = mx = 0
                for _t, dlt in events:
                    cur += dlt
                    mx = max(mx, cur)
                if mx > jobs:
                    fails.append({'case': case, 'stage': 'testrun', 'detail': f'{mx} tests were running at the same time with --num-processes {jobs}'})
                # classification, log, totals, exit status
                logp = os.path.join(build, 'meson-logs', 'testlog.json')
                recs = [json.loads(l) for l in open(logp)] if os.path.exists(logp) else []
                exp = {}
                for t in tests:
                    if t['name'] in sel_names:
                        exp[t['name']] = classify(t, t['dur'] > t['timeout'] * 0.3)
                got = {}
                for rec in recs:
                    got.setdefault(rec['name'].split(' / ')[-1].split(':')[-1].strip(), []).append(rec['result'])
                for name, res in exp.items():
                    for g in got.get(name, []):
                        if g != res:
                            fails.append({'case': case, 'stage': 'testrun', 'detail': f'test {name} (exit {byname[name]["code"]}, should_fail={byname[name]["should_fail"]}) is logged as {g}, the rule gives {res}'})
                    if kind != 'repeat' and len(got.get(name, [])) != 1:
                        fails.append({'case': case, 'stage': 'testrun', 'detail': f'test {name} has {len(got.get(name, []))} records in testlog.json'})
                tally = {}
                for rs in got.values():
                    for g in rs:
                        tally[g] = tally.get(g, 0) + 1
                labels = {'Ok': 'OK', 'Expected Fail': 'EXPECTEDFAIL', 'Fail': 'FAIL', 'Unexpected Pass': 'UNEXPECTEDPASS', 'Skipped': 'SKIP', 'Timeout': 'TIMEOUT'}
                for lab, key in labels.items():
                    m = re.search(r'^' + lab + r':\s+(\d+)', pr.stdout, re.M)
                    printed = int(m.group(1)) if m else 0
                    want = tally.get(key, 0) + (tally.get('ERROR', 0) if key == 'FAIL' else 0)
                    if printed != want:
                        fails.append({'case': case, 'stage': 'testrun', 'detail': f'printed total "{lab}: {printed}" but testlog.json holds {want} such results ({tally})'})
                bad = any(g in BAD for rs in got.values() for g in rs)
                if (pr.returncode != 0) != bad:
                    fails.append({'case': case, 'stage': 'testrun', 'detail': f'exit status {pr.returncode} although {"some" if bad else "no"} test failed / errored / timed out / unexpectedly passed ({tally})'})
            if 'slice1' in sliced and 'slice2' in sliced:
                a, b = set(sliced['slice1']), set(sliced['slice2'])
                if a & b or (a | b) != {t['name'] for t in tests}:
                    fails.append({'case': {'generator_seed': seed}, 'stage': 'testrun', 'detail': f'--slice 1/2 ran {sorted(a)}, --slice 2/2 ran {sorted(b)}: not a partition of {sorted(t["name"] for t in tests)}'})
        finally:
            shutil.rmtree(d, ignore_errors=True)
    return len(chunk), nt, fails


def run(REG, tier, seed, jobs):
    n = 12 if tier == 'quick' else 150
    seeds = [seed * 15485863 + i for i in range(n)]
    # the schedule is timing sensitive: at most 4 projects at a time, so that the machine is not oversubscribed
    ev, nt, fails = pmap(_run_chunk, chunked(iter(seeds), 1), min(jobs, 4))
    # a failure must reproduce: the layer observes real processes by wall-clock time while the deductive workers and the other
    # bounded parts keep all cores busy (a python interpreter that needs longer than the test's timeout to start is killed before
    # it has recorded its start: "started 0 times" — observed on the unchanged tree, one run in two, when the machine was loaded).
    # Every test set with a failure is run again on its own, after the pool has drained; only what fails again is reported.
    if fails:
        again = []
        for sd in sorted({f['case']['generator_seed'] for f in fails}):
            again.extend(_run_chunk([sd])[2])
        fails = again
    return {'parts': [{'name': 'C12/bounded/real-meson-test-runs', 'function': 'meson test --no-rebuild (real scheduler, subprocesses, loggers)',
                       'bound': f'{n} generated test sets of 3-8 tests (three in ten of the shape: an early long parallel test, more short parallel tests than job slots, then a non-parallel one; parallel/serial, priorities, durations 20 ms - 1.5 s (the slow ones against a timeout of 0.9 s: long enough for an interpreter to start on a busy machine), exit 0/1/3/77/99, should_fail, a timeout, some of them exiting with their normal status when terminated) x 8 invocations (overlapping test-name arguments, --suite with --no-suite on tests that belong to two suites, --num-processes 1-4, --repeat 2, --suite, --slice 1/2 and 2/2)',
                       'evaluations': ev, 'distinct_nontrivial': nt, 'rule': 'every invocation', 'exhaustive': False, 'failures': fails}]}


CHECKS = {'C12/bounded/real-meson-test-runs': (_run_chunk, lambda c: c['generator_seed'])}
