"""C02 bounded stand-ins (native): lexer invariants (tiling, line/column bookkeeping, located errors) on all short
texts; parse -> full-fidelity print round trip, "only ParseException escapes" and exact node extents on all short
token strings and on every build file shipped in the repository.  Labelled bounded; never counted as proved."""
import glob, itertools, os, random
from bounded.util import strings, chunked, pmap


def true_pos(code, off):
    """(line, column) of byte offset off, counting every newline"""
    return 1 + code.count('\n', 0, off), off - (code.rfind('\n', 0, off) + 1)


def _lex_chunk(chunk):
    from mesonbuild.mparser import Lexer, ParseException
    fails, nt = [], 0
    for code in chunk:
        toks = []
        try:
            for t in Lexer(code).lex('f'):
                toks.append(t)
            err = None
        except ParseException as e:
            err = e
        except Exception as e:
            fails.append({'case': {'text': code}, 'stage': 'lexer', 'detail': f'internal error escapes: {type(e).__name__}: {e}'})
            continue
        pos = 0
        bad = None
        for t in toks:
            if t.bytespan[0] != pos or t.bytespan[1] <= t.bytespan[0] or t.bytespan[1] > len(code):
                bad = f'token spans do not tile the text at offset {pos}: {t.bytespan}'
                break
            if (t.lineno, t.colno) != true_pos(code, t.bytespan[0]):
                bad = f'token {t.tid!r} at offset {t.bytespan[0]} recorded at line {t.lineno} column {t.colno}, true position {true_pos(code, t.bytespan[0])}'
                break
            pos = t.bytespan[1]
        if bad is None and err is None and pos != len(code):
            bad = 'accepted text not covered by the tokens'
        if bad is None and err is not None:
            if not (1 <= err.lineno <= code.count('\n') + 1 and 0 <= err.colno <= len(code)):
                bad = f'error located outside the text: line {err.lineno} column {err.colno}'
        nt += err is None and len(toks) >= 2
        if bad:
            fails.append({'case': {'text': code}, 'stage': 'lexer', 'detail': bad})
    return len(chunk), nt, fails


def check_tree(code, root):
    """extents of every function call and array literal delimit exactly its source text"""
    from mesonbuild.ast import AstVisitor
    from mesonbuild import mparser
    lines = code.split('\n')

    def off(line, col):
        return sum(len(l) + 1 for l in lines[:line - 1]) + col
    problems = []

    class V(AstVisitor):
        def visit_FunctionNode(self, node):
            self._chk(node, '(', ')')
            super().visit_FunctionNode(node)

        def visit_ArrayNode(self, node):
            self._chk(node, '[', ']')
            super().visit_ArrayNode(node)

        def _chk(self, node, op, cl):
            a, b = off(node.lineno, node.colno), off(node.end_lineno, node.end_colno)
            text = code[a:b]
            if not (0 <= a < b <= len(code)) or not text.endswith(cl) or (op == '[' and not text.startswith('[')) or text.count(op) < 1:
                problems.append(f'{type(node).__name__} extent ({node.lineno},{node.colno})-({node.end_lineno},{node.end_colno}) selects {text!r}')
    root.accept(V())
    return problems


def _parse_chunk(chunk):
    from mesonbuild.mparser import Parser, ParseException
    from mesonbuild.ast.printer import RawPrinter
    fails, nt = [], 0
    for code in chunk:
        try:
            tree = Parser(code, 'f').parse()
        except ParseException as e:
            if not (1 <= e.lineno <= code.count('\n') + 2):
                fails.append({'case': {'text': code}, 'stage': 'parse', 'detail': f'syntax error located outside the text: line {e.lineno}'})
            continue
        except Exception as e:
            fails.append({'case': {'text': code}, 'stage': 'parse', 'detail': f'internal error escapes: {type(e).__name__}: {e}'})
            continue
        nt += 1
        try:
            p = RawPrinter()
            tree.accept(p)
            out = p.result
        except Exception as e:
            fails.append({'case': {'text': code}, 'stage': 'print', 'detail': f'printing the accepted tree raised {type(e).__name__}: {e}'})
            continue
        if out != code:
            # a positional argument after a keyword argument is accepted by the parser (the interpreter rejects it later), but the
            # tree does not keep the relative order of the two kinds: tagged, because it is a recorded finding
            from mesonbuild.ast import AstVisitor
            flag = []

            class OV(AstVisitor):
                def visit_ArgumentNode(self, node):
                    if node.incorrect_order():
                        flag.append(1)
                    super().visit_ArgumentNode(node)
            tree.accept(OV())
            fails.append({'case': {'text': code}, 'stage': 'roundtrip-kwarg-before-positional' if flag else 'roundtrip', 'detail': f'accepted text prints back as {out!r}'})
            continue
        for pr in check_tree(code, tree)[:1]:
            fails.append({'case': {'text': code}, 'stage': 'extent', 'detail': pr})
    return len(chunk), nt, fails


TOKENS = ['a', 'b', '1', "'s'", "'''m\nn'''", "f'''p\nq@a@'''", "f'x'", ' ', '\n', '#c', '\\\n', '(', ')', '[', ']', '{', '}', ',', ':', '.', '=', '+=', '==', '!=', '<', '+', '-', '*',
          '/', '%', '?', 'not', 'and', 'or', 'in', 'if', 'endif', 'foreach', 'endforeach', 'true', "'a\nb'", 'else', 'elif', 'continue', '"']


def run(REG, tier, seed, jobs):
    parts = []
    rnd = random.Random(seed)
    alpha = ['a', '1', "'", '\n', ' ', '\\', '#', '(', ')', '=', 'f', '"', '\t', '[', ',', '+']
    n = 4 if tier == 'quick' else 5
    ev, nt, fails = pmap(_lex_chunk, chunked(strings(alpha, n), 20000), jobs)
    parts.append({'name': 'C02/bounded/lexer-tiling-and-positions', 'function': 'Lexer.lex', 'bound': f'all texts of <= {n} symbols over {alpha!r}',
                  'evaluations': ev, 'distinct_nontrivial': nt, 'rule': 'non-trivial: accepted with at least two tokens', 'exhaustive': True, 'failures': fails})
    lits = ['0', '00', '007', '01', '09', '0644', '010', '0x1F', '0X1f', '0xg', '0x', '0b101', '0B1', '0b2', '0b', '0o17', '0O7', '0o8', '0o', '1_000', '12ab', '1.5', '.5', '1e3', '-0', '0-', '10', '9', '0a',
            "'a'", "'a\\'", "'\\x41'", "'\\N{DIGIT ONE}'", "'\\N{foo}'", "'\\N{'", "'\\U00110000'", "'\\U0010FFFF'", "'\\uD800'", "'\\u12'", "'\\x4'", "'\\xZZ'", "'\\400'", "'\\101'", "'\\8'", "'''a''''", "''''a'''", "f'@0@'", "f'@a'", "'@a@'", "'a' 'b'", "'a''b'", 'true', 'false', 'True', 'not', 'in',
            # characters of every width of the text encoding inside and around escape sequences (Latin-1, BMP, astral)
            "'\\N{\u2192}'", "'\\N{OHM SIGN \u03a9}'", "'\\N{caf\u00e9}'", "'\u2192\\n'", "'\\x41\u03a9'", "'\U0001f600\\t'", "'\\N{\U0001f600}'", "'\u00e9\\u00e9'", "f'\\N{\u2192}@a@'", "'''\\N{\u2192}'''",
            "'\\\u2192'", "'\\u\u2192'", "'\\x\u00e9'"]
    ctx = ['x = {}', 'f({})', '[{}, {}]', "{{'k': {}}}", 'if v == {}\nendif', 'x = {} + {}', 'f(k: {})', 'x = a[{}]', 'x = {}.m()']
    ltexts = [c.replace('{}', l).replace('{{', '{').replace('}}', '}') + '\n' for c in ctx for l in lits]
    # extreme sizes: integer literals beyond Python's conversion limit (4300 digits), every base; nesting beyond the interpreter's recursion limit
    ltexts += ['x = ' + '9' * 5000 + '\n', 'x = 0x' + 'f' * 6000 + '\n', 'f(' + '1' * 4301 + ')\n', 'x = 0b' + '1' * 20000 + '\n', 'x = 0o' + '7' * 6000 + '\n', 'x = ' + '7' * 4300 + '\n',
               'x = ' + '[' * 100 + ']' * 100 + '\n', 'x = ' + '(' * 200 + '1' + ')' * 200 + '\n', 'x = ' + '[' * 3000 + ']' * 3000 + '\n', 'x = ' + 'f(' * 400 + ')' * 400 + '\n',
               'x = ' + '-' * 2000 + '1\n', 'x = ' + 'not ' * 1500 + 'true\n', 'x = ' + '{\'k\': ' * 300 + '1' + '}' * 300 + '\n', 'x = a' + '[0]' * 50 + '\n', 'x = ' + 'a ? ' * 2 + 'b : c\n',
               'if true\n' * 300 + 'endif\n' * 300, 'x = a' + '.m()' * 600 + '\n', 'x = 1' + ' + 1' * 3000 + '\n']
    ev, nt, fails = pmap(_parse_chunk, chunked(iter(ltexts), 50), jobs)
    parts.append({'name': 'C02/bounded/literal-forms', 'function': 'Parser.parse / RawPrinter', 'bound': f'{len(ltexts)} texts: {len(lits)} number / string / keyword literal spellings (leading zeros, every base prefix with and without digits, near misses, escapes, adjacent strings) in {len(ctx)} contexts, and 18 texts of extreme size (integer literals of 4300-20000 digits in every base, nesting / chains of 50-3000 levels of every recursive construct); in these contexts: accepted and printed back byte for byte, or rejected with a located syntax error — nothing else escapes',
                  'evaluations': ev, 'distinct_nontrivial': nt, 'rule': 'non-trivial: accepted', 'exhaustive': True, 'failures': fails})
    k = 3 if tier == 'quick' else 4
    gen = (''.join(t) for j in range(k + 1) for t in itertools.product(TOKENS, repeat=j))
    extra = (''.join(rnd.choice(TOKENS) for _ in range(rnd.randint(4, 12))) for _ in range(40000 if tier == 'quick' else 400000))
    ev, nt, fails = pmap(_parse_chunk, chunked(itertools.chain(gen, extra), 5000), jobs)
    parts.append({'name': 'C02/bounded/parse-print-roundtrip-and-extents', 'function': 'Parser.parse / RawPrinter', 'bound': f'all strings of <= {k} tokens over a {len(TOKENS)}-token alphabet, plus random token soups of 4..12 tokens',
                  'evaluations': ev, 'distinct_nontrivial': nt, 'rule': 'non-trivial: accepted by the parser', 'exhaustive': False, 'failures': fails})
    from bounded import exprgen
    rtexts = []
    for _ in range(4000 if tier == 'quick' else 60000):
        t_, _v = exprgen.expression(rnd, 4)
        triv = rnd.choice([lambda: ' ', lambda: rnd.choice(['', ' ', '  ']), lambda: rnd.choice(['', ' ', ' \\\n ', '\t'])])
        body = exprgen.show(t_, triv)
        form = rnd.randrange(4)
        if form == 0:
            rtexts.append('x = ' + body + rnd.choice(['', '\n', ' # c', '\n\n']))
        elif form == 1:
            rtexts.append('f(' + rnd.choice(['', '\n  ', ' # c\n ']) + body + rnd.choice(['', ',', ',\n', ' # d\n']) + ')\n')
        elif form == 2:
            rtexts.append('if ' + body + '\n  y = [' + body + ', ' + body + ']\nendif' + rnd.choice(['', '\n']))
        else:
            rtexts.append('a = {' + "'k' : " + body + rnd.choice(['', ', ']) + '}\nb += ' + body + '\n')
    ev, nt, fails = pmap(_parse_chunk, chunked(iter(rtexts), 500), jobs)
    if nt < len(rtexts) * 0.6:
        fails = fails + [{'case': {'text': ''}, 'stage': 'harness', 'detail': f'only {nt} of {len(rtexts)} generated expression texts were accepted'}]
    parts.append({'name': 'C02/bounded/random-expression-texts-roundtrip', 'function': 'Parser.parse / RawPrinter', 'bound': f'{len(rtexts)} texts: random expressions of depth <= 4 printed with minimal parentheses and random trivia (blanks, tabs, continuations) inside assignments, calls with comments and newlines, if blocks, dict literals',
                  'evaluations': ev, 'distinct_nontrivial': nt, 'rule': 'non-trivial: accepted by the parser', 'exhaustive': False, 'failures': fails})
    from bounded.parser_struct import structured, TEMPLATES, ENDS
    progs = list(structured(rnd, 300 if tier == 'quick' else 5000))
    ev, nt, fails = pmap(_parse_chunk, chunked(iter(progs), 2000), jobs)
    if nt < len(progs) // 2:
        fails = fails + [{'case': {'text': ''}, 'stage': 'harness', 'detail': f'only {nt} of {len(progs)} structured programs were accepted: the generator no longer exercises the parser'}]
    parts.append({'name': 'C02/bounded/structured-programs-roundtrip', 'function': 'Parser.parse / RawPrinter', 'bound': f'{len(progs)} programs: {len(TEMPLATES)} statement/block templates x every kind of trivia (blank, tab, continuation, comment, blank line, nothing) at each token boundary x {len(ENDS)} text endings (with and without final newline), random combinations, and all pairs of 15 templates',
                  'evaluations': ev, 'distinct_nontrivial': nt, 'rule': 'non-trivial: accepted by the parser', 'exhaustive': False, 'failures': fails})
    gen = (''.join(t) for j in range(k + 1) for t in itertools.product(TOKENS, repeat=j))
    ev, nt, fails = pmap(_lex_chunk, chunked(gen, 5000), jobs)
    parts.append({'name': 'C02/bounded/lexer-positions-on-token-strings', 'function': 'Lexer.lex', 'bound': f'all strings of <= {k} tokens over the {len(TOKENS)}-token alphabet (multi-line strings and f-strings included)',
                  'evaluations': ev, 'distinct_nontrivial': nt, 'rule': 'non-trivial: accepted with at least two tokens', 'exhaustive': True, 'failures': fails})
    repo = os.environ.get('VERIF_REPO', '/repo')
    files = sorted(glob.glob(os.path.join(repo, 'test cases', '**', 'meson.build'), recursive=True))
    if tier == 'quick':
        files = files[::4]
    texts = []
    for f in files:
        try:
            texts.append(open(f, encoding='utf-8').read())
        except Exception:
            pass
    ev, nt, fails = pmap(_parse_chunk, chunked(iter(texts), 50), jobs)
    parts.append({'name': 'C02/bounded/corpus-build-files', 'function': 'Parser.parse / RawPrinter', 'bound': f'{len(texts)} meson.build files under test cases/' + (' (every 4th in the quick tier)' if tier == 'quick' else ''),
                  'evaluations': ev, 'distinct_nontrivial': nt, 'rule': 'non-trivial: accepted by the parser', 'exhaustive': tier != 'quick', 'failures': fails})
    return {'parts': parts}


CHECKS = {
    'C02/bounded/literal-forms': (_parse_chunk, lambda c: c['text']),
    'C02/bounded/lexer-tiling-and-positions': (_lex_chunk, lambda c: c['text']),
    'C02/bounded/lexer-positions-on-token-strings': (_lex_chunk, lambda c: c['text']),
    'C02/bounded/parse-print-roundtrip-and-extents': (_parse_chunk, lambda c: c['text']),
    'C02/bounded/structured-programs-roundtrip': (_parse_chunk, lambda c: c['text']),
    'C02/bounded/random-expression-texts-roundtrip': (_parse_chunk, lambda c: c['text']),
    'C02/bounded/corpus-build-files': (_parse_chunk, lambda c: c['text']),
}
