"""Random well-typed expressions of the meson language with their value under a reference evaluator written from the
language reference (integers: + - * floor / and modulo with the sign of the divisor, unary minus; booleans: and / or / not
with short circuit; strings: concatenation, equality, `in`; arrays: concatenation, indexing with negative indices, `in`,
equality; comparison chains are not generated (rejected by the language); one ternary at the top at most).

The text is printed with the FEWEST parentheses the precedence ladder of the reference manual allows —
  ternary < or < and < comparison / in / not in < + - < * / % < not, unary minus < index < atoms
(binary arithmetic is left associative) — so that precedence and associativity of the real parser are exercised."""
import random

PREC = {'?': 1, 'or': 2, 'and': 3, 'cmp': 4, '+': 5, '-': 5, '*': 6, '/': 6, '%': 6, 'not': 7, 'neg': 7, 'idx': 8, 'atom': 9}


class N:
    def __init__(self, op, kids=(), val=None, ty=None):
        self.op, self.kids, self.val, self.ty = op, list(kids), val, ty


def gen(rnd, ty, depth):
    if depth <= 0 or rnd.random() < 0.25:
        return atom(rnd, ty)
    if ty == 'int':
        c = rnd.choice(['+', '-', '*', '/', '%', 'neg', 'idx', 'atom'])
        if c in '+-*':
            return N(c, [gen(rnd, 'int', depth - 1), gen(rnd, 'int', depth - 1)], ty='int')
        if c in '/%':
            d = atom(rnd, 'int')
            if d.val == 0:
                d = N('atom', val=rnd.choice([1, 2, 3, -2, 7]), ty='int')
            return N(c, [gen(rnd, 'int', depth - 1), d], ty='int')
        if c == 'neg':
            return N('neg', [gen(rnd, 'int', depth - 1)], ty='int')
        if c == 'idx':
            arr = [rnd.randint(-9, 9) for _ in range(rnd.randint(1, 4))]
            return N('idx', [N('atom', val=arr, ty='arr'), N('atom', val=rnd.randint(-len(arr), len(arr) - 1), ty='int')], ty='int')
        return atom(rnd, ty)
    if ty == 'bool':
        c = rnd.choice(['and', 'or', 'not', 'cmpi', 'cmpi', 'eqs', 'in', 'eqb', 'atom'])
        if c in ('and', 'or'):
            return N(c, [gen(rnd, 'bool', depth - 1), gen(rnd, 'bool', depth - 1)], ty='bool')
        if c == 'not':
            return N('not', [gen(rnd, 'bool', depth - 1)], ty='bool')
        if c == 'cmpi':
            return N('cmp', [gen(rnd, 'int', depth - 1), gen(rnd, 'int', depth - 1)], val=rnd.choice(['<', '<=', '>', '>=', '==', '!=']), ty='bool')
        if c == 'eqs':
            return N('cmp', [gen(rnd, 'str', depth - 1), gen(rnd, 'str', depth - 1)], val=rnd.choice(['==', '!=']), ty='bool')
        if c == 'eqb':
            return N('cmp', [gen(rnd, 'bool', depth - 1), gen(rnd, 'bool', depth - 1)], val=rnd.choice(['==', '!=']), ty='bool')
        if c == 'in':
            arr = [rnd.randint(0, 5) for _ in range(rnd.randint(0, 4))]
            return N('cmp', [gen(rnd, 'int', depth - 1), N('atom', val=arr, ty='arr')], val=rnd.choice(['in', 'not in']), ty='bool')
        return atom(rnd, ty)
    if ty == 'str':
        if rnd.random() < 0.6:
            return N('+', [gen(rnd, 'str', depth - 1), gen(rnd, 'str', depth - 1)], ty='str')
        return atom(rnd, ty)
    raise ValueError(ty)


def atom(rnd, ty):
    if ty == 'int':
        return N('atom', val=rnd.choice([0, 1, 2, 3, 5, 7, 10, 12]), ty='int')
    if ty == 'bool':
        return N('atom', val=rnd.random() < 0.5, ty='bool')
    return N('atom', val=rnd.choice(['', 'a', 'b', 'ab', 'x y']), ty='str')


class Undefined(Exception):
    pass


def ev(n):
    o = n.op
    if o == 'atom':
        return n.val
    if o == 'neg':
        return -ev(n.kids[0])
    if o == 'not':
        return not ev(n.kids[0])
    if o == 'and':
        return ev(n.kids[0]) and ev(n.kids[1])
    if o == 'or':
        return ev(n.kids[0]) or ev(n.kids[1])
    if o == '?':
        return ev(n.kids[1]) if ev(n.kids[0]) else ev(n.kids[2])
    a, b = ev(n.kids[0]), ev(n.kids[1])
    if o == '+':
        return a + b
    if o == '-':
        return a - b
    if o == '*':
        return a * b
    if o in '/%':
        if b == 0:
            raise Undefined()
        return a // b if o == '/' else a % b
    if o == 'idx':
        return a[b]
    if o == 'cmp':
        c = n.val
        return {'<': lambda: a < b, '<=': lambda: a <= b, '>': lambda: a > b, '>=': lambda: a >= b, '==': lambda: a == b, '!=': lambda: a != b,
                'in': lambda: a in b, 'not in': lambda: a not in b}[c]()
    raise ValueError(o)


def lit(v):
    if isinstance(v, bool):
        return 'true' if v else 'false'
    if isinstance(v, int):
        return str(v)
    if isinstance(v, str):
        return "'" + v + "'"
    return '[' + ', '.join(lit(x) for x in v) + ']'


def prec(n):
    if n.op == 'atom':
        return 9 if not (isinstance(n.val, int) and not isinstance(n.val, bool) and n.val < 0) else 7
    return PREC[n.op if n.op != 'cmp' else 'cmp']


def show(n, sp=lambda: ' '):
    """minimal parentheses; sp() supplies the trivia between tokens"""
    def sub(k, need, strict=False):
        t = show(k, sp)
        p = prec(k)
        return '(' + t + ')' if (p < need or (strict and p == need)) else t
    o = n.op
    if o == 'atom':
        return lit(n.val)
    if o == 'neg':
        return '-' + sub(n.kids[0], 8)          # stacked unary operators are rejected by the language: parenthesise
    if o == 'not':
        return 'not' + (sp() or ' ') + sub(n.kids[0], 8)
    if o == 'idx':
        return sub(n.kids[0], 8) + '[' + show(n.kids[1], sp) + ']'
    if o == '?':
        return sub(n.kids[0], 2) + sp() + '?' + sp() + sub(n.kids[1], 2) + sp() + ':' + sp() + sub(n.kids[2], 2)
    if o == 'cmp':
        w = n.val
        opt = (sp() or ' ') + w + (sp() or ' ') if w in ('in', 'not in') else sp() + w + sp()
        return sub(n.kids[0], 5) + opt + sub(n.kids[1], 5)
    if o in ('and', 'or'):
        p = PREC[o]
        # `a or (b or c)` keeps its parentheses: the value is the same but the tree is not
        return sub(n.kids[0], p) + (sp() or ' ') + o + (sp() or ' ') + sub(n.kids[1], p, strict=True)
    p = PREC[o]
    return sub(n.kids[0], p) + sp() + o + sp() + sub(n.kids[1], p, strict=True)


def expression(rnd, depth=4):
    """-> (tree, value) of a random expression whose value is defined"""
    for _ in range(50):
        ty = rnd.choice(['int', 'int', 'bool', 'bool', 'str'])
        t = gen(rnd, ty, depth)
        if rnd.random() < 0.15:
            t = N('?', [gen(rnd, 'bool', 2), t, gen(rnd, ty, 2)], ty=ty)
        try:
            return t, ev(t)
        except (Undefined, IndexError):
            continue
    return N('atom', val=1, ty='int'), 1
