"""C03 bounded stand-in (native), end to end: argument strings given to custom_target / run_target commands and to
test() in generated projects go through the REAL `meson setup` (ninja back end, stub ninja) and are then EXECUTED the way
ninja / meson test would execute them: the COMMAND variable of build.ninja is $-evaluated (a model of ninja's evaluation — the
only model left) and handed to the real /bin/sh -c in the build directory, so that the real shell, the real `env`, and the real
`meson --internal exe` wrapper (capture, feed, pickled commands) run; tests are run by the real `meson test --no-rebuild` (once, and again with --repeat 2).  The
program that is finally started dumps its argv; it must be the arguments given: same bytes, same count, same order, with the
documented rewrite (backslash -> / in custom-target commands)."""
import json, os, pickle, random, re, shlex, shutil, subprocess, sys, tempfile
from bounded.util import chunked, pmap
from bounded.quoting import ninja_eval

ARGS = ['a b', "it's", '$x', '$$', '${HOME}', 'semi;colon', '#hash', 'glob*?[x]', 'q"uote', 'back\\slash', 'tr\\', 'é ü', 'tab\there', 'new\nline', 'x&&y', '|pipe>',
        '-DX="a b"', '`tick`', '~', '%PATH%', ' lead', 'trail ', '!bang', 'a:b', 'a=b c']
MODES = ['plain', 'capture', 'env', 'feed', 'run', 'test']


def mstr(s):
    return "'" + s.replace('\\', '\\\\').replace("'", "\\'").replace('\n', '\\n').replace('\t', '\\t') + "'"


DUMPER = """import json, os, sys
json.dump(sys.argv[2:], open(sys.argv[1], 'w'))
if os.environ.get('K') is not None:
    json.dump({'K': os.environ.get('K'), 'L': os.environ.get('L')}, open(sys.argv[1] + '.env', 'w'))
print('captured-output')
"""


DUMPER2 = """import hashlib, json, os, sys
args = sys.argv[2:]
json.dump(args, open(os.path.join(sys.argv[1], hashlib.sha1(json.dumps(args).encode()).hexdigest() + '.json'), 'w'))
"""


def gen(rnd, n):
    items = []
    for i in range(n):
        mode = MODES[i % len(MODES)]
        args = [rnd.choice(ARGS) for _ in range(rnd.randint(1, 3))]
        items.append((i, mode, args))
    # @PLACEHOLDER@ substitution in custom-target commands: exactly the known placeholders are replaced, wherever they stand — also
    # next to other text shaped like a placeholder (an e-mail address, a version suffix) — and nothing else is touched
    for mode in ('plain', 'env'):          # (capture: and @OUTPUT@ exclude each other)
        items.append((len(items), mode, ['me@BUILDHOST@OUTPUT@', '@X1@OUTDIR@/f', 'a@OUTPUT@b@ZZ@', '@OUTPUT@@OUTPUT@', 'user@example.com', '@NOTATEMPLATE@', '1.0@RC1@OUTPUT@.tar', '@@OUTPUT@@']))
    # a program whose PATH contains '=' run with an environment: `env K=V <program>` would read the program as another assignment
    items.append((len(items), 'env-eqprog', ['plain', 'a=b']))
    # commands that are pickled (an argument contains a newline) and whose argument lists differ only in where the boundaries fall
    for args in (['x\ny', 'z'], ['x\nyz'], ['x\n', 'yz'], ['-D', 'FOO=1\n'], ['-DFOO=1\n']):
        items.append((len(items), 'pickled', args))
    lines = ["project('argv')", "py = find_program('python3')", "dumper = files('dump.py')", "dumper2 = files('dump2.py')", "side = meson.current_build_dir() / 'side'"]
    for i, mode, args in items:
        cmd = "[py, dumper, side / 'a%d.json', " % i + ', '.join(mstr(a) for a in args) + ']'
        if mode == 'pickled':
            # identical command prefix for all of them: only the argument boundaries tell them apart
            lines.append(f"custom_target('p{i}', output: 'o{i}.out', command: [py, dumper2, side, " + ', '.join(mstr(a) for a in args) + "])")
        elif mode == 'plain':
            lines.append(f"custom_target('p{i}', output: 'o{i}.out', command: {cmd})")
        elif mode == 'capture':
            lines.append(f"custom_target('p{i}', output: 'o{i}.out', command: {cmd}, capture: true)")
        elif mode == 'env':
            lines.append(f"custom_target('p{i}', output: 'o{i}.out', command: {cmd}, env: {{'K': 'v w', 'L': '$y'}})")
        elif mode == 'env-eqprog':
            lines.append(f"custom_target('p{i}', output: 'o{i}.out', command: [find_program('eq=dir/prog.py'), side / 'a{i}.json', " + ', '.join(mstr(a) for a in args) + "], env: {'K': 'v w', 'L': '$y'})")
        elif mode == 'feed':
            lines.append(f"custom_target('p{i}', output: 'o{i}.out', input: 'meson.build', command: {cmd}, feed: true)")
        elif mode == 'run':
            lines.append(f"run_target('r{i}', command: {cmd})")
        else:
            lines.append(f"test('t{i}', py, args: [dumper, side / 'a{i}.json', " + ', '.join(mstr(a) for a in args) + "])")
    return '\n'.join(lines) + '\n', items


def commands_of(build_dir):
    """{output or target name: COMMAND text} from build.ninja"""
    out = {}
    cur = None
    for l in open(os.path.join(build_dir, 'build.ninja'), encoding='utf-8').read().split('\n'):
        if l.startswith('build '):
            cur = l[6:].split(':')[0].strip()
        elif l.startswith(' COMMAND = ') and cur is not None:
            out[cur] = l[len(' COMMAND = '):]
    return out


def argv_of(text, build_dir, repo):
    """the argv the python interpreter of the command finally receives (after the wrapper, if one is used)"""
    argv = shlex.split(ninja_eval(text))
    if 'env' == os.path.basename(argv[0]):
        argv = argv[1:]
        while argv and '=' in argv[0] and not argv[0].startswith('/'):
            argv = argv[1:]
    if '--internal' in argv and 'exe' in argv:
        if '--unpickle' in argv:
            p = argv[argv.index('--unpickle') + 1]
            p = p if os.path.isabs(p) else os.path.join(build_dir, p)
            if repo not in sys.path:
                sys.path.insert(0, repo)
            es = pickle.load(open(p, 'rb'))
            argv = list(es.cmd_args)
        else:
            argv = argv[argv.index('--') + 1:]
    return argv


def parse_ninja(text):
    """rules {name: {var: raw text}} and statements [{outs, rule, ins, vars{name: raw text}}] of a manifest (mini reader)"""
    rules, builds, cur = {}, [], None
    for l in text.split('\n'):
        if l.startswith('rule '):
            cur = rules.setdefault(l[5:].strip(), {})
        elif l.startswith('build '):
            head, _, rest = l[6:].partition(': ')
            toks = rest.split(' ')
            cur = {}
            builds.append({'outs': head, 'rule': toks[0], 'ins': ' '.join(t for t in toks[1:]), 'vars': cur})
        elif l.startswith(' ') and cur is not None and ' = ' in l:
            k, _, v = l.strip().partition(' = ')
            cur[k] = v
        elif not l.strip():
            cur = None
    return rules, builds


def expand(text, lookup):
    """ninja evaluation of a command: $$ $<space> $: escapes and $var / ${var} references (values are inserted as they are)"""
    out, i = '', 0
    while i < len(text):
        c = text[i]
        if c != '$' or i + 1 >= len(text):
            out += c
            i += 1
            continue
        n = text[i + 1]
        if n in '$ :':
            out += n
            i += 2
        elif n == '{':
            j = text.index('}', i)
            out += lookup(text[i + 2:j])
            i = j + 1
        else:
            j = i + 1
            while j < len(text) and (text[j].isalnum() or text[j] in '_-'):
                j += 1
            out += lookup(text[i + 1:j])
            i = j
    return out


def statement_command(rules, b):
    """the command line ninja would hand to the shell for build statement b"""
    r = rules[b['rule']]

    def lookup(name):
        if name == 'in':
            return ' '.join(shlex.quote(x) if ' ' in x else x for x in [ninja_eval(t) for t in b['ins'].split(' | ')[0].split(' || ')[0].split(' ') if t])
        if name == 'out':
            return ninja_eval(b['outs'].split(' | ')[0])
        if name in b['vars']:
            return ninja_eval(b['vars'][name])
        return ''
    return expand(r['command'], lookup)


CCWRAP = """#!/bin/sh
# compiler wrapper of the C03 layer: transparent unless C03_DUMP is set, then it records its argv first
if [ -n "$C03_DUMP" ]; then
  exec %s %s/ccdump.py "$C03_DUMP" "$@"
fi
exec gcc "$@"
"""
CCDUMP = """import json, os, sys
json.dump(sys.argv[2:], open(sys.argv[1], 'w'))
"""
CARGS = ['-DS="a b"', "-DQ='it'", '-DD=$x$$', '-DH=#;*', '-DB=a\\b', '-DBQ="c:\\dir\\"', '-DU=é', '-DE=', '-Wno-error=x y', '-DP=%PATH%~`', '/DW=a\\b c']
# (no -L / -l here: CompilerArgs hoists and de-duplicates those by design — property C13 — so their position relative to other
# arguments is not preserved; demanding it was a false alarm of the first version of this layer)
LARGS = ['-Wl,--defsym=s=1', '-Wl,-rpath,$ORIGIN/a b', "-Wl,-rpath,'q'", '-Wl,--build-id=0xAB;#', '-Wl,-rpath-link,/x y/é', '-Wl,-z,back\\slash']


def _cc_chunk(chunk):
    """compile and link argument positions: the argv the compiler driver receives for per-target c_args / link_args"""
    repo = os.environ.get('VERIF_REPO', '/repo')
    fails, nt = [], 0
    for seed in chunk:
        rnd = random.Random(seed)
        cargs = rnd.sample(CARGS, 3)
        largs = rnd.sample(LARGS, 2)
        d = tempfile.mkdtemp(prefix='c03cc')
        try:
            src, build = os.path.join(d, 'src'), os.path.join(d, 'b')
            os.makedirs(src)
            open(os.path.join(d, 'ccdump.py'), 'w').write(CCDUMP)
            cc = os.path.join(d, 'ccwrap')
            open(cc, 'w').write(CCWRAP % (sys.executable, d))
            os.chmod(cc, 0o755)
            open(os.path.join(src, 'm.c'), 'w').write('int main(void) { return 0; }\n')
            open(os.path.join(src, 'meson.build'), 'w').write("project('cc', 'c')\nexecutable('e', 'm.c', c_args: [" + ', '.join(mstr(a) for a in cargs) + "], link_args: [" + ', '.join(mstr(a) for a in largs) + "])\n")
            env = dict(os.environ, NINJA=stub_ninja(d), CC=cc)
            env.pop('C03_DUMP', None)
            r = subprocess.run([sys.executable, os.path.join(repo, 'meson.py'), 'setup', build, src], capture_output=True, text=True, env=env)
            case = {'generator_seed': seed, 'c_args': cargs, 'link_args': largs}
            if r.returncode != 0:
                fails.append({'case': case, 'stage': 'argv-cc', 'detail': 'setup failed: ' + (r.stdout + r.stderr)[-300:]})
                continue
            rules, builds = parse_ninja(open(os.path.join(build, 'build.ninja'), encoding='utf-8').read())
            for kind, given in (('compile', cargs), ('link', largs)):
                nt += 1
                b = next((x for x in builds if x['rule'] == ('c_COMPILER' if kind == 'compile' else 'c_LINKER')), None)
                if b is None:
                    fails.append({'case': case, 'stage': 'argv-cc', 'detail': f'no {kind} statement in the manifest'})
                    continue
                dump = os.path.join(d, kind + '.json')
                subprocess.run(['/bin/sh', '-c', statement_command(rules, b)], cwd=build, capture_output=True, text=True, env=dict(env, C03_DUMP=dump), timeout=60)
                if not os.path.exists(dump):
                    fails.append({'case': case, 'stage': 'argv-cc', 'detail': f'{kind}: the compiler driver was not started'})
                    continue
                got = json.load(open(dump))
                exp = [a.replace('\\', '\\\\') if (kind == 'compile' and a.startswith(('-D', '/D'))) else a for a in given]
                pos = [got.index(x) if x in got else -1 for x in exp]
                if -1 in pos or pos != sorted(pos):
                    fails.append({'case': case, 'stage': 'argv-cc', 'detail': f'{kind}: the compiler driver received {got!r}; the per-target arguments {exp!r} are not among them unchanged and in order'})
        finally:
            shutil.rmtree(d, ignore_errors=True)
    return len(chunk), nt, fails


def _cclayers_chunk(chunk):
    """which compile statement receives which of the user's arguments: global, project and per-target arguments of several kinds of
    target (executable, static / shared / both libraries with <lang>_static_args / <lang>_shared_args) — every argument given to a
    target arrives exactly once at each of ITS compile statements and nowhere else"""
    repo = os.environ.get('VERIF_REPO', '/repo')
    fails, nt = [], 0
    for seed in chunk:
        rnd = random.Random(seed)
        glob, proj = ['-DU_GLOBAL=1'], ['-DU_PROJECT=2']
        targets = {}          # name -> (function, kwargs text pieces, {flavour: expected per-target args})
        kinds = ['executable', 'static_library', 'shared_library', 'both_libraries', 'library']
        rnd.shuffle(kinds)
        lines = ["project('ccl', 'c', default_options: ['default_library=" + rnd.choice(['both', 'shared', 'static']) + "'])",
                 'add_global_arguments(' + mstr(glob[0]) + ", language: 'c')", 'add_project_arguments(' + mstr(proj[0]) + ", language: 'c')"]
        deflib = lines[0].split('default_library=')[1].split("'")[0]
        for i, kind in enumerate(kinds[:rnd.randint(3, 5)]):
            name = f't{i}'
            own = [f'-DU_{name}_OWN={i}'] + ([f'-DU_{name}_SECOND'] if rnd.random() < 0.5 else [])
            # (<lang>_static_args / <lang>_shared_args are keyword arguments of library() and both_libraries() only)
            st = [f'-DU_{name}_STATIC'] if kind in ('both_libraries', 'library') and rnd.random() < 0.8 else []
            sh = [f'-DU_{name}_SHARED'] if kind in ('both_libraries', 'library') and rnd.random() < 0.8 else []
            use_files = rnd.random() < 0.3
            kw = ['c_args: [' + ', '.join(mstr(a) for a in own) + ']'] if own else []
            if st:
                kw.append('c_static_args: [' + ', '.join(mstr(a) for a in st) + ']')
            if sh:
                kw.append('c_shared_args: [' + ', '.join(mstr(a) for a in sh) + ']')
            lines.append(f"{kind}('{name}', '{name}.c', " + ', '.join(kw) + ')')
            flav = {'executable': ['exe'], 'static_library': ['static'], 'shared_library': ['shared'], 'both_libraries': ['static', 'shared'],
                    'library': {'both': ['static', 'shared'], 'shared': ['shared'], 'static': ['static']}[deflib]}[kind]
            targets[name] = {f: own + (st if f == 'static' else sh if f == 'shared' else []) for f in flav}
        d = tempfile.mkdtemp(prefix='c03cl')
        try:
            src, build = os.path.join(d, 'src'), os.path.join(d, 'b')
            os.makedirs(src)
            open(os.path.join(d, 'ccdump.py'), 'w').write(CCDUMP)
            cc = os.path.join(d, 'ccwrap')
            open(cc, 'w').write(CCWRAP % (sys.executable, d))
            os.chmod(cc, 0o755)
            for name in targets:
                open(os.path.join(src, name + '.c'), 'w').write(('int main(void) { return 0; }\n' if 'exe' in targets[name] else f'int f_{name}(void) {{ return 0; }}\n'))
            open(os.path.join(src, 'meson.build'), 'w').write('\n'.join(lines) + '\n')
            env = dict(os.environ, NINJA=stub_ninja(d), CC=cc)
            env.pop('C03_DUMP', None)
            r = subprocess.run([sys.executable, os.path.join(repo, 'meson.py'), 'setup', build, src], capture_output=True, text=True, env=env)
            case = {'generator_seed': seed, 'meson.build': lines}
            if r.returncode != 0:
                fails.append({'case': case, 'stage': 'argv-layers', 'detail': 'setup failed: ' + (r.stdout + r.stderr)[-300:]})
                continue
            rules, builds = parse_ninja(open(os.path.join(build, 'build.ninja'), encoding='utf-8').read())
            seen = set()
            for j, b in enumerate(x for x in builds if x['rule'] == 'c_COMPILER'):
                out = b['outs'].split(' ')[0]
                m_ = re.match(r'(?:lib)?(t\d)(\.a|\.so)?\.p/', out)
                if not m_:
                    continue
                name = m_.group(1)
                flavour = {'.a': 'static', '.so': 'shared', None: 'exe'}[m_.group(2)]
                nt += 1
                seen.add((name, flavour))
                dump = os.path.join(d, f'cc{j}.json')
                subprocess.run(['/bin/sh', '-c', statement_command(rules, b)], cwd=build, capture_output=True, text=True, env=dict(env, C03_DUMP=dump), timeout=60)
                if not os.path.exists(dump):
                    fails.append({'case': case, 'stage': 'argv-layers', 'detail': f'{out}: the compiler driver was not started'})
                    continue
                got = [a for a in json.load(open(dump)) if a.startswith('-DU_')]
                want = targets.get(name, {}).get(flavour)
                if want is None:
                    fails.append({'case': case, 'stage': 'argv-layers', 'detail': f'{out}: a compile statement for a {flavour} flavour of {name} that the build definition does not ask for'})
                elif sorted(got) != sorted(glob + proj + want) or [a for a in got if a in want] != want:
                    fails.append({'case': case, 'stage': 'argv-layers', 'detail': f'{out} ({flavour} flavour of {name}): the compiler receives the user arguments {got!r}; the build definition gives it {glob + proj + want!r} (each once, per-target ones in the order given)'})
            for name, fl in targets.items():
                for f in fl:
                    # (both flavours given the SAME arguments: meson compiles once and builds the static library from the shared
                    # library's objects — the absence of a second set of compile statements is by design, not a lost argument)
                    if f == 'static' and 'shared' in fl and fl['static'] == fl['shared'] and (name, 'shared') in seen:
                        continue
                    if (name, f) not in seen:
                        fails.append({'case': case, 'stage': 'argv-layers', 'detail': f'no compile statement for the {f} flavour of {name}'})
        finally:
            shutil.rmtree(d, ignore_errors=True)
    return len(chunk), nt, fails


def _langargs_chunk(chunk):
    """add_global_arguments / add_project_arguments called several times, each call naming one or several languages: the compiler of
    a language receives exactly the arguments of the calls that name THAT language, each once (a C and a C++ executable, both
    compilers behind the recording wrapper)"""
    repo = os.environ.get('VERIF_REPO', '/repo')
    fails, nt = [], 0
    for seed in chunk:
        rnd = random.Random(seed)
        lines = ["project('la', 'c', 'cpp')"]
        want = {'c': [], 'cpp': []}
        for k in range(rnd.randint(2, 5)):
            fn = rnd.choice(['add_project_arguments', 'add_global_arguments'])
            langs = rnd.choice([['c', 'cpp'], ['cpp', 'c'], ['c'], ['cpp'], ['c', 'cpp']])
            if k == 0 and rnd.random() < 0.6:
                langs = ['c', 'cpp']
            arg = f'-DU_CALL{k}={k}'
            lines.append(f"{fn}({mstr(arg)}, language: [" + ', '.join(mstr(l) for l in langs) + '])')
            for l in langs:
                want[l].append(arg)
        lines += ["executable('ec', 'ec.c')", "executable('ex', 'ex.cpp')"]
        d = tempfile.mkdtemp(prefix='c03la')
        try:
            src, build = os.path.join(d, 'src'), os.path.join(d, 'b')
            os.makedirs(src)
            open(os.path.join(d, 'ccdump.py'), 'w').write(CCDUMP)
            wr = {}
            for tool, real in (('CC', 'gcc'), ('CXX', 'g++')):
                wr[tool] = os.path.join(d, 'wrap' + tool)
                open(wr[tool], 'w').write((CCWRAP % (sys.executable, d)).replace('gcc', real) if real != 'gcc' else CCWRAP % (sys.executable, d))
                os.chmod(wr[tool], 0o755)
            open(os.path.join(src, 'ec.c'), 'w').write('int main(void) { return 0; }\n')
            open(os.path.join(src, 'ex.cpp'), 'w').write('int main() { return 0; }\n')
            open(os.path.join(src, 'meson.build'), 'w').write('\n'.join(lines) + '\n')
            env = dict(os.environ, NINJA=stub_ninja(d), CC=wr['CC'], CXX=wr['CXX'])
            env.pop('C03_DUMP', None)
            r = subprocess.run([sys.executable, os.path.join(repo, 'meson.py'), 'setup', build, src], capture_output=True, text=True, env=env)
            case = {'generator_seed': seed, 'meson.build': lines}
            if r.returncode != 0:
                fails.append({'case': case, 'stage': 'argv-languages', 'detail': 'setup failed: ' + (r.stdout + r.stderr)[-300:]})
                continue
            rules, builds = parse_ninja(open(os.path.join(build, 'build.ninja'), encoding='utf-8').read())
            for j, b in enumerate(x for x in builds if x['rule'] in ('c_COMPILER', 'cpp_COMPILER')):
                lang = b['rule'].split('_')[0]
                nt += 1
                dump = os.path.join(d, f'cc{j}.json')
                subprocess.run(['/bin/sh', '-c', statement_command(rules, b)], cwd=build, capture_output=True, text=True, env=dict(env, C03_DUMP=dump), timeout=60)
                if not os.path.exists(dump):
                    fails.append({'case': case, 'stage': 'argv-languages', 'detail': f"{b['outs']}: the compiler driver was not started"})
                    continue
                got = [a for a in json.load(open(dump)) if a.startswith('-DU_')]
                if sorted(got) != sorted(want[lang]):
                    fails.append({'case': case, 'stage': 'argv-languages', 'detail': f'the {lang} compiler receives the user arguments {got!r}; the build definition gives {lang} {want[lang]!r} (each once)'})
        finally:
            shutil.rmtree(d, ignore_errors=True)
    return len(chunk), nt, fails


def stub_ninja(d):
    p = os.path.join(d, 'stub', 'ninja')
    os.makedirs(os.path.dirname(p), exist_ok=True)
    open(p, 'w').write('#!/bin/sh\necho 1.11.1\n')
    os.chmod(p, 0o755)
    return p


def _argv_chunk(chunk):
    repo = os.environ.get('VERIF_REPO', '/repo')
    fails, nt = [], 0
    for seed in chunk:
        rnd = random.Random(seed)
        text, items = gen(rnd, 24)
        d = tempfile.mkdtemp(prefix='c03argv')
        try:
            src, build = os.path.join(d, 'src'), os.path.join(d, 'b')
            os.makedirs(src)
            open(os.path.join(src, 'meson.build'), 'w').write(text)
            open(os.path.join(src, 'dump.py'), 'w').write(DUMPER)
            open(os.path.join(src, 'dump2.py'), 'w').write(DUMPER2)
            os.makedirs(os.path.join(src, 'eq=dir'))
            open(os.path.join(src, 'eq=dir', 'prog.py'), 'w').write('#!' + sys.executable + '\nimport json, os, sys\njson.dump(sys.argv[2:], open(sys.argv[1], "w"))\n'
                                                                   'json.dump({"K": os.environ.get("K"), "L": os.environ.get("L")}, open(sys.argv[1] + ".env", "w"))\n')
            os.chmod(os.path.join(src, 'eq=dir', 'prog.py'), 0o755)
            r = subprocess.run([sys.executable, os.path.join(repo, 'meson.py'), 'setup', build, src], capture_output=True, text=True, env=dict(os.environ, NINJA=stub_ninja(d)))
            if r.returncode != 0:
                fails.append({'case': {'generator_seed': seed}, 'stage': 'argv-e2e', 'detail': 'setup failed: ' + (r.stdout + r.stderr)[-300:]})
                continue
            cmds = commands_of(build)
            os.makedirs(os.path.join(build, 'side'), exist_ok=True)
            env = dict(os.environ, NINJA=stub_ninja(d))
            if any(m == 'test' for _i, m, _a in items):
                subprocess.run([sys.executable, os.path.join(repo, 'meson.py'), 'test', '--no-rebuild', '-C', build], capture_output=True, text=True, env=env)
                firsts = {}
                for i_, m_, _a in items:
                    sp_ = os.path.join(build, 'side', f'a{i_}.json')
                    if m_ == 'test' and os.path.exists(sp_):
                        firsts[i_] = json.load(open(sp_))
                # the same tests again, twice in one `meson test` process: every execution gets the same argv (the dump of
                # the last execution replaces the earlier ones and is what is compared below)
                subprocess.run([sys.executable, os.path.join(repo, 'meson.py'), 'test', '--no-rebuild', '--repeat', '2', '-C', build], capture_output=True, text=True, env=env)
                for i_, m_, a_ in items:
                    if m_ == 'test' and i_ in firsts and firsts[i_] != list(a_):
                        fails.append({'case': {'generator_seed': seed, 'index': i_, 'mode': 'test', 'args': a_}, 'stage': 'argv-e2e', 'detail': f'test: the process received {firsts[i_]!r}, the build definition gives {list(a_)!r}'})
            for i, mode, args in items:
                nt += 1
                case = {'generator_seed': seed, 'index': i, 'mode': mode, 'args': args}
                side = os.path.join(build, 'side', f'a{i}.json')
                try:
                    if mode != 'test':
                        key = f'o{i}.out' if mode != 'run' else next((k for k in cmds if k.split('/')[-1] in (f'r{i}', f'meson-internal__r{i}', f'meson-r{i}')), None)
                        if key is None or key not in cmds:
                            fails.append({'case': case, 'stage': 'argv-e2e', 'detail': f'no COMMAND found for item {i} ({mode}) among {sorted(cmds)[:6]}'})
                            continue
                        pr = subprocess.run(['/bin/sh', '-c', ninja_eval(cmds[key])], cwd=build, capture_output=True, text=True, env=env, timeout=60)
                        if pr.returncode != 0:
                            fails.append({'case': case, 'stage': 'argv-e2e', 'detail': f'{mode}: the command failed when executed: ' + (pr.stdout + pr.stderr)[-300:]})
                            continue
                    if mode == 'pickled':
                        import hashlib
                        exp = [a.replace('\\', '/') for a in args]
                        want = os.path.join(build, 'side', hashlib.sha1(json.dumps(exp).encode()).hexdigest() + '.json')
                        if not os.path.exists(want):
                            others = sorted(f for f in os.listdir(os.path.join(build, 'side')) if len(f) == 45)
                            fails.append({'case': case, 'stage': 'argv-e2e', 'detail': f'pickled command: the program was not started with {exp!r} (it ran with the argv of another command)'})
                        continue
                    if not os.path.exists(side):
                        fails.append({'case': case, 'stage': 'argv-e2e', 'detail': f'{mode}: the program was not started (no argv dump)'})
                        continue
                    got = json.load(open(side))
                    exp = list(args) if mode == 'test' else [a.replace('\\', '/').replace('@OUTPUT@', f'o{i}.out').replace('@OUTDIR@', '.') for a in args]
                    if mode in ('env', 'env-eqprog'):
                        ev_ = json.load(open(side + '.env')) if os.path.exists(side + '.env') else None
                        if ev_ != {'K': 'v w', 'L': '$y'}:
                            fails.append({'case': case, 'stage': 'argv-e2e', 'detail': f'env: the program saw the environment values {ev_!r} instead of K="v w", L="$y"'})
                    if mode == 'capture' and open(os.path.join(build, f'o{i}.out')).read() != 'captured-output\n':
                        fails.append({'case': case, 'stage': 'argv-e2e', 'detail': 'capture: the output file does not hold the captured stdout'})
                except Exception as ex:
                    fails.append({'case': case, 'stage': 'argv-e2e', 'detail': f'the command cannot be executed / read back: {type(ex).__name__}: {ex}'})
                    continue
                if got != exp:
                    fails.append({'case': case, 'stage': 'argv-e2e', 'detail': f'{mode}: the process received {got!r}, the build definition gives {exp!r}'})
        finally:
            shutil.rmtree(d, ignore_errors=True)
    return len(chunk), nt, fails


def run(REG, tier, seed, jobs):
    n = 32 if tier == 'quick' else 600
    seeds = [seed * 7919 + i for i in range(n)]
    ev, nt, fails = pmap(_argv_chunk, chunked(iter(seeds), 2), jobs)
    m = 12 if tier == 'quick' else 200
    ev2, nt2, fails2 = pmap(_cc_chunk, chunked(iter([seed * 104729 + i for i in range(m)]), 1), jobs)
    ccpart = {'name': 'C03/bounded/compiler-and-linker-argv-through-meson-setup', 'function': 'meson setup (C project, gcc behind a recording wrapper): c_args / link_args',
              'bound': f'{m} generated C projects: 3 of {len(CARGS)} per-target c_args and 2 of {len(LARGS)} link_args with blanks, quotes, $, #, ;, *, backslashes, non-ASCII; the compile and link statements of build.ninja are evaluated by a mini ninja reader and executed by /bin/sh',
              'evaluations': ev2, 'distinct_nontrivial': nt2, 'rule': 'every compile / link statement', 'exhaustive': False, 'failures': fails2}
    k = 10 if tier == 'quick' else 150
    ev3, nt3, fails3 = pmap(_cclayers_chunk, chunked(iter([seed * 15485863 + i for i in range(k)]), 1), jobs)
    clpart = {'name': 'C03/bounded/argument-layers-per-target-flavour', 'function': 'meson setup (C project, gcc behind a recording wrapper): global / project / per-target / per-flavour arguments',
              'bound': f'{k} generated C projects of 3-5 targets (executable, static / shared / both libraries, library() under each default_library) with global, project, per-target c_args and c_static_args / c_shared_args: every compile statement executed, the -DU_* arguments it receives compared with what the build definition gives that flavour of that target',
              'evaluations': ev3, 'distinct_nontrivial': nt3, 'rule': 'every compile statement', 'exhaustive': False, 'failures': fails3}
    q = 10 if tier == 'quick' else 150
    ev4, nt4, fails4 = pmap(_langargs_chunk, chunked(iter([seed * 32452843 + i for i in range(q)]), 1), jobs)
    lapart = {'name': 'C03/bounded/arguments-per-language', 'function': 'meson setup (C and C++ executable, gcc / g++ behind a recording wrapper): add_global_arguments / add_project_arguments',
              'bound': f'{q} generated projects: 2-5 calls of add_project_arguments / add_global_arguments, each naming one or both of c / cpp (the first one mostly both); both compile statements executed, the -DU_* arguments each compiler receives compared with the calls that name its language',
              'evaluations': ev4, 'distinct_nontrivial': nt4, 'rule': 'every compile statement', 'exhaustive': False, 'failures': fails4}
    return {'parts': [ccpart, clpart, lapart, {'name': 'C03/bounded/argv-end-to-end-through-meson-setup', 'function': 'meson setup (ninja back end, stub ninja): custom_target / run_target / test commands',
                       'bound': f'{n} generated projects x 29 commands (5 of them pickled commands differing only in their argument boundaries): 1-3 arguments over {len(ARGS)} strings (blanks, quotes, $, #, ;, globs, backslashes, non-ASCII, tab, newline, ...) in 6 modes (plain, capture, env, feed, run_target, test)',
                       'evaluations': ev, 'distinct_nontrivial': nt, 'rule': 'every command', 'exhaustive': False, 'failures': fails}]}


CHECKS = {'C03/bounded/compiler-and-linker-argv-through-meson-setup': (_cc_chunk, lambda c: c['generator_seed']),
          'C03/bounded/argument-layers-per-target-flavour': (_cclayers_chunk, lambda c: c['generator_seed']),
          'C03/bounded/arguments-per-language': (_langargs_chunk, lambda c: c['generator_seed']),
          'C03/bounded/argv-end-to-end-through-meson-setup': (_argv_chunk, lambda c: c['generator_seed'])}
