"""C03 bounded stand-in (native), end to end: argument strings given to custom_target / run_target commands and to
test() in generated projects go through the REAL `meson setup` (ninja back end, stub ninja: nothing is built); the command
is then read back the way it will be executed — the COMMAND variable of build.ninja through a model of ninja's $-evaluation
and of /bin/sh word splitting, the pickled exe wrapper by unpickling it, tests from intro-tests.json — and compared with the
arguments given: same bytes, same count, same order, with the documented rewrite (backslash -> / in custom-target commands)."""
import json, os, pickle, random, shlex, shutil, subprocess, sys, tempfile
from bounded.util import chunked, pmap
from bounded.quoting import ninja_eval

ARGS = ['a b', "it's", '$x', '$$', '${HOME}', 'semi;colon', '#hash', 'glob*?[x]', 'q"uote', 'back\\slash', 'tr\\', 'é ü', 'tab\there', 'new\nline', 'x&&y', '|pipe>',
        '-DX="a b"', '`tick`', '~', '%PATH%', ' lead', 'trail ', '!bang', 'a:b', 'a=b c']
MODES = ['plain', 'capture', 'env', 'feed', 'run', 'test']


def mstr(s):
    return "'" + s.replace('\\', '\\\\').replace("'", "\\'").replace('\n', '\\n').replace('\t', '\\t') + "'"


def gen(rnd, n):
    items = []
    for i in range(n):
        mode = MODES[i % len(MODES)]
        args = [rnd.choice(ARGS) for _ in range(rnd.randint(1, 3))]
        items.append((i, mode, args))
    lines = ["project('argv')", "py = find_program('python3')"]
    for i, mode, args in items:
        cmd = "[py, '-c', 'pass', " + ', '.join(mstr(a) for a in args) + ']'
        if mode == 'plain':
            lines.append(f"custom_target('p{i}', output: 'o{i}.out', command: {cmd})")
        elif mode == 'capture':
            lines.append(f"custom_target('p{i}', output: 'o{i}.out', command: {cmd}, capture: true)")
        elif mode == 'env':
            lines.append(f"custom_target('p{i}', output: 'o{i}.out', command: {cmd}, env: {{'K': 'v w', 'L': '$y'}})")
        elif mode == 'feed':
            lines.append(f"custom_target('p{i}', output: 'o{i}.out', input: 'meson.build', command: {cmd}, feed: true)")
        elif mode == 'run':
            lines.append(f"run_target('r{i}', command: {cmd})")
        else:
            lines.append(f"test('t{i}', py, args: ['-c', 'pass', " + ', '.join(mstr(a) for a in args) + "])")
    return '\n'.join(lines) + '\n', items


def commands_of(build_dir):
    """{output or target name: COMMAND text} from build.ninja"""
    out = {}
    cur = None
    for l in open(os.path.join(build_dir, 'build.ninja'), encoding='utf-8').read().split('\n'):
        if l.startswith('build '):
            cur = l[6:].split(':')[0].strip()
        elif l.startswith(' COMMAND = ') and cur is not None:
            out[cur] = l[len(' COMMAND = '):]
    return out


def argv_of(text, build_dir, repo):
    """the argv the python interpreter of the command finally receives (after the wrapper, if one is used)"""
    argv = shlex.split(ninja_eval(text))
    if 'env' == os.path.basename(argv[0]):
        argv = argv[1:]
        while argv and '=' in argv[0] and not argv[0].startswith('/'):
            argv = argv[1:]
    if '--internal' in argv and 'exe' in argv:
        if '--unpickle' in argv:
            p = argv[argv.index('--unpickle') + 1]
            p = p if os.path.isabs(p) else os.path.join(build_dir, p)
            if repo not in sys.path:
                sys.path.insert(0, repo)
            es = pickle.load(open(p, 'rb'))
            argv = list(es.cmd_args)
        else:
            argv = argv[argv.index('--') + 1:]
    return argv


def stub_ninja(d):
    p = os.path.join(d, 'stub', 'ninja')
    os.makedirs(os.path.dirname(p), exist_ok=True)
    open(p, 'w').write('#!/bin/sh\necho 1.11.1\n')
    os.chmod(p, 0o755)
    return p


def _argv_chunk(chunk):
    repo = os.environ.get('VERIF_REPO', '/repo')
    fails, nt = [], 0
    for seed in chunk:
        rnd = random.Random(seed)
        text, items = gen(rnd, 24)
        d = tempfile.mkdtemp(prefix='c03argv')
        try:
            src, build = os.path.join(d, 'src'), os.path.join(d, 'b')
            os.makedirs(src)
            open(os.path.join(src, 'meson.build'), 'w').write(text)
            r = subprocess.run([sys.executable, os.path.join(repo, 'meson.py'), 'setup', build, src], capture_output=True, text=True, env=dict(os.environ, NINJA=stub_ninja(d)))
            if r.returncode != 0:
                fails.append({'case': {'generator_seed': seed}, 'stage': 'argv-e2e', 'detail': 'setup failed: ' + (r.stdout + r.stderr)[-300:]})
                continue
            cmds = commands_of(build)
            tests = {t['name']: t['cmd'] for t in json.load(open(os.path.join(build, 'meson-info', 'intro-tests.json')))}
            for i, mode, args in items:
                nt += 1
                case = {'generator_seed': seed, 'index': i, 'mode': mode, 'args': args}
                try:
                    if mode == 'test':
                        got = tests[f't{i}'][3:]
                        exp = list(args)
                    else:
                        key = f'o{i}.out' if mode != 'run' else next((k for k in cmds if k.split('/')[-1] in (f'r{i}', f'meson-internal__r{i}', f'meson-r{i}')), None)
                        if key is None or key not in cmds:
                            fails.append({'case': case, 'stage': 'argv-e2e', 'detail': f'no COMMAND found for item {i} ({mode}) among {sorted(cmds)[:6]}'})
                            continue
                        argv = argv_of(cmds[key], build, repo)
                        if argv[1:3] != ['-c', 'pass']:
                            fails.append({'case': case, 'stage': 'argv-e2e', 'detail': f'unexpected command shape {argv[:4]!r}'})
                            continue
                        got = argv[3:]
                        exp = [a.replace('\\', '/') for a in args]
                except Exception as ex:
                    fails.append({'case': case, 'stage': 'argv-e2e', 'detail': f'the command cannot be read back: {type(ex).__name__}: {ex}'})
                    continue
                if got != exp:
                    fails.append({'case': case, 'stage': 'argv-e2e', 'detail': f'{mode}: the process would receive {got!r}, the build definition gives {exp!r}'})
        finally:
            shutil.rmtree(d, ignore_errors=True)
    return len(chunk), nt, fails


def run(REG, tier, seed, jobs):
    n = 32 if tier == 'quick' else 600
    seeds = [seed * 7919 + i for i in range(n)]
    ev, nt, fails = pmap(_argv_chunk, chunked(iter(seeds), 2), jobs)
    return {'parts': [{'name': 'C03/bounded/argv-end-to-end-through-meson-setup', 'function': 'meson setup (ninja back end, stub ninja): custom_target / run_target / test commands',
                       'bound': f'{n} generated projects x 24 commands: 1-3 arguments over {len(ARGS)} strings (blanks, quotes, $, #, ;, globs, backslashes, non-ASCII, tab, newline, ...) in 6 modes (plain, capture, env, feed, run_target, test)',
                       'evaluations': ev, 'distinct_nontrivial': nt, 'rule': 'every command', 'exhaustive': False, 'failures': fails}]}


CHECKS = {'C03/bounded/argv-end-to-end-through-meson-setup': (_argv_chunk, lambda c: c['generator_seed'])}
