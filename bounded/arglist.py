"""C13 bounded stand-ins (native): operation histories on the real CLikeCompilerArgs against an eager reference list
(the statement's meaning), and lemma L13 (the lazy representation's abstraction function commutes with the eager
meaning of +=) checked exhaustively on the spec functions.  Labelled bounded; never counted as proved."""
import itertools, random
from bounded.util import chunked, pmap

ALPHA = ['-Ia', '-Dx', '-lfoo', 'x.c', '/abs/libz.a', '/abs/hdr.h', '-Ib', '-pthread', '-L/q']      # '/abs/hdr.h': an absolute path that is NOT a library (never de-duplicated)


def _cls():
    from mesonbuild.compilers.mixins.clike import CLikeCompilerArgs
    return CLikeCompilerArgs


def eager_iadd(L, batch, ovr, uniq, prep):
    """the statement's eager meaning of `L += batch`"""
    P, Q = [], []
    for a in batch:
        if uniq(a) and (a in L or a in P or a in Q):
            continue
        (P if prep(a) else Q).append(a)
    ov = {a for a in P + Q if ovr(a)}
    P2 = [a for i, a in enumerate(P) if not (a in ov and a in P[:i])]
    Q2 = [a for i, a in enumerate(Q) if not (a in ov and a in Q[i + 1:])]
    return P2 + [x for x in L if x not in ov] + Q2


def classifiers():
    import mesonbuild.arglist as AL
    C = _cls()
    return (lambda a: C._can_dedup(a) is AL.Dedup.OVERRIDDEN, lambda a: C._can_dedup(a) is AL.Dedup.UNIQUE, lambda a: C._should_prepend(a))


def apply_ops(ops):
    """run a history on the real class and on the eager model; return (real list, model list)"""
    import os.path
    C = _cls()
    ovr, uniq, prep = classifiers()
    real = C(None)
    model = []
    for op in ops:
        k = op[0]
        if k == 'iadd':
            real += list(op[1])
            model = eager_iadd(model, list(op[1]), ovr, uniq, prep)
        elif k == 'append':
            real.append(op[1])
            model = eager_iadd(model, [op[1]], ovr, uniq, prep)
        elif k == 'extend':
            real.extend(list(op[1]))
            model = eager_iadd(model, list(op[1]), ovr, uniq, prep)
        elif k == 'extend_direct':
            real.extend_direct(list(op[1]))
            for a in op[1]:
                model = eager_iadd(model, [a], ovr, uniq, prep) if os.path.isabs(a) else model + [a]
        elif k == 'epl':
            # extend_preserving_lflags: the -l / -L words outside the class's always-dedup table are appended verbatim, after the rest
            real.extend_preserving_lflags(list(op[1]))
            lf = [a for a in op[1] if a not in C.always_dedup_args and (a.startswith('-l') or a.startswith('-L'))]
            model = eager_iadd(model, [a for a in op[1] if a not in lf], ovr, uniq, prep)
            for a in lf:
                model = eager_iadd(model, [a], ovr, uniq, prep) if os.path.isabs(a) else model + [a]
        elif k == 'append_direct':
            real.append_direct(op[1])
            model = eager_iadd(model, [op[1]], ovr, uniq, prep) if os.path.isabs(op[1]) else model + [op[1]]
        elif k == 'insert':
            i = min(op[1], len(model))
            real.insert(i, op[2])
            model = model[:i] + [op[2]] + model[i:]
        elif k == 'copy':
            real = real.copy()
        elif k == 'read':
            if list(real) != model:
                return list(real), model
        elif k == 'radd':
            # `words + args`: a new list of the plain words as given, to which the whole list is added as one increment
            real = list(op[1]) + real
            model = eager_iadd(list(op[1]), model, ovr, uniq, prep)
        elif k == 'add':
            real = real + list(op[1])
            model = eager_iadd(model, list(op[1]), ovr, uniq, prep)
    return list(real), model


def _hist_chunk(chunk):
    fails, nt = [], 0
    for ops in chunk:
        got, exp = apply_ops(ops)
        if len(exp) != len(set(exp)) or len(exp) >= 3:
            nt += 1
        if got != exp:
            fails.append({'case': {'ops': [list(map(lambda x: list(x) if isinstance(x, tuple) else x, o)) for o in ops]}, 'stage': 'history',
                          'detail': f'real list {got!r}, eager meaning {exp!r}'})
    return len(chunk), nt, fails


def op_alphabet(alpha):
    ops = []
    for a in alpha:
        ops += [('append', a), ('append_direct', a)]
    for b in itertools.product(alpha, repeat=2):
        ops += [('iadd', b), ('extend_direct', b)]
    # batches of three in which prepend-type arguments are separated by something else (the batch is ONE increment)
    for b in itertools.product(['-Ia', '-Dx', '-Ib', 'x.c'], repeat=3):
        if len(set(b)) == 3:
            ops.append(('iadd', b))
    for b in itertools.product(['-lfoo', '-lm', '-L/q', 'x.c'], repeat=2):       # '-lm' is in the C-like always-dedup table
        ops.append(('epl', b))
    for a in alpha:
        ops.append(('radd', (a,)))
    ops += [('radd', ('-Ia', '-Dx')), ('radd', ('-lfoo', 'x.c'))]
    ops += [('copy',), ('read',)]
    ops += [('insert', 0, alpha[0]), ('insert', 1, alpha[2])]
    return ops


def _l13_chunk(chunk):
    import specs.arglist as S
    S._CLS[0] = _cls()
    ovr, uniq, prep = classifiers()
    fails, nt = [], 0
    for c, pre, post, flag, batch in chunk:
        if (flag is False and any(ovr(a) for a in pre + post)) or any(not prep(a) for a in pre) or any(prep(a) for a in post):
            continue          # unreachable representation: pending override-type arguments always set the flag,
                              # pre holds only prepend-kind arguments and post none
        n = len(batch)
        lhs = S.view(c, tuple(reversed(S.Pr(c, pre, post, batch, n))) + pre, S.Qs(c, pre, post, batch, n), flag or S.anyovr(batch, n))
        rhs = tuple(eager_iadd(list(S.view(c, pre, post, flag)), list(batch), ovr, uniq, prep))
        nt += 1
        if tuple(lhs) != rhs:
            fails.append({'case': {'c': c, 'pre': pre, 'post': post, 'flag': flag, 'batch': batch}, 'stage': 'L13', 'detail': f'view after lazy += is {lhs!r}, eager meaning {rhs!r}'})
    return len(chunk), nt, fails


# the kind of an argument of a C-like command line, written from the statement: -I / -L go to the front and are override-type
# (front-most wins); -D / -U / -isystem are override-type (last wins); -lfoo, a library FILE (static, shared, import; a shared
# library with a version suffix, whatever directory it is in), -pthread and the like are once-only; a bare prefix (`-I` followed by
# its value as the next word) is never touched, nor is anything else
KINDS = {
    'override-front': ['-Ia', '-I/x y', '-L/q', '-L.'],
    'override-last': ['-Dx=1', '-DX', '-Ux', '-isystem/usr/include'],
    'once': ['-lfoo', '-Wl,-lfoo', '/abs/libz.a', 'libz.a', 'libz.so', '/d/libz.so', '/d/libz.so.1', 'libz.so.1.2.3', '/usr/lib/x86_64/libz.so.1.2', 'd\\libz.so.4',
             'x.dll', 'x.lib', '/d/y.dylib', '-pthread', '-Wl,-rpath,/x', '-Wl,-rpath-link,/y', '-Wl,--export-dynamic', '-pipe'],
    'front-kept': ['-I', '-L'],        # a bare -I / -L (value in the next word): goes to the front like every -I / -L, never dropped
    'none': ['-D', '-U', '-isystem', '-l', 'x.c', '-O2', '-Wall', 'main.o', '-o', '-include', 'libz.so.1.2.3.4', '-Wl,--as-needed'],
}


def _kind_chunk(chunk):
    C = _cls()
    fails, nt = [], 0
    for kind, a in chunk:
        nt += 1
        for other in ('x.c', '-O2'):
            r = C(None)
            r += [a]
            r += [other]
            r += [a]
            got = list(r)
            want = {'override-front': [a, other], 'override-last': [other, a], 'once': [a, other], 'none': [a, other, a], 'front-kept': [a, a, other]}[kind]
            if got != want:
                fails.append({'case': {'kind': kind, 'argument': a, 'between': other}, 'stage': 'kind', 'detail': f'adding {a!r}, {other!r}, {a!r} in three increments gives {got!r}; the statement prescribes {want!r} for a {kind} argument'})
                break
    return len(chunk), nt, fails


def _classes_chunk(chunk):
    """two lists of DIFFERENT classes in one process are given the identical argument string; what each does with it depends on its
    own class only (a plain CompilerArgs — static linker, rustc ... — has no prepend / override arguments, and only library files are once-only)"""
    import mesonbuild.arglist as AL
    C, P = _cls(), AL.CompilerArgs
    fails, nt = [], 0
    for kind, a, order in chunk:
        nt += 1
        want_c = {'override-front': [a, 'x.c'], 'override-last': ['x.c', a], 'once': ['x.c', a]}[kind]
        # (a library FILE is once-only for every class — the statement's "library file" — everything else is unclassified for a plain list)
        want_p = ['x.c', a] if a.startswith('/') else ['x.c', a, a]
        got = {}
        for which in order:
            r = (C if which == 'clike' else P)(None)
            r += ['x.c']
            r += [a]
            r += [a]
            got[which] = list(r)
        if got['clike'] != want_c or got['plain'] != want_p:
            fails.append({'case': {'kind': kind, 'argument': a, 'order': list(order)}, 'stage': 'classes',
                          'detail': f'lists built in the order {list(order)}: the C-like list gives {got["clike"]!r} (statement: {want_c!r}), the plain list gives {got["plain"]!r} (a plain list classifies library files only: {want_p!r})'})
    return len(chunk), nt, fails


def _native_chunk(chunk):
    """to_native() is a READ: with the real gcc compiler object (GNU-like linker, default include directories) it returns the command-line
    form of the list — group markers around the libraries, default -isystem directories dropped — and leaves the list as it was: reading
    twice gives the same answer, and what is read afterwards is what was added (nothing invented, nothing lost)"""
    import argparse, shutil, tempfile, sys as _sys, os as _os
    _sys.path.insert(0, _os.environ.get('VERIF_REPO', '/repo'))
    from mesonbuild import environment
    from mesonbuild.msetup import add_arguments
    from mesonbuild.compilers.detect import detect_c_compiler
    from mesonbuild.mesonlib import MachineChoice
    fails, nt = [], 0
    d = tempfile.mkdtemp(prefix='c13nat')
    try:
        p = argparse.ArgumentParser()
        add_arguments(p)
        env = environment.Environment(d, d, p.parse_args([d, d]))
        cc = detect_c_compiler(env, MachineChoice.HOST)
        dflt = list(cc.get_default_include_dirs())
        for args in chunk:
            args = [a.replace('@DEFAULT@', dflt[0] if dflt else '/usr/include') for a in args]
            for copy in (False, True):
                a = cc.compiler_args(list(args))
                before = list(a)
                n1 = a.to_native(copy=copy)
                mid = list(a)
                n2 = a.to_native(copy=copy)
                nt += 1
                case = {'arguments': args, 'copy': copy}
                if mid != before:
                    fails.append({'case': case, 'stage': 'native', 'detail': f'reading with to_native(copy={copy}) changed the list: {before!r} became {mid!r}'})
                elif n1 != n2:
                    fails.append({'case': case, 'stage': 'native', 'detail': f'two consecutive to_native(copy={copy}) calls answer {n1!r} and then {n2!r}'})
                elif [x for x in n1 if x not in ('-Wl,--start-group', '-Wl,--end-group')] != [x for i, x in enumerate(before) if not _dropped(before, i, dflt)]:
                    fails.append({'case': case, 'stage': 'native', 'detail': f'to_native gives {n1!r} for the list {before!r}: apart from the group markers and default -isystem directories nothing may be added, lost or moved'})
    finally:
        shutil.rmtree(d, ignore_errors=True)
    return len(chunk), nt, fails


def _dropped(lst, i, dflt):
    import os
    rd = {os.path.realpath(x) for x in dflt}
    x = lst[i]
    if x == '-isystem':
        return i + 1 < len(lst) and os.path.realpath(lst[i + 1]) in rd
    if i > 0 and lst[i - 1] == '-isystem' and os.path.realpath(x) in rd:
        return True
    if x.startswith('-isystem='):
        return os.path.realpath(x[9:]) in rd
    if x.startswith('-isystem'):
        return os.path.realpath(x[8:]) in rd
    return False


NATIVE_LISTS = [['-O2', '-lfoo', '-lbar'], ['-lfoo'], ['-O2'], ['libx.a', '-DX', 'liby.a', '-lm'], ['-isystem@DEFAULT@', '-lfoo', '-lbar'], ['-isystem', '@DEFAULT@', '-Iinc'],
                ['-isystem=@DEFAULT@', '-isystem/opt/not-default', '-la', '-lb', '-lc'], ['-Wl,-lfoo', '-Wl,-lbar', '-pthread'], []]


def run(REG, tier, seed, jobs):
    parts = []
    ev, nt, fails = pmap(_native_chunk, chunked(iter(NATIVE_LISTS), len(NATIVE_LISTS)), 1)
    parts.append({'name': 'C13/bounded/to_native-is-a-read', 'function': 'CLikeCompilerArgs.to_native (real gcc compiler object: GNU-like linker, default include directories)',
                  'bound': f'{len(NATIVE_LISTS)} argument lists (several libraries, one library, none; default -isystem directories in three spellings) x copy=False / True: the list is unchanged by the read, two reads agree, nothing but group markers is added and nothing but default -isystem directories is dropped',
                  'evaluations': ev, 'distinct_nontrivial': nt, 'rule': 'every list', 'exhaustive': True, 'failures': fails})
    cc, n_ = [], 0
    for order in (('plain', 'clike'), ('clike', 'plain')):
        for kind, tmpl in (('override-front', '-I/u{}'), ('override-front', '-L/u{}'), ('override-last', '-DU{}=1'), ('override-last', '-isystem/u{}'), ('once', '-lu{}'), ('once', '/abs/libu{}.a'), ('once', '/d/libu{}.so.1')):
            n_ += 1
            cc.append((kind, tmpl.format(n_), order))        # a fresh argument string per case: no case sees a cache entry of another
    ev, nt, fails = pmap(_classes_chunk, chunked(iter(cc), 1), jobs)
    parts.append({'name': 'C13/bounded/lists-of-different-classes-in-one-process', 'function': 'CompilerArgs._should_prepend / _can_dedup (per-class classification)',
                  'bound': f'{len(cc)} cases: an argument of each classified kind given to a plain CompilerArgs and to a CLikeCompilerArgs in the same process, in both orders',
                  'evaluations': ev, 'distinct_nontrivial': nt, 'rule': 'every case', 'exhaustive': True, 'failures': fails})
    kc = [(k, a) for k, xs in KINDS.items() for a in xs]
    ev, nt, fails = pmap(_kind_chunk, chunked(iter(kc), 8), jobs)
    parts.append({'name': 'C13/bounded/argument-kinds-vs-statement', 'function': 'CLikeCompilerArgs (+= three times, then read): _can_dedup / _should_prepend tables and patterns',
                  'bound': f'{len(kc)} arguments whose kind the statement fixes (-I/-L; -D/-U/-isystem; -l, library files with and without directories and version suffixes, -pthread ...; bare prefixes and ordinary words), each added, followed by another word, and added again',
                  'evaluations': ev, 'distinct_nontrivial': nt, 'rule': 'every argument', 'exhaustive': True, 'failures': fails})
    rnd = random.Random(seed)
    alpha = ALPHA[:6] if tier == 'quick' else ALPHA
    ops = op_alphabet(alpha)
    L = 3
    hist = itertools.product(ops, repeat=L)
    total = len(ops) ** L
    if tier == 'quick' and total > 120000:
        hist = (tuple(rnd.choice(ops) for _ in range(rnd.randint(2, 5))) + (('read',),) for _ in range(120000))
    else:
        hist = (h + (('read',),) for h in hist)
    ev, nt, fails = pmap(_hist_chunk, chunked(hist, 4000), jobs)
    parts.append({'name': 'C13/bounded/histories-vs-eager-meaning', 'function': 'CompilerArgs', 'bound': f'operation histories of length <= {L if tier != "quick" else 5} over {len(ops)} operations on arguments {alpha!r} ({"random sample of 120000" if tier == "quick" and total > 120000 else "exhaustive"}), read back after the last step',
                  'evaluations': ev, 'distinct_nontrivial': nt, 'rule': 'non-trivial: the final list has >= 3 elements or a repeated element', 'exhaustive': not (tier == 'quick' and total > 120000), 'failures': fails})
    a2 = ['-Ia', '-Dx', '-lfoo', 'x.c']
    N = 4 if tier == 'quick' else 5

    def states():
        for lc, lp, lq, lb in itertools.product(range(N + 1), repeat=4):
            if lc + lp + lq + lb > N:
                continue
            for c in itertools.product(a2, repeat=lc):
                for pre in itertools.product(a2, repeat=lp):
                    for post in itertools.product(a2, repeat=lq):
                        for batch in itertools.product(a2, repeat=lb):
                            for flag in (False, True):
                                yield (c, pre, post, flag, batch)
    ev, nt, fails = pmap(_l13_chunk, chunked(states(), 5000), jobs)
    parts.append({'name': 'C13/bounded/L13-view-commutes-with-eager-iadd', 'function': 'spec: view / Qs / Pr vs eager_iadd', 'bound': f'all (container, pre, post, flag, batch) of total length <= {N} over {a2!r}',
                  'evaluations': ev, 'distinct_nontrivial': nt, 'rule': 'non-trivial: reachable representations (flag set whenever an override-type argument is pending, pre holds only prepend-kind arguments, post none)', 'exhaustive': True, 'failures': fails})
    return {'parts': parts}


CHECKS = {'C13/bounded/argument-kinds-vs-statement': (_kind_chunk, lambda c: (c['kind'], c['argument'])),
          
    'C13/bounded/histories-vs-eager-meaning': (_hist_chunk, lambda c: tuple(tuple(tuple(x) if isinstance(x, list) else x for x in o) for o in c['ops'])),
    'C13/bounded/L13-view-commutes-with-eager-iadd': (_l13_chunk, lambda c: (tuple(c['c']), tuple(c['pre']), tuple(c['post']), c['flag'], tuple(c['batch']))),
}
