"""C04 / C06 bounded stand-ins (native): build statements added to the real NinjaBuild — a path produced by two
statements is never written; every non-phony statement is bound to a defined rule; the dependency segments of a
written statement do not depend on set iteration order."""
import io, itertools, os, subprocess, sys
from bounded.util import chunked, pmap


def mk():
    from mesonbuild.backend import ninjabackend as nb
    b = nb.NinjaBuild()
    r = nb.NinjaRule('R', ['cc', '$in'], [], 'desc')
    b.add_rule(r)
    return nb, b


def _dup_chunk(chunk):
    from mesonbuild.utils.core import MesonException
    fails, nt = [], 0
    for spec in chunk:
        nb, b = mk()
        all_outputs = set()
        prod = {}
        for rule, outs in spec:
            e = nb.NinjaBuildElement(all_outputs, list(outs), rule, ['in.c'])
            b.add_build(e)
            for o in outs:
                prod[o] = prod.get(o, 0) + 1
        dup = any(v > 1 for v in prod.values())
        nt += dup
        f = io.StringIO()
        try:
            for e in b.build_elements:
                e.write(f)
            wrote = True
        except MesonException:
            wrote = False
        except Exception as ex:
            fails.append({'case': {'statements': [[r, list(o)] for r, o in spec]}, 'stage': 'write', 'detail': f'{type(ex).__name__}: {ex}'})
            continue
        if dup and wrote:
            fails.append({'case': {'statements': [[r, list(o)] for r, o in spec]}, 'stage': 'duplicate-output', 'detail': 'a path produced by two statements was written into the manifest: ' + repr(sorted(k for k, v in prod.items() if v > 1))})
        if not dup and not wrote:
            fails.append({'case': {'statements': [[r, list(o)] for r, o in spec]}, 'stage': 'duplicate-output', 'detail': 'collision-free statements were rejected'})
        for e in b.build_elements:
            if e.rulename != 'phony' and e.rule is None:
                fails.append({'case': {'statements': [[r, list(o)] for r, o in spec]}, 'stage': 'rule', 'detail': 'a non-phony statement is not bound to its rule'})
    return len(chunk), nt, fails


def _rules_chunk(chunk):
    """the whole manifest written by the real NinjaBuild.write: every rule a build statement names (the _RSP flavour
    included) is defined, exactly once"""
    import re
    fails, nt = [], 0
    from mesonbuild.backend import ninjabackend as nb
    old = nb.rsp_threshold
    try:
        for spec in chunk:
            nb.rsp_threshold = 200
            b = nb.NinjaBuild()
            for rn in ('R', 'S'):
                b.add_rule(nb.NinjaRule(rn, ['tool'], nb.NinjaCommandArg.list(['$ARGS', '$in'], nb.Quoting.none), 'desc', rspable=True))
            b.add_rule(nb.NinjaRule('PLAIN', ['cp', '$in', '$out'], [], 'desc'))
            outs = set()
            for i, (rn, long_) in enumerate(spec):
                e = nb.NinjaBuildElement(outs, f'o{i}', rn, 'in.c')
                if rn != 'PLAIN':
                    e.add_item('ARGS', ['-DX' + 'y' * (400 if long_ else 3)])
                b.add_build(e)
            f = io.StringIO()
            nt += 1
            try:
                b.write(f)
            except Exception as ex:
                fails.append({'case': {'statements': [list(x) for x in spec]}, 'stage': 'rules', 'detail': f'{type(ex).__name__}: {ex}'})
                continue
            text = f.getvalue()
            defined = re.findall(r'^rule (\S+)', text, re.M)
            used = re.findall(r'^build [^:]*: (\S+)', text, re.M)
            for u in used:
                if u != 'phony' and u not in defined:
                    fails.append({'case': {'statements': [list(x) for x in spec]}, 'stage': 'rules', 'detail': f'a build statement uses rule {u!r}, which the manifest does not define (defined: {sorted(set(defined))})'})
                    break
            if len(defined) != len(set(defined)):
                fails.append({'case': {'statements': [list(x) for x in spec]}, 'stage': 'rules', 'detail': f'a rule is defined twice: {sorted(defined)}'})
    finally:
        nb.rsp_threshold = old
    return len(chunk), nt, fails


_SEED_PROG = r'''
import io, sys
sys.path.insert(0, sys.argv[1])
from mesonbuild.backend import ninjabackend as nb
names = sys.argv[2].split(',')
e = nb.NinjaBuildElement(set(), ['out'], 'phony', ['in'])
e.add_dep(list(names)); e.add_orderdep(list(reversed(names)))
f = io.StringIO(); e.write(f); sys.stdout.write(f.getvalue())
'''


_HELPER_PROG = r'''
import sys
sys.path.insert(0, sys.argv[1])
from mesonbuild.utils.universal import OrderedSet
names = sys.argv[2].split(',')
s = OrderedSet(names)
out = []
out.append(list(s.difference({names[0]})))
out.append(list(s.difference(set(names[::2]))))
out.append(list(s.difference(names[1::2])))
t = OrderedSet(names); t.difference_update(set(names[1::2])); out.append(list(t))
t = OrderedSet(reversed(names)); t.update(names); out.append(list(t))
t = OrderedSet(names); t.discard(names[-1]); t.add(names[-1]); out.append(list(t))
out.append(list(reversed(OrderedSet(names))))
sys.stdout.write(repr(out))
'''


def _helper_chunk(chunk):
    """the order-preserving container the generators rely on (OrderedSet): every operation yields the insertion order,
    under every PYTHONHASHSEED"""
    fails, nt = [], 0
    repo = os.environ.get('VERIF_REPO', '/repo')
    for names in chunk:
        names = list(names)
        uniq = list(dict.fromkeys(names))
        exp = [[x for x in uniq if x != names[0]], [x for x in uniq if x not in set(names[::2])], [x for x in uniq if x not in names[1::2]],
               [x for x in uniq if x not in set(names[1::2])], list(dict.fromkeys(list(reversed(names)) + names)),
               [x for x in uniq if x != names[-1]] + [names[-1]], list(reversed(uniq))]
        for seed in ('0', '1', '2', '3', '7', '11'):
            env = dict(os.environ, PYTHONHASHSEED=seed)
            r = subprocess.run([sys.executable, '-c', _HELPER_PROG, repo, ','.join(names)], capture_output=True, text=True, env=env)
            got = r.stdout if r.returncode == 0 else 'ERR ' + r.stderr[-200:]
            if got != repr(exp):
                fails.append({'case': {'names': names}, 'stage': 'hash-seed', 'detail': f'under PYTHONHASHSEED={seed} the OrderedSet operations yield {got[:200]}, insertion order gives {repr(exp)[:200]}'})
                break
        nt += 1
    return len(chunk) * 6, nt, fails


def _order_chunk(chunk):
    """the same statement rendered under different PYTHONHASHSEED values is byte-identical"""
    fails, nt = [], 0
    repo = os.environ.get('VERIF_REPO', '/repo')
    for names in chunk:
        outs = set()
        for seed in ('0', '1', '2', '3', '7', '11'):
            env = dict(os.environ, PYTHONHASHSEED=seed)
            r = subprocess.run([sys.executable, '-c', _SEED_PROG, repo, ','.join(names)], capture_output=True, text=True, env=env)
            outs.add(r.stdout if r.returncode == 0 else 'ERR ' + r.stderr[-200:])
        nt += 1
        if len(outs) != 1:
            fails.append({'case': {'deps': list(names)}, 'stage': 'hash-seed', 'detail': f'{len(outs)} different texts for one statement under 6 hash seeds'})
    return len(chunk) * 6, nt, fails


def run(REG, tier, seed, jobs):
    parts = []
    outsets = [('a',), ('b',), ('a', 'b'), ('c',), ('a', 'a')]
    stmts = [(r, o) for r in ('R', 'phony') for o in outsets]
    k = 3
    specs = itertools.chain.from_iterable(itertools.product(stmts, repeat=j) for j in range(1, k + 1))
    ev, nt, fails = pmap(_dup_chunk, chunked(specs, 100), jobs)
    parts.append({'name': 'C04/bounded/no-path-produced-twice', 'function': 'NinjaBuild.add_build / NinjaBuildElement.check_outputs / write', 'bound': f'all sequences of <= {k} build statements over {len(stmts)} statement shapes (rule R or phony x output lists over a,b,c)',
                  'evaluations': ev, 'distinct_nontrivial': nt, 'rule': 'non-trivial: some path has two producers', 'exhaustive': True, 'failures': fails})
    shapes = [(r, l) for r in ('R', 'S') for l in (False, True)] + [('PLAIN', False)]
    specs = list(itertools.chain.from_iterable(itertools.product(shapes, repeat=j) for j in range(1, 5)))
    ev, nt, fails = pmap(_rules_chunk, chunked(iter(specs), 60), jobs)
    parts.append({'name': 'C04/bounded/every-statement-uses-a-defined-rule', 'function': 'NinjaBuild.write / NinjaRule.write / count_rule_references', 'bound': f'{len(specs)} manifests: all sequences of <= 4 build statements over 2 response-file-capable rules (short or long command line) and a plain rule',
                  'evaluations': ev, 'distinct_nontrivial': nt, 'rule': 'every manifest', 'exhaustive': True, 'failures': fails})
    return {'parts': parts}


BLK = 65536


def _content(spec):
    """('k', n): n bytes of the repeating pattern; ('k', n, tail): the same followed by tail"""
    base = (b'0123456789abcdef' * (spec[1] // 16 + 1))[:spec[1]]
    return base + (spec[2].encode() if len(spec) > 2 else b'')


def _rid_chunk(chunk):
    """replace_if_different on real files: afterwards dst holds the NEW content whatever it held before (history
    independence), the temporary is gone, and an unchanged dst is not touched (same inode and mtime)"""
    import os, tempfile
    from mesonbuild.utils.universal import replace_if_different
    fails, nt = [], 0
    for old, new in chunk:
        with tempfile.TemporaryDirectory() as d:
            dst, tmp = os.path.join(d, 'out'), os.path.join(d, 'out~')
            if old is not None:
                open(dst, 'wb').write(_content(old))
                os.utime(dst, ns=(10**18, 10**18))
                st0 = os.stat(dst)
            newc = _content(new)
            open(tmp, 'wb').write(newc)
            nt += old is not None and _content(old) != newc
            try:
                replace_if_different(dst, tmp)
            except Exception as ex:
                fails.append({'case': {'old': old, 'new': new}, 'detail': f'raised {type(ex).__name__}: {ex}'})
                continue
            got = open(dst, 'rb').read() if os.path.exists(dst) else None
            if got != newc:
                fails.append({'case': {'old': old, 'new': new}, 'detail': f'destination holds {None if got is None else len(got)} bytes (stale) instead of the {len(newc)} newly generated bytes'})
            if os.path.exists(tmp):
                fails.append({'case': {'old': old, 'new': new}, 'detail': 'the temporary file was left behind'})
            if old is not None and _content(old) == newc:
                st1 = os.stat(dst)
                if (st1.st_ino, st1.st_mtime_ns) != (st0.st_ino, st0.st_mtime_ns):
                    fails.append({'case': {'old': old, 'new': new}, 'detail': 'an unchanged output was touched (inode or mtime changed)'})
    return len(chunk), nt, fails


def run_c06(REG, tier, seed, jobs):
    parts = []
    hsets = [('-DNDEBUG', '-I/usr/include', '-D_GNU_SOURCE', '-DA', '-Wall', '-fPIC'), ('/usr/bin', '/bin', '/usr/local/bin', '/opt/x/bin'), ('b', 'a', 'c', 'a', 'd'), ('zeta', 'alpha', 'Beta', 'beta', 'x y')]
    ev, nt, fails = pmap(_helper_chunk, chunked(iter(hsets), 1), min(jobs, len(hsets)))
    parts.append({'name': 'C06/bounded/ordered-set-operations-independent-of-hash-seed', 'function': 'OrderedSet (difference, difference_update, update, discard/add, reversed)', 'bound': f'{len(hsets)} element lists x 7 operations x 6 PYTHONHASHSEED values in fresh interpreters, compared with the insertion order',
                  'evaluations': ev, 'distinct_nontrivial': nt, 'rule': 'every list', 'exhaustive': True, 'failures': fails})
    sizes = [0, 1, 15, 16, 17, BLK - 1, BLK, BLK + 1, 2 * BLK, 4096, 8192, 131072 + 5]
    if tier != 'quick':
        sizes += [1 << k for k in range(9, 21)] + [3 * BLK, 1000, 1000000]
    conts = [('k', n) for n in sizes] + [('k', n, 'X') for n in sizes[:9]]
    pairs = [(o, n) for o in [None] + conts for n in conts]
    ev, nt, fails = pmap(_rid_chunk, chunked(iter(pairs), 40), jobs)
    parts.append({'name': 'C06/bounded/replace_if_different-on-real-files', 'function': 'replace_if_different', 'bound': f'{len(pairs)} (previous content | absent, new content) pairs; lengths {sizes} incl. prefixes of one another and block multiples',
                  'evaluations': ev, 'distinct_nontrivial': nt, 'rule': 'non-trivial: the destination exists with a different content', 'exhaustive': True, 'failures': fails})
    namesets = [('b', 'a', 'c'), ('x/Config.h', 'x/config.h', 'y'), ('libFoo.a', 'libfoo.a'), ('a b', 'a$b', 'A'), ('Z', 'z', 'ab', 'aB', 'Ab')]
    ev, nt, fails = pmap(_order_chunk, chunked(iter(namesets), 1), min(jobs, len(namesets)))
    parts.append({'name': 'C06/bounded/deps-text-independent-of-hash-seed', 'function': 'NinjaBuildElement.write', 'bound': f'{len(namesets)} dependency sets (case-colliding names included) x 6 PYTHONHASHSEED values in fresh interpreters',
                  'evaluations': ev, 'distinct_nontrivial': nt, 'rule': 'every set', 'exhaustive': True, 'failures': fails})
    return {'parts': parts}


CHECKS = {
    'C06/bounded/ordered-set-operations-independent-of-hash-seed': (_helper_chunk, lambda c: tuple(c['names'])),
    'C04/bounded/every-statement-uses-a-defined-rule': (_rules_chunk, lambda c: tuple(tuple(x) for x in c['statements'])),
    'C06/bounded/replace_if_different-on-real-files': (_rid_chunk, lambda c: (None if c['old'] is None else tuple(c['old']), tuple(c['new']))),
    'C04/bounded/no-path-produced-twice': (_dup_chunk, lambda c: tuple((r, tuple(o)) for r, o in c['statements'])),
    'C06/bounded/deps-text-independent-of-hash-seed': (_order_chunk, lambda c: tuple(c['deps'])),
}
