"""C20 bounded stand-ins (native): SemVer string tokenisation against a SemVer-2.0.0 grammar parser,
requirement acceptance against the Cargo rule (spec functions of specs/cargo.py run natively),
cfg lexer/parser/evaluator against an independent reference.  Labelled bounded; never counted as proved."""
import itertools, operator, random, re
from bounded.util import strings, chunked, pmap

_NUM = re.compile(r'0|[1-9][0-9]*\Z')


def spec_semver(s):
    """(vec, specified_count) per SemVer 2.0.0 (partial versions M, M.m allowed, as in Cargo requirements);
    None if s is not of that form.  Hand-written descent, independent of the repository's regex."""
    core, plus, build = s.partition('+')
    if plus and (not build or any(not p or not all(c.isalnum() and c.isascii() or c == '-' for c in p) for p in build.split('.'))):
        return None
    rel, dash, pre = core.partition('-')
    nums = rel.split('.')
    if not (1 <= len(nums) <= 3) or any(not n.isdigit() or not n.isascii() for n in nums):
        return None
    if any(len(n) > 1 and n[0] == '0' for n in nums):
        return None
    vec = [int(n) for n in nums]
    count = len(vec)
    while len(vec) < 3:
        vec.append(0)
    if dash:
        ids = pre.split('.')
        if any(not i or not all(c.isalnum() and c.isascii() or c == '-' for c in i) for i in ids):
            return None
        out = []
        for i in ids:
            if i.isdigit():
                if len(i) > 1 and i[0] == '0':
                    return None
                out.append(int(i))
            else:
                out.append(i)
        return vec + [-1] + out, count
    return vec + [0], count


def _sv_chunk(chunk):
    from mesonbuild.cargo.version import SemVer
    fails, nt = [], 0
    for s in chunk:
        sp = spec_semver(s)
        if sp is None:
            continue
        nt += 1
        v = SemVer(s)
        if list(v._v) != sp[0] or [type(a) for a in v._v] != [type(a) for a in sp[0]] or v.specified_count != sp[1]:
            fails.append({'case': {'s': s}, 'stage': 'tokenise', 'detail': f'SemVer({s!r})._v == {v._v!r} count {v.specified_count}; SemVer grammar gives {sp[0]!r} count {sp[1]}'})
    return len(chunk), nt, fails


def _order_chunk(chunk):
    from mesonbuild.cargo.version import SemVer
    from specs.cargo import scmp
    fails, nt = [], 0
    for a, b in chunk:
        sa, sb = spec_semver(a), spec_semver(b)
        c = scmp(tuple(sa[0]), tuple(sb[0]), 0)
        va, vb = SemVer(a), SemVer(b)
        try:
            got = -1 if va < vb else (1 if va > vb else 0)
            if (va == vb) != (got == 0) or (va <= vb) != (got <= 0) or (va >= vb) != (got >= 0):
                fails.append({'case': {'a': a, 'b': b}, 'stage': 'order', 'detail': 'comparison operators mutually inconsistent'})
        except TypeError as ex:
            fails.append({'case': {'a': a, 'b': b}, 'stage': 'order', 'detail': f'TypeError: {ex}'})
            continue
        nt += c != 0
        if got != c:
            fails.append({'case': {'a': a, 'b': b}, 'stage': 'order', 'detail': f'SemVer order gives {got}, SemVer section 11 gives {c}'})
    return len(chunk), nt, fails


def spec_accepts(req, ver):
    """Cargo's rule through the spec functions, with the grammar tokeniser in place of the uninterpreted one"""
    from specs.cargo import classify, bounds, all_bounds, scmp
    items = []
    r = req.strip()
    if r:
        for part in r.split(','):
            items.extend(classify(part.strip()))
    xv = spec_semver(ver)
    if xv is None:
        return None
    x = tuple(xv[0])
    anyp = False
    ok = True
    for op, v in items:
        sv = spec_semver(v)
        if sv is None:
            return None
        anyp = anyp or sv[0][3] == -1
        bs = bounds(op, tuple(sv[0]), sv[1])
        ok = ok and all_bounds(bs, len(bs), x)
    return (not (x[3] == -1 and not anyp)) and ok


def _acc_chunk(chunk):
    from mesonbuild.cargo.version import cargo_parse
    fails, nt = [], 0
    for req, ver in chunk:
        exp = spec_accepts(req, ver)
        if exp is None:
            continue
        try:
            got = cargo_parse(req)(ver)
        except Exception as ex:
            fails.append({'case': {'req': req, 'ver': ver}, 'stage': 'accept', 'detail': f'{type(ex).__name__}: {ex}'})
            continue
        nt += 1
        if got != exp:
            fails.append({'case': {'req': req, 'ver': ver}, 'stage': 'accept', 'detail': f'cargo_parse({req!r})({ver!r}) == {got}, Cargo rule gives {exp}'})
    return len(chunk), nt, fails


def run(REG, tier, seed, jobs):
    parts = []
    rnd = random.Random(seed)
    alpha = ['0', '1', '9', 'a', '-', '.', '+']
    n = 6 if tier == 'quick' else 8
    ev, nt, fails = pmap(_sv_chunk, chunked(strings(alpha, n), 40000), jobs)
    parts.append({'name': 'C20/bounded/SemVer.__init__(str)==SemVer-grammar', 'function': 'SemVer.__init__', 'bound': f'all strings of <= {n} characters over {alpha!r} that the SemVer 2.0.0 grammar (with partial versions) accepts',
                  'evaluations': ev, 'distinct_nontrivial': nt, 'rule': 'non-trivial: grammatical SemVer strings (others are skipped)', 'exhaustive': True, 'failures': fails})
    vs = [s for s in strings(['0', '1', '10', 'a', '-', '.'], 6 if tier == 'quick' else 7) if spec_semver(s) is not None]
    lim = 60000 if tier == 'quick' else 600000
    if len(vs) * len(vs) > lim:
        # sampled without materialising the product (hundreds of millions of pairs in the thorough tier)
        pairs = [(vs[rnd.randrange(len(vs))], vs[rnd.randrange(len(vs))]) for _ in range(lim)]
    else:
        pairs = list(itertools.product(vs, vs))
    ev, nt, fails = pmap(_order_chunk, chunked(iter(pairs), 5000), jobs)
    parts.append({'name': 'C20/bounded/SemVer-order==section-11', 'function': 'SemVer.__cmp', 'bound': f'{len(pairs)} pairs from {len(vs)} grammatical versions built from fragments 0,1,10,a,-,.',
                  'evaluations': ev, 'distinct_nontrivial': nt, 'rule': 'non-trivial: the two versions differ in precedence', 'exhaustive': False, 'failures': fails})
    comps = ['0', '1', '2']
    partial = [c for c in comps] + [f'{a}.{b}' for a in comps for b in comps] + [f'{a}.{b}.{c}' for a in comps for b in comps for c in comps]
    ops = ['', '^', '~', '=', '<', '<=', '>', '>=']
    reqs = ['*', ''] + [o + p for o in ops for p in partial] + [f'{a}.*' for a in comps] + [f'{a}.{b}.*' for a in comps for b in comps] \
        + ['>=1.0.0-a', '>=0.1, <2', '>1.0.0-a, <1.0.0', '^1.2.0-a', '~1', '>= 1, <= 1.1', '<=1.0.0-a', '<=1.2.0-b', '<= 1.2.0-a', '>=0.1, <=1.0.0-a', 'x', 'X', '1.x', '1.X', '1.2.x', '0.X', '2.1.X', '>=1.1, 1.x']
    vers = [f'{a}.{b}.{c}' for a in ['0', '1', '2', '3'] for b in ['0', '1', '2', '3'] for c in ['0', '1', '2', '3']] + ['1.0.0-a', '1.2.0-a', '1.2.0-b', '0.0.0-a', '1.0.0+b', '1.0.0+b-c']
    pairs = list(itertools.product(reqs, vers))
    ev, nt, fails = pmap(_acc_chunk, chunked(iter(pairs), 2000), jobs)
    parts.append({'name': 'C20/bounded/cargo_parse==Cargo-rule', 'function': 'cargo_parse', 'bound': f'{len(reqs)} requirements (every operator x every partial version over components 0..2, wildcards, comma lists, pre-release comparators) x {len(vers)} versions (components 0..3, pre-releases, build metadata)',
                  'evaluations': ev, 'distinct_nontrivial': nt, 'rule': 'non-trivial: both sides grammatical', 'exhaustive': True, 'failures': fails})
    return {'parts': parts}


# ------------------------------------------------------------------------------------------------ cfg()
class Malformed(Exception):
    pass


class Unspecified(Exception):
    pass


def ref_lex(body):
    """tokens of a cfg predicate per the Rust reference: identifiers, "string literals", ( ) , = ; whitespace separates"""
    toks, i, n = [], 0, len(body)
    while i < n:
        c = body[i]
        if c.isspace():
            i += 1
        elif c in '(),=':
            toks.append((c, None))
            i += 1
        elif c == '"':
            j = body.find('"', i + 1)
            if j < 0:
                raise Malformed('unterminated string')
            toks.append(('str', body[i + 1:j]))
            i = j + 1
        elif c.isalpha() or c == '_':
            j = i
            while j < n and (body[j].isalnum() or body[j] == '_'):
                j += 1
            toks.append(('id', body[i:j]))
            i = j
        else:
            raise Malformed(f'bad character {c!r}')
    return toks


def ref_eval(body, cfgs):
    toks = ref_lex(body)
    pos = 0

    def peek():
        return toks[pos] if pos < len(toks) else (None, None)

    def pred():
        nonlocal pos
        k, v = peek()
        if k != 'id':
            raise Malformed('predicate expected')
        pos += 1
        if v in ('all', 'any', 'not'):
            if peek()[0] != '(':
                raise Unspecified('bare all/any/not')
            pos += 1
            args = []
            while peek()[0] != ')':
                args.append(pred())
                if peek()[0] == ',':
                    pos += 1
                    if peek()[0] == ')':
                        # a trailing comma is legal Rust, but the project pins all(unix,) as invalid in its own
                        # tests: neither acceptance nor rejection is demanded
                        raise Unspecified('trailing comma')
                elif peek()[0] != ')':
                    raise Malformed('expected , or )')
            pos += 1
            if v == 'not':
                if len(args) != 1:
                    raise Malformed('not takes one predicate')
                return not args[0]
            return all(args) if v == 'all' else any(args)
        if peek()[0] == '=':
            pos += 1
            k2, s = peek()
            if k2 != 'str':
                raise Malformed('string expected')
            pos += 1
            return cfgs.get(v) == s
        return v in cfgs
    r = pred()
    if pos != len(toks):
        raise Malformed('trailing tokens')
    return r


def _cfg_chunk(chunk):
    from mesonbuild.cargo.cfg import eval_cfg
    from mesonbuild.utils.core import MesonException
    # several configurations share their key set and differ only in values (the result must depend on the values given NOW)
    CFGS = [{}, {'a': 'a'}, {'a': 'n'}, {'n': 'y', 'y': ''}, {'n': 'a', 'y': 'y'}, {'a': '', 'n': 'a', 'y': 'y'}, {'a': 'n', 'y': 'a y'}, {'a': 'y', 'y': 'a'}]
    fails, nt = [], 0
    for body in chunk:
        for cfgs in CFGS:
            try:
                exp = ref_eval(body, cfgs)
            except Malformed:
                exp = 'malformed'
            except Unspecified:
                continue
            try:
                got = eval_cfg('cfg(' + body + ')', cfgs)
            except MesonException:
                got = 'malformed'
            except Exception as ex:
                fails.append({'case': {'raw': 'cfg(' + body + ')', 'cfgs': cfgs}, 'stage': 'cfg', 'detail': f'internal error escapes: {type(ex).__name__}: {ex}'})
                continue
            if exp != 'malformed':
                nt += 1
            if got != exp:
                fails.append({'case': {'raw': 'cfg(' + body + ')', 'cfgs': cfgs}, 'stage': 'cfg', 'detail': f'eval_cfg gives {got!r}, reference gives {exp!r}'})
    # the outer parenthesis: cfg( that is never closed is a malformed expression (rejected), whatever the body
    for body in chunk[:200]:
        for raw in ('cfg(' + body, 'cfg(' + body + ') '):
            if raw.endswith(')'):
                continue
            try:
                got = eval_cfg(raw, CFGS[1])
            except MesonException:
                continue
            except Exception as ex:
                fails.append({'case': {'raw': raw, 'cfgs': CFGS[1]}, 'stage': 'cfg', 'detail': f'internal error escapes: {type(ex).__name__}: {ex}'})
                continue
            fails.append({'case': {'raw': raw, 'cfgs': CFGS[1]}, 'stage': 'cfg-unclosed', 'detail': f'eval_cfg({raw!r}) gives {got!r}: an unclosed cfg( expression is malformed and must be rejected'})
    return len(chunk) * len(CFGS), nt, fails


def run_cfg(tier, seed, jobs):
    alpha = ['a', 'n', 'y', ' ', '"', '(', ')', ',', '=']
    n = 5 if tier == 'quick' else 7
    words = ['a', 'n', 'y', 'all', 'any', 'not', ' ', '"', '(', ')', ',', '=']
    gen = itertools.chain(strings(alpha, n), (''.join(t) for k in range(1, (6 if tier == 'quick' else 7)) for t in itertools.product(words, repeat=k)))
    # the same predicates with every kind of white space between their tokens
    tmpl = [['all', '(', 'a', ',', 'n', ')'], ['any', '(', 'a', ',', 'y', ')'], ['not', '(', 'a', ')'], ['a', '=', '"a"'], ['all', '(', 'a', '=', '"n"', ',', 'not', '(', 'n', ')', ')'],
            ['any', '(', ')'], ['all', '(', ')'], ['a'], ['not', '(', 'any', '(', 'n', ',', 'y', '=', '"y"', ')', ')'],
            # the arity of not() — exactly one predicate — at the top and nested (longer than the exhaustive word bound of the quick tier)
            ['not', '(', ')'], ['not', '(', 'a', ',', 'n', ')'], ['not', '(', 'n', ',', 'a', ')'], ['not', '(', 'a', ',', 'n', ',', 'y', ')'], ['all', '(', 'not', '(', 'n', ',', 'a', ')', ')'],
            ['not', '(', 'not', '(', 'a', ')', ',', 'n', ')'], ['any', '(', 'a', ',', 'not', '(', 'a', ',', 'a', ')', ')'], ['not', '(', 'a', '=', '"a"', ',', 'n', ')'],
            ['all', '(', 'a', ',', 'n', ',', 'y', ')'], ['any', '(', 'n', ',', 'y', ',', 'a', ')'], ['all', '(', 'any', '(', 'n', ',', 'a', ')', ',', 'not', '(', 'n', ')', ')']]
    wss = ['', ' ', '\t', '\n', '\r\n', ' \t ', '\f', '\v', '  ']
    spaced = []
    for t in tmpl:
        for w in wss:
            spaced.append(w.join(t))
            spaced.append(w + (w or ' ').join(t) + w)
            for k in range(len(t) - 1):
                spaced.append(''.join(t[:k + 1]) + w + ''.join(t[k + 1:]) if w else ''.join(t))
    # identifiers glued by removing the separator are different predicates; the reference lexer decides what each text means
    gen = itertools.chain(gen, iter(sorted(set(spaced))))
    ev, nt, fails = pmap(_cfg_chunk, chunked(gen, 20000), jobs)
    return {'name': 'C20/bounded/eval_cfg==reference', 'function': 'eval_cfg', 'bound': f'all bodies of <= {n} characters over {alpha!r} and all bodies of <= {5 if tier == "quick" else 6} words over {words!r}, plus 20 predicates (the arity of not() among them) with blank / tab / newline / CRLF / form feed / vertical tab at every token boundary, x 8 configurations (several with the same names and different values, evaluated one after the other in one process)',
            'evaluations': ev, 'distinct_nontrivial': nt, 'rule': 'non-trivial: well-formed per the reference grammar', 'exhaustive': True, 'failures': fails}


_run0 = run


def run(REG, tier, seed, jobs):
    r = _run0(REG, tier, seed, jobs)
    r['parts'].append(run_cfg(tier, seed, jobs))
    return r


CHECKS = {
    'C20/bounded/SemVer.__init__(str)==SemVer-grammar': (_sv_chunk, lambda c: c['s']),
    'C20/bounded/SemVer-order==section-11': (_order_chunk, lambda c: (c['a'], c['b'])),
    'C20/bounded/cargo_parse==Cargo-rule': (_acc_chunk, lambda c: (c['req'], c['ver'])),
    'C20/bounded/eval_cfg==reference': (_cfg_chunk, lambda c: c['raw'][4:-1]),
}
