"""C08 bounded stand-in (native): the REAL lifecycle commands on real build directories — `meson setup --backend=none`,
`meson configure -D/-U`, option-file edits, `setup --reconfigure`, `setup --wipe`, injected failures — run in process
through mesonbuild.mesonmain, with the persisted state (coredata.dat read back from disk, cmd_line.txt) compared with a
reference model after every step.  Labelled bounded; never counted as proved."""
import contextlib, io, itertools, os, random, shutil, sys, tempfile
from bounded.util import chunked, pmap

MESON_BUILD = """project('life')
subproject('sub')
fs = import('fs')
if fs.exists(meson.current_source_dir() / 'FAIL')
  error('injected configuration failure')
endif
if fs.exists(meson.current_source_dir() / 'FAILLATE')
  meson.add_postconf_script(find_program('python3'), '-c', 'import sys; sys.exit(1)')
endif
"""
SUB_BUILD = "project('sub')\n"
SUB_OPTIONS = "option('level', type: 'string', value: 'sublevel', yield: true)\noption('mode', type: 'combo', choices: ['a', 'b', 'c'], value: 'b', yield: true)\n"
SUB_OPTIONS_EDITED = "option('level', type: 'string', value: 'sublevel', yield: true)\noption('mode', type: 'combo', choices: ['a', 'b', 'c', 'd'], value: 'd', yield: true)\n"


def options_text(spec):
    lines = []
    for name, (default, choices) in spec.items():
        if choices is None:
            lines.append(f"option('{name}', type: 'string', value: '{default}')")
        else:
            lines.append(f"option('{name}', type: 'combo', choices: {list(choices)!r}, value: '{default}')")
    return '\n'.join(lines) + '\n'


def meson(args):
    """run one meson command in process; -> exit code"""
    from mesonbuild import mesonmain, mlog
    buf = io.StringIO()
    try:
        with contextlib.redirect_stdout(buf), contextlib.redirect_stderr(buf):
            rc = mesonmain.run(list(args), 'meson.py')
    except SystemExit as e:
        rc = e.code if isinstance(e.code, int) else 1
    except Exception as e:           # an internal error is a failure of the command
        rc = 70
        buf.write(f'{type(e).__name__}: {e}')
    finally:
        try:
            mlog.shutdown()
        except Exception:
            pass
    return rc, buf.getvalue()[-600:]


def persisted(build, names):
    """the configuration as the next command will see it: the persisted coredata read back from disk by the real
    `meson configure` front end (mconf.Conf), which refreshes project options from the current option file"""
    from mesonbuild import mconf
    from mesonbuild.options import OptionKey
    buf = io.StringIO()
    with contextlib.redirect_stdout(buf), contextlib.redirect_stderr(buf):
        cd = mconf.Conf(build).coredata
    out = {}
    for n in names:
        k = OptionKey(n, '')
        out[n] = cd.optstore.get_value_for(k) if k in cd.optstore.options else None
    out['default_library'] = cd.optstore.get_value_for(OptionKey('default_library'))
    out['sub:default_library'] = cd.optstore.get_value_for('default_library', 'sub')
    out['sub:level'] = cd.optstore.get_value_for('level', 'sub')
    out['sub:mode'] = cd.optstore.get_value_for('mode', 'sub')
    return out


STEPS = [('conf', 'level', 'one'), ('conf', 'level', 'two'), ('conf', 'mode', 'a'), ('conf', 'mode', 'b'), ('conf-bad',), ('conf-sub', 'static'), ('conf-sub', 'both'),
         ('unset-sub',), ('conf-subopt', 'mine'), ('conf-subopt', 'one'), ('unset-subopt',), ('edit', 'level-default'), ('edit', 'mode-choices'), ('edit', 'add-extra'), ('edit', 'remove-extra'), ('edit', 'sub-mode-choices'), ('reconf',), ('reconf-fail',), ('reconf-fail-late',), ('wipe',),
         ('reconf-D', 'level', 'three'), ('conf-global', 'static')]


class Model:
    """reference: what each option's value must be after each command"""
    def __init__(self):
        self.file = {'level': ('one', None), 'mode': ('a', ('a', 'b'))}
        self.values = {'level': 'one', 'mode': 'a'}
        self.glob = 'shared'
        self.over = None
        self.sublevel = None          # explicit value of the yielding subproject option sub:level (None: it yields to level)
        self.given = {}

    def valid(self, name, v):
        ch = self.file[name][1]
        return ch is None or v in ch

    def expected(self):
        out = {n: self.values.get(n) for n in ('level', 'mode', 'extra')}
        out['default_library'] = self.glob
        out['sub:default_library'] = self.over if self.over is not None else self.glob
        out['sub:level'] = self.sublevel if self.sublevel is not None else self.values.get('level')
        out['sub:mode'] = self.values.get('mode')          # a yielding combo option of the subproject: always the parent's value
        return out

    def reconf(self, extra_given=()):
        """-> False if the command must fail"""
        newvals = {}
        for n, (d, ch) in self.file.items():
            if n in self.values and (ch is None or self.values[n] in ch):
                newvals[n] = self.values[n]
            else:
                newvals[n] = d
        for n, v in extra_given:
            if not self.valid(n, v):
                return False
            newvals[n] = v
        self.values = newvals
        for n, v in extra_given:
            self.given[n] = v
        return True

    def wipe(self):
        for n, v in self.given.items():
            if ':' not in n and n != 'default_library' and (n not in self.file or not self.valid(n, v)):
                return False
        self.values = {n: self.given.get(n, d) for n, (d, ch) in self.file.items()}
        self.glob = self.given.get('default_library', 'shared')
        self.over = self.given.get('sub:default_library')
        self.sublevel = self.given.get('sub:level')
        return True


def run_sequence(seq):
    """-> None or a description of the first divergence from the reference model"""
    m = Model()
    d = tempfile.mkdtemp(prefix='c08life')
    try:
        src, build = os.path.join(d, 'src'), os.path.join(d, 'build')
        os.makedirs(os.path.join(src, 'subprojects', 'sub'))
        open(os.path.join(src, 'meson.build'), 'w').write(MESON_BUILD)
        open(os.path.join(src, 'subprojects', 'sub', 'meson.build'), 'w').write(SUB_BUILD)
        open(os.path.join(src, 'subprojects', 'sub', 'meson.options'), 'w').write(SUB_OPTIONS)
        optfile = os.path.join(src, 'meson.options')
        open(optfile, 'w').write(options_text(m.file))
        rc, out = meson(['setup', '--backend=none', build, src])
        if rc != 0:
            return f'initial setup failed: {out[-300:]}'
        got = persisted(build, ['level', 'mode', 'extra'])
        if got != m.expected():
            return f'after setup: persisted {got}, expected {m.expected()}'
        for i, st in enumerate(seq):
            kind = st[0]
            if kind != 'edit':
                m.reconf()           # every command first refreshes the project options from the current option file
            before = persisted(build, ['level', 'mode', 'extra'])
            before_cmd = open(os.path.join(build, 'meson-private', 'cmd_line.txt')).read()
            must_succeed = True
            if kind == 'conf':
                ok_model = st[1] in m.values and m.valid(st[1], st[2])
                rc, out = meson(['configure', build, f'-D{st[1]}={st[2]}'])
                must_succeed = ok_model
                if ok_model:
                    m.values[st[1]] = st[2]
                    m.given[st[1]] = st[2]
            elif kind == 'conf-global':
                rc, out = meson(['configure', build, f'-Ddefault_library={st[1]}'])
                m.glob = st[1]
                m.given['default_library'] = st[1]
            elif kind == 'conf-bad':
                rc, out = meson(['configure', build, '-Dmode=zzz', '-Dlevel=never'])
                must_succeed = False
            elif kind == 'conf-sub':
                rc, out = meson(['configure', build, f'-Dsub:default_library={st[1]}'])
                m.over = st[1]
                m.given['sub:default_library'] = st[1]
            elif kind == 'conf-subopt':
                rc, out = meson(['configure', build, f'-Dsub:level={st[1]}'])
                m.sublevel = st[1]
                m.given['sub:level'] = st[1]
            elif kind == 'unset-subopt':
                rc, out = meson(['configure', build, '-Usub:level'])
                m.sublevel = None
                m.given.pop('sub:level', None)
            elif kind == 'unset-sub':
                rc, out = meson(['configure', build, '-Usub:default_library'])
                must_succeed = m.over is not None
                if m.over is not None:
                    m.over = None
                    m.given.pop('sub:default_library', None)
            elif kind == 'edit':
                if st[1] == 'level-default':
                    m.file['level'] = ('L2', None)
                elif st[1] == 'mode-choices':
                    m.file['mode'] = ('c', ('b', 'c'))
                elif st[1] == 'add-extra':
                    m.file['extra'] = ('x', None)
                elif st[1] == 'remove-extra':
                    m.file.pop('extra', None)
                elif st[1] == 'sub-mode-choices':
                    # the SUBPROJECT's option file changes the choice list of its yielding option: it keeps following the parent
                    open(os.path.join(src, 'subprojects', 'sub', 'meson.options'), 'w').write(SUB_OPTIONS_EDITED)
                    continue
                open(optfile, 'w').write(options_text(m.file))
                continue
            elif kind == 'reconf':
                rc, out = meson(['setup', '--reconfigure', build, src])
                must_succeed = m.reconf()
            elif kind == 'reconf-D':
                rc, out = meson(['setup', '--reconfigure', f'-D{st[1]}={st[2]}', build, src])
                must_succeed = m.reconf([(st[1], st[2])])
            elif kind == 'reconf-fail':
                open(os.path.join(src, 'FAIL'), 'w').write('x')
                rc, out = meson(['setup', '--reconfigure', '-Dlevel=lost', build, src])
                os.unlink(os.path.join(src, 'FAIL'))
                must_succeed = False
            elif kind == 'reconf-fail-late':
                # the configuration itself succeeds and is written out, THEN a post-configuration script fails: everything
                # persisted must be as before the command
                open(os.path.join(src, 'FAILLATE'), 'w').write('x')
                rc, out = meson(['setup', '--reconfigure', build, src])
                os.unlink(os.path.join(src, 'FAILLATE'))
                must_succeed = False
            elif kind == 'wipe':
                snapshot = (dict(m.values), m.glob, m.over, m.sublevel)
                rc, out = meson(['setup', '--wipe', build, src])
                must_succeed = m.wipe()
                if not must_succeed:
                    m.values, m.glob, m.over, m.sublevel = snapshot
            else:
                raise ValueError(kind)
            what = f'step {i} {st}'
            if kind == 'wipe' and not must_succeed:
                # --wipe is destructive by design: when the replay of the recorded command line fails, no configuration is
                # left, but the record itself must survive so that the user can correct the project and wipe again
                if rc == 0:
                    return f'{what}: the wipe succeeded although a recorded value is no longer valid'
                rec = open(os.path.join(build, 'meson-private', 'cmd_line.txt')).read()
                for n, v in m.given.items():
                    if f'{n} = {v}' not in rec:
                        return f'{what}: after the failed wipe the recorded command line lost {n}={v}'
                return None
            if must_succeed and rc != 0:
                return f'{what}: the command failed although it is valid: {out[-300:]}'
            if not must_succeed and rc == 0:
                return f'{what}: the command succeeded although it must be rejected'
            try:
                got = persisted(build, ['level', 'mode', 'extra'])
            except Exception as e:
                return f'{what}: the persisted state cannot be loaded afterwards: {type(e).__name__}: {e}'
            if rc != 0:
                if got != before:
                    return f'{what}: the command failed but persisted values changed from {before} to {got}'
                if kind != 'wipe' and open(os.path.join(build, 'meson-private', 'cmd_line.txt')).read() != before_cmd:
                    return f'{what}: the command failed but the recorded command line changed'
                continue
            if got != m.expected():
                return f'{what}: persisted {got}, the reference model gives {m.expected()}'
        return None
    finally:
        shutil.rmtree(d, ignore_errors=True)


# ---- a wipe changes nothing: `setup --wipe` re-derives the configuration from the recorded command lines, so every option has
# the value it had before; and `setup --wipe -Dx=v` ends like `configure -Dx=v` followed by a plain wipe.  No reference model:
# the state before the wipe is the oracle.  The assignments interact (buildtype expands into debug / optimization; a top-level
# project option has the two spellings mode and :mode).
ASSIGN = ['-Dbuildtype=release', '-Dbuildtype=debug', '-Ddebug=true', '-Ddebug=false', '-Doptimization=1', '-Dmode=b', '-D:mode=c']
WNAMES = ['buildtype', 'debug', 'optimization', 'mode']


def _values(build):
    from mesonbuild import mconf
    from mesonbuild.options import OptionKey
    buf = io.StringIO()
    with contextlib.redirect_stdout(buf), contextlib.redirect_stderr(buf):
        cd = mconf.Conf(build).coredata
    return {n: cd.optstore.get_value_for(OptionKey(n, '') if n == 'mode' else OptionKey(n)) for n in WNAMES}


def run_wipe_sequence(seq):
    first, rest, last = seq
    d = tempfile.mkdtemp(prefix='c08wipe')
    try:
        src, build = os.path.join(d, 'src'), os.path.join(d, 'build')
        os.makedirs(src)
        open(os.path.join(src, 'meson.build'), 'w').write("project('w')\n")
        open(os.path.join(src, 'meson.options'), 'w').write("option('mode', type: 'combo', choices: ['a', 'b', 'c'], value: 'a')\n")
        rc, out = meson(['setup', '--backend=none', *first, build, src])
        if rc != 0:
            return f'setup {first} failed: {out[-200:]}'
        for a in rest:
            rc, out = meson(['configure', build, a])
            if rc != 0:
                return f'configure {a} failed: {out[-200:]}'
        before = _values(build)
        rc, out = meson(['setup', '--wipe', build, src])
        if rc != 0:
            return f'setup --wipe failed: {out[-200:]}'
        after = _values(build)
        if after != before:
            return f'setup {list(first)}; configure {list(rest)}: the options were {before}, after `setup --wipe` they are {after}'
        if last is not None:
            keep = os.path.join(d, 'keep')
            shutil.copytree(build, keep)
            rc, out = meson(['configure', build, last])
            if rc != 0:
                return f'configure {last} failed: {out[-200:]}'
            want = _values(build)
            shutil.rmtree(build)
            shutil.copytree(keep, build)
            rc, out = meson(['setup', '--wipe', last, build, src])
            if rc != 0:
                return f'setup --wipe {last} failed: {out[-200:]}'
            got = _values(build)
            if got != want:
                return f'setup {list(first)}; configure {list(rest)}: `configure {last}` gives {want}, `setup --wipe {last}` gives {got}'
            rc, out = meson(['setup', '--wipe', build, src])
            again = _values(build)
            if rc != 0 or again != got:
                return f'setup {list(first)}; configure {list(rest)}; setup --wipe {last}: the options were {got}, after another plain `setup --wipe` they are {again}'
        return None
    finally:
        shutil.rmtree(d, ignore_errors=True)


def _wipe_chunk(chunk):
    fails, nt = [], 0
    for seq in chunk:
        nt += 1
        try:
            bad = run_wipe_sequence(seq)
        except Exception as e:
            bad = f'harness: {type(e).__name__}: {e}'
        if bad:
            fails.append({'case': {'setup': list(seq[0]), 'configure': list(seq[1]), 'wipe_with': seq[2]}, 'stage': 'wipe', 'detail': bad})
    return len(chunk), nt, fails


def wipe_sequences(tier, rnd):
    out = []
    for a in ASSIGN:
        out.append(((a,), (), None))
        for b in ASSIGN:
            out.append(((a,), (b,), None))
            out.append(((a,), (), b))
            out.append(((), (a, b), None))
            if a.split('=')[0] != b.split('=')[0]:
                out.append(((a, b), (), None))
    tri = [((a,), (b, c), None) for a in ASSIGN for b in ASSIGN for c in ASSIGN] + [((a,), (b,), c) for a in ASSIGN for b in ASSIGN for c in ASSIGN]
    out += tri if tier != 'quick' else rnd.sample(tri, 80)
    return out


# ---- an option file that changes the TYPE of an option, or disappears altogether
RETYPE = ['string-to-integer', 'string-to-combo', 'combo-to-string', 'option-file-deleted', 'option-file-deleted-in-subproject']


def run_retype(kind):
    from mesonbuild.options import OptionKey
    d = tempfile.mkdtemp(prefix='c08retype')
    try:
        src, build = os.path.join(d, 'src'), os.path.join(d, 'build')
        os.makedirs(os.path.join(src, 'subprojects', 'sub'))
        open(os.path.join(src, 'meson.build'), 'w').write("project('r')\nsubproject('sub')\n")
        open(os.path.join(src, 'subprojects', 'sub', 'meson.build'), 'w').write("project('sub')\n")
        optfile = os.path.join(src, 'meson.options') if kind != 'option-file-deleted-in-subproject' else os.path.join(src, 'subprojects', 'sub', 'meson.options')
        sp = '' if kind != 'option-file-deleted-in-subproject' else 'sub'
        first = "option('o', type: 'combo', choices: ['a', 'b'], value: 'a')\n" if kind == 'combo-to-string' else "option('o', type: 'string', value: 'abc')\n"
        open(optfile, 'w').write(first + "option('keep', type: 'string', value: 'k')\n")
        rc, out = meson(['setup', '--backend=none', build, src])
        if rc != 0:
            return f'setup failed: {out[-200:]}'

        def value(name):
            from mesonbuild import coredata as cdata
            cd = cdata.load(build)               # what the last command persisted, as it is (no refresh from the option file)
            k = OptionKey(name, sp)
            return cd.optstore.get_value_for(k) if k in cd.optstore.options else None
        if kind.startswith('option-file-deleted'):
            os.unlink(optfile)
        else:
            second = {'string-to-integer': "option('o', type: 'integer', value: 3)\n", 'string-to-combo': "option('o', type: 'combo', choices: ['x', 'y'], value: 'y')\n",
                      'combo-to-string': "option('o', type: 'string', value: 'free')\n"}[kind]
            open(optfile, 'w').write(second + "option('keep', type: 'string', value: 'k')\n")
        for n in (1, 2):
            rc, out = meson(['setup', '--reconfigure', build, src])
            if rc != 0:
                return f'reconfigure #{n} after the edit failed: {out[-250:]}'
        v = value('o')
        pre = (sp + ':') if sp else ''
        if kind.startswith('option-file-deleted'):
            if v is not None:
                return f'the option file is gone but the option o still exists with value {v!r}'
            return None
        if kind == 'string-to-integer':
            if not isinstance(v, int) or isinstance(v, bool):
                return f'the option is an integer option now, its value is {v!r}'
            rc, out = meson(['configure', build, f'-D{pre}o=notanumber'])
            if rc == 0:
                return 'configure -Do=notanumber was accepted for an integer option'
        elif kind == 'string-to-combo':
            if v not in ('x', 'y'):
                return f'the option is a combo of x / y now, its value is {v!r}'
            rc, out = meson(['configure', build, f'-D{pre}o=nonsense'])
            if rc == 0:
                return 'configure -Do=nonsense was accepted for a combo option'
        else:
            rc, out = meson(['configure', build, f'-D{pre}o=anything goes'])
            if rc != 0 or value('o') != 'anything goes':
                return f'the option is a free string now, but configure -Do="anything goes" gives rc={rc}, value {value("o")!r}'
        if value('keep') != 'k':
            return f'the untouched option changed to {value("keep")!r}'
        return None
    finally:
        shutil.rmtree(d, ignore_errors=True)


def _retype_chunk(chunk):
    fails, nt = [], 0
    for kind in chunk:
        nt += 1
        try:
            bad = run_retype(kind)
        except Exception as e:
            bad = f'harness: {type(e).__name__}: {e}'
        if bad:
            fails.append({'case': {'kind': kind}, 'stage': 'retype', 'detail': bad})
    return len(chunk), nt, fails


def _life_chunk(chunk):
    fails, nt = [], 0
    for seq in chunk:
        nt += len(seq) >= 2
        try:
            bad = run_sequence(seq)
        except Exception as e:
            bad = f'harness: {type(e).__name__}: {e}'
        if bad:
            fails.append({'case': {'sequence': [list(s) for s in seq]}, 'stage': 'lifecycle', 'detail': bad})
    return len(chunk), nt, fails


def run(REG, tier, seed, jobs):
    rnd = random.Random(seed)
    seqs = [(s,) for s in STEPS]
    seqs += list(itertools.product(STEPS, repeat=2))
    if tier == 'quick':
        seqs += [tuple(rnd.choice(STEPS) for _ in range(rnd.randint(3, 6))) for _ in range(700)]
    else:
        seqs += list(itertools.product(STEPS, repeat=3)) + [tuple(rnd.choice(STEPS) for _ in range(rnd.randint(4, 9))) for _ in range(6000)]
    # directed histories that ordinary use does not produce
    seqs += [(('conf', 'level', 'two'), ('reconf-fail-late',), ('reconf',)), (('conf-sub', 'static'), ('conf', 'mode', 'b'), ('reconf-fail-late',)),
             (('edit', 'mode-choices'), ('reconf',), ('conf', 'mode', 'b'), ('reconf',)), (('edit', 'sub-mode-choices'), ('reconf',), ('conf', 'mode', 'b')),
             (('conf', 'level', 'one'), ('edit', 'level-default'), ('reconf',), ('wipe',)),
             (('conf-sub', 'static'), ('wipe',)), (('conf-sub', 'static'), ('unset-sub',), ('wipe',)),
             (('edit', 'mode-choices'), ('reconf',), ('conf', 'mode', 'b'), ('wipe',)),
             (('conf', 'mode', 'b'), ('edit', 'mode-choices'), ('reconf-fail',), ('reconf',)),
             (('edit', 'add-extra'), ('reconf',), ('edit', 'remove-extra'), ('reconf',), ('wipe',)),
             (('conf-global', 'static'), ('conf-sub', 'both'), ('unset-sub',), ('reconf',)),
             (('reconf-D', 'level', 'three'), ('edit', 'level-default'), ('wipe',)),
             (('conf-subopt', 'mine'), ('unset-subopt',), ('conf', 'level', 'two')), (('conf-subopt', 'one'), ('conf', 'level', 'two'), ('wipe',)),
             (('conf-subopt', 'mine'), ('reconf',), ('unset-subopt',), ('reconf',)),
             # an option the user has given a value is REMOVED from the option file: it vanishes, and the build directory goes on working
             (('edit', 'add-extra'), ('reconf',), ('conf', 'extra', 'y'), ('edit', 'remove-extra'), ('reconf',), ('reconf',)),
             (('edit', 'add-extra'), ('reconf',), ('conf', 'extra', 'y'), ('edit', 'remove-extra'), ('reconf',), ('wipe',)),
             (('edit', 'add-extra'), ('reconf',), ('conf', 'extra', 'y'), ('edit', 'remove-extra'), ('conf', 'level', 'two'), ('wipe',))]
    ev, nt, fails = pmap(_life_chunk, chunked(iter(seqs), 8), jobs)
    rev_, rnt, rfails = pmap(_retype_chunk, chunked(iter(RETYPE), 1), jobs)
    rpart = {'name': 'C08/bounded/retyped-or-deleted-option-file', 'function': 'meson setup; option-file edit; setup --reconfigure twice; configure -D (in process, --backend=none)',
             'bound': f'{len(RETYPE)} edits: an option changes its type (string -> integer, string -> combo, combo -> string), the option file of the project / of a subproject is deleted; afterwards the option behaves as declared NOW (or is gone), every reconfigure succeeds, other options are untouched',
             'evaluations': rev_, 'distinct_nontrivial': rnt, 'rule': 'every edit', 'exhaustive': True, 'failures': rfails}
    ws = wipe_sequences(tier, rnd)
    wev, wnt, wfails = pmap(_wipe_chunk, chunked(iter(ws), 4), jobs)
    wpart = {'name': 'C08/bounded/wipe-changes-nothing', 'function': 'meson setup -D...; configure -D...; setup --wipe [-D] (in process, --backend=none)',
             'bound': f'{len(ws)} histories: setup with 0-2 and configure with 0-2 of {len(ASSIGN)} interacting assignments ({", ".join(ASSIGN)}), then a plain `setup --wipe` (every option as before) and `setup --wipe -Dx` (as `configure -Dx`, and stable under another wipe)',
             'evaluations': wev, 'distinct_nontrivial': wnt, 'rule': 'every history', 'exhaustive': tier != 'quick', 'failures': wfails}
    return {'parts': [rpart, wpart, {'name': 'C08/bounded/real-lifecycle-vs-reference-model', 'function': 'meson setup / configure / --reconfigure / --wipe (in process, --backend=none)',
                       'bound': f'{len(seqs)} command sequences over {len(STEPS)} step kinds (configure -D valid/invalid/equal to current, -Dsub:/-Usub: override of a builtin option and of a yielding project option, option-file edits, reconfigure with/without -D, injected failure, wipe), persisted coredata and cmd_line.txt compared with a reference model after every step',
                       'evaluations': ev, 'distinct_nontrivial': nt, 'rule': 'non-trivial: at least two steps', 'exhaustive': False, 'failures': fails}]}


CHECKS = {'C08/bounded/retyped-or-deleted-option-file': (_retype_chunk, lambda c: c['kind']),
          'C08/bounded/wipe-changes-nothing': (_wipe_chunk, lambda c: (tuple(c['setup']), tuple(c['configure']), c['wipe_with'])),
          'C08/bounded/real-lifecycle-vs-reference-model': (_life_chunk, lambda c: tuple(tuple(s) for s in c['sequence']))}
