"""helpers of the bounded stand-in layer (native, /venv/bin/python)"""
import itertools, multiprocessing as mp, random


def strings(alphabet, maxlen):
    for n in range(maxlen + 1):
        for t in itertools.product(alphabet, repeat=n):
            yield ''.join(t)


def chunked(it, n):
    buf = []
    for x in it:
        buf.append(x)
        if len(buf) >= n:
            yield buf
            buf = []
    if buf:
        yield buf


def pmap(fn, chunks, jobs):
    """fn(chunk) -> (evaluations, nontrivial, failures)"""
    ctx = mp.get_context('fork')
    ev = nt = 0
    fails = []
    with ctx.Pool(jobs) as pool:
        for e, n, f in pool.imap_unordered(fn, chunks, chunksize=1):
            ev += e
            nt += n
            fails.extend(f)
    return ev, nt, fails[:50]
