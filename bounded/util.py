"""helpers of the bounded stand-in layer (native, /venv/bin/python)"""
import itertools, multiprocessing as mp, random


def strings(alphabet, maxlen):
    for n in range(maxlen + 1):
        for t in itertools.product(alphabet, repeat=n):
            yield ''.join(t)


def chunked(it, n):
    buf = []
    for x in it:
        buf.append(x)
        if len(buf) >= n:
            yield buf
            buf = []
    if buf:
        yield buf


def pmap(fn, chunks, jobs):
    """fn(chunk) -> (evaluations, nontrivial, failures).  The chunks may come from a huge generator: at most 3 x jobs of them are in
    flight at any time (multiprocessing's own imap reads the whole input ahead and exhausts memory in the thorough tier)."""
    ctx = mp.get_context('fork')
    ev = nt = 0
    fails = []
    window = max(2, 3 * jobs)
    it = iter(chunks)
    with ctx.Pool(jobs) as pool:
        pending = []

        def drain(block):
            nonlocal ev, nt
            keep = []
            for r in pending:
                if r.ready() or block:
                    e, n, f = r.get()
                    ev += e
                    nt += n
                    if len(fails) < 200:
                        fails.extend(f)
                    block = False
                else:
                    keep.append(r)
            pending[:] = keep
        for ch in it:
            pending.append(pool.apply_async(fn, (ch,)))
            while len(pending) >= window:
                drain(True)
        while pending:
            drain(True)
    return ev, nt, fails[:50]
