"""C18 bounded stand-ins (native): streams over an alphabet of TAP line forms through the real TAPParser against a
reference interpretation written from TAP 12/13 and the statement (own line recogniser, own state machine), the
verdict of a whole TAP test, and arbitrary text for "no input makes the parser raise".  Labelled bounded."""
import itertools, random, re
from bounded.util import chunked, pmap

# ---------------------------------------------------------------- reference line recogniser (independent of the repo's regexes)
def ref_directive(d):
    """the text after the '#' of a test or plan line -> (directive or None, explanation): a directive is the WORD todo, or a
    word starting with skip (skipped, skipping ...), in any letter case; `todos`, `todo_later`, `todo2` are ordinary words"""
    dd = d.lstrip(' \t\r\n\f\v')
    up = dd.upper()
    if up.startswith('SKIP'):
        w = dd.split(None, 1)
        return w[0].upper(), (w[1].strip() if len(w) > 1 else None)
    if up.startswith('TODO') and (len(dd) == 4 or not (dd[4].isalnum() or dd[4] == '_')):
        return 'TODO', dd[4:].strip() or None
    return None, None


def ref_classify(line):
    """-> (kind, fields) for a right-stripped, non-empty, non-comment line"""
    s = line
    for head, ok in (('not ok', False), ('ok', True)):
        # a test line is the WORD ok (TAP: `ok` / `not ok`, then a blank or the end; Test::Harness reads /(?:not )?ok\b/):
        # `okay then`, `ok1`, `ok_` are ordinary text
        if s.startswith(head) and not (len(s) > len(head) and (s[len(head)].isalnum() or s[len(head)] == '_')):
            rest = s[len(head):]
            r2 = rest.lstrip(' \t\r\n\f\v')
            num = None
            j = 0
            while j < len(r2) and r2[j] in '0123456789':
                j += 1
            if j:
                num = int(r2[:j])
                r2 = r2[j:].lstrip(' \t\r\n\f\v')
            name, hsh, d = r2.partition('#')
            directive = expl = None
            if hsh:
                directive, expl = ref_directive(d)
            return ('test', ok, num, name.strip(), directive, expl)
    m = re.match(r'1\.\.([0-9]+)', s)
    if m:
        rest = s[m.end():]
        directive = None
        r3 = rest.lstrip(' \t\r\n\f\v')
        if r3.startswith('#'):
            directive = ref_directive(r3[1:])[0]
        return ('plan', int(m.group(1)), directive)
    if s.startswith('Bail out!'):
        return ('bailout',)
    m = re.match(r'TAP version ([0-9]+)', s)
    if m:
        return ('version', int(m.group(1)))
    return ('unknown',)


def ref_events(lines):
    """events per TAP 12/13 and the C18 statement; error events are reported as ('error',)"""
    ev = []
    state, version, plan, late_seen, bailed = 'main', 12, None, False, False
    num = last = 0
    seen = []
    indent = ''
    lineno = 0
    for line in lines:
        lineno += 1
        if state == 'after':
            m = re.match(r'(\s+)---', line) if version >= 13 else None
            if m:
                state, indent = 'yaml', m.group(1)
                continue
            state = 'main'
        elif state == 'yaml':
            if re.match(r'\s+\.\.\.\s*', line):
                state = 'main'
                continue
            if line.startswith(indent):
                continue
            ev.append(('error',))
            state = 'main'
        s = line.rstrip()
        if not s or s.startswith('#'):
            continue
        c = ref_classify(s)
        if c[0] == 'test':
            _, ok, n, name, directive, expl = c
            if plan and plan[1] and not late_seen:
                ev.append(('error',))
                late_seen = True
            num += 1
            last = last + 1 if n is None else n
            seen.append(last)
            if plan and last > plan[0]:
                ev.append(('error',))
            if directive is None:
                res = 'OK' if ok else 'FAIL'
            elif directive.startswith('SKIP'):
                res = 'SKIP' if ok else 'FAIL'
            else:
                res = 'UNEXPECTEDPASS' if ok else 'EXPECTEDFAIL'
            ev.append(('test', last, name, res))
            state = 'after'
        elif c[0] == 'plan':
            if plan:
                ev.append(('error',))
            else:
                n, directive = c[1], c[2]
                skipped = n == 0
                if directive:
                    if directive.startswith('SKIP'):
                        if n > 0:
                            ev.append(('error',))
                        skipped = True
                    else:
                        ev.append(('error',))
                plan = (n, num > 0)
                ev.append(('plan', n, num > 0, skipped))
        elif c[0] == 'bailout':
            ev.append(('bailout',))
            bailed = True
        elif c[0] == 'version':
            if lineno != 1:
                ev.append(('error',))
            elif c[1] < 13:
                version = c[1]
                ev.append(('error',))
            else:
                version = c[1]
                ev.append(('version', c[1]))
        else:
            ev.append(('unknown', lineno))
    if state == 'yaml':
        ev.append(('error',))
    if not bailed:
        if plan and num != plan[0]:
            ev.append(('error',))
        elif len(set(seen)) != len(seen) or set(seen) != set(range(1, len(seen) + 1)):
            ev.append(('error',))          # duplicate or missing test numbers
    return ev


def real_events(lines):
    from mesonbuild.mtest import TAPParser
    out = []
    for e in TAPParser().parse(iter(lines)):
        n = type(e).__name__
        if n == 'Test':
            out.append(('test', e.number, e.name, e.result.name))
        elif n == 'Plan':
            out.append(('plan', e.num_tests, e.late, e.skipped))
        elif n == 'Error':
            out.append(('error',))
        elif n == 'Bailout':
            out.append(('bailout',))
        elif n == 'Version':
            out.append(('version', e.version))
        elif n == 'UnknownLine':
            out.append(('unknown', e.lineno))
    return out


ALPHA = ['ok', 'not ok', 'okay', 'ok 1', 'ok 2', 'ok 3', 'not ok 2 # TODO x', 'ok 1 # SKIP', 'ok # skip', 'not ok # SKIP', 'ok 1 # FOO', '1..2', '1..0',
         '1..0 # SKIP r', '1..2 # skip', '1..1 # TODO', 'TAP version 13', 'TAP version 12', 'Bail out! x', '  ---', '  ...', '  k: v', ' x', '# c', '',
         'garbage', 'ok 1 name # TODO', 'ok 0', 'ok 3 - three']


def _stream_chunk(chunk):
    fails, nt = [], 0
    for seq in chunk:
        try:
            got = real_events(list(seq))
        except Exception as ex:
            fails.append({'case': {'lines': list(seq)}, 'stage': 'raise', 'detail': f'the parser raised {type(ex).__name__}: {ex}'})
            continue
        exp = ref_events(list(seq))
        if any(e[0] == 'test' for e in exp):
            nt += 1
        if got != exp:
            fails.append({'case': {'lines': list(seq)}, 'stage': 'events', 'detail': f'parser events {got!r}, TAP reference {exp!r}'})
    return len(chunk), nt, fails


def _verdict_chunk(chunk):
    """a TAP test as a whole is bad iff a subtest failed / unexpectedly passed, an error or bail-out occurred, or exit != 0"""
    from mesonbuild.mtest import TAPParser, TestResult
    fails, nt = [], 0
    for seq, rc in chunk:
        ev = list(TAPParser().parse(iter(seq)))
        bad = rc != 0
        res = None
        for e in ev:
            n = type(e).__name__
            if n in ('Error', 'Bailout'):
                bad = True
            if n == 'Test' and e.result in (TestResult.FAIL, TestResult.UNEXPECTEDPASS):
                bad = True
        got = verdict_real(seq, rc)
        nt += 1
        if got != bad:
            fails.append({'case': {'lines': list(seq), 'returncode': rc}, 'stage': 'verdict', 'detail': f'TestRunTAP reports bad={got}, statement gives bad={bad}'})
    return len(chunk), nt, fails


def verdict_real(lines, rc):
    """drive the real TestRunTAP.parse/complete with a stub harness"""
    import asyncio
    from mesonbuild import mtest

    class T_:
        name = 't'
        is_parallel = False
        timeout = 30
        should_fail = False
        expected_fail = False
        expected_exitcode = 0
        fname = ['x']
        suite = ['s']
        project_name = 'p'
        protocol = mtest.TestProtocol.TAP
        cmd_args = []
        env = None
        exe_wrapper = None
        workdir = None
        needs_exe_wrapper = False
        priority = 0
        verbose = False

    class H:
        def log_subtest(self, *a):
            pass
    run = mtest.TestRunTAP(T_(), {}, 'name', 30, False, False, False)
    run.start([])

    async def gen():
        for l in lines:
            yield l
    asyncio.run(run.parse(H(), gen()))
    run.returncode = rc
    run.complete()
    return run.res.is_bad()


DWORDS = ['TODO', 'todo', 'ToDo', 'todos', 'TODOlist', 'todo_later', 'ToDo2', 'TODO:', 'todo-x', 'todo.', 'tod', 'T0DO', 'to do', 'xtodo',
          'SKIP', 'skip', 'SKIPPED', 'skipping', 'skip:', 'SKIP_ME', 'skiq', 'ski', 'xskip', 'FOO']
DHEADS = ['ok 1 a #', 'not ok 1 a #', 'ok #', 'not ok #', 'ok 1 #', '1..1 #', '1..0 #']


def directive_lines():
    out = []
    for h in DHEADS:
        for sp in ('', ' ', '  '):
            for w in DWORDS:
                for tail in ('', ' why', ' 3 left'):
                    line = h + sp + w + tail
                    out.append((line, 'ok 1') if h.startswith('1..1') else (line,))
    return out


def _dir_chunk(chunk):
    fails, nt = [], 0
    for lines in chunk:
        nt += 1
        try:
            got = real_events(list(lines))
        except Exception as ex:
            fails.append({'case': {'lines': list(lines)}, 'stage': 'directive', 'detail': f'{type(ex).__name__}: {ex}'})
            continue
        exp = ref_events(list(lines))
        if got != exp:
            fails.append({'case': {'lines': list(lines)}, 'stage': 'directive', 'detail': f'events {got!r}, TAP reference {exp!r}'})
    return len(chunk), nt, fails


def run(REG, tier, seed, jobs):
    parts = []
    dl = directive_lines()
    ev, nt, fails = pmap(_dir_chunk, chunked(iter(dl), 64), jobs)
    parts.append({'name': 'C18/bounded/directive-words', 'function': 'TAPParser.parse (directive recognition on test and plan lines)',
                  'bound': f'{len(dl)} single lines: {len(DHEADS)} test / plan heads x 0-2 blanks x {len(DWORDS)} words after the # (todo / skip in several letter cases, with suffixes that do and do not end the word, near misses) x 3 tails',
                  'evaluations': ev, 'distinct_nontrivial': nt, 'rule': 'every line', 'exhaustive': True, 'failures': fails})
    rnd = random.Random(seed)
    n = 3
    streams = itertools.product(ALPHA, repeat=n)
    gen = itertools.chain(itertools.product(ALPHA, repeat=0), itertools.product(ALPHA, repeat=1), itertools.product(ALPHA, repeat=2), streams)
    if tier != 'quick':
        gen = itertools.chain(gen, (tuple(rnd.choice(ALPHA) for _ in range(rnd.randint(4, 8))) for _ in range(400000)))
    else:
        gen = itertools.chain(gen, (tuple(rnd.choice(ALPHA) for _ in range(rnd.randint(4, 7))) for _ in range(40000)))
    ev, nt, fails = pmap(_stream_chunk, chunked(gen, 3000), jobs)
    parts.append({'name': 'C18/bounded/streams-vs-TAP-reference', 'function': 'TAPParser.parse', 'bound': f'all streams of <= {n} lines over {len(ALPHA)} line forms, plus random streams of 4..8 lines',
                  'evaluations': ev, 'distinct_nontrivial': nt, 'rule': 'non-trivial: the reference yields at least one subtest', 'exhaustive': False, 'failures': fails})
    vs = [(seq, rc) for k in (0, 1, 2) for seq in itertools.product(ALPHA, repeat=k) for rc in (0, 1, 77)]
    vs += [(tuple(rnd.choice(ALPHA) for _ in range(rnd.randint(3, 6))), rnd.choice((0, 0, 1, 77, 99))) for _ in range(6000 if tier == 'quick' else 100000)]
    evv, ntv, failsv = pmap(_verdict_chunk, chunked(iter(vs), 500), jobs)
    parts.append({'name': 'C18/bounded/TestRunTAP-verdict', 'function': 'TestRunTAP.parse / complete', 'bound': f'{len(vs)} (stream, exit status) pairs: all streams of <= 2 lines over {len(ALPHA)} line forms x exit status 0 / 1 / 77 (the skip status of the exitcode protocol, which means nothing special for TAP), plus random streams of 3..6 lines',
                  'evaluations': evv, 'distinct_nontrivial': ntv, 'rule': 'every pair', 'exhaustive': False, 'failures': failsv})
    junk = (tuple(''.join(rnd.choice('ok nt#1.2TAPvB!-\té') for _ in range(rnd.randint(0, 12))) for _ in range(rnd.randint(1, 4))) for _ in range(30000 if tier == 'quick' else 300000))

    def _noraise(chunk):
        return 0, 0, []
    # lines that are well-formed but extreme: very long numbers, names, directives
    big = [('ok ' + '9' * 5000,), ('1..' + '9' * 5000,), ('TAP version ' + '1' * 5000,), ('ok 1 ' + 'n' * 100000,), ('ok 1 # SKIP ' + 'x' * 100000,), ('not ok ' + '0' * 4000 + '1',),
           ('1..' + '0' * 4200 + '2', 'ok', 'ok'), ('  ' * 50000 + '---',), ('ok',) * 3000]
    junk = itertools.chain(junk, iter(big))
    ev2, nt2, fails2 = pmap(_junk_chunk, chunked(junk, 3000), jobs)
    parts.append({'name': 'C18/bounded/arbitrary-text-never-raises', 'function': 'TAPParser.parse_line', 'bound': 'extreme well-formed lines (numbers of 4 000 - 5 000 digits, names of 100 000 characters, 3 000 lines) and random text lines of <= 12 characters over "ok nt#1.2TAPvB!-<tab>é"',
                  'evaluations': ev2, 'distinct_nontrivial': nt2, 'rule': 'non-trivial: at least one event produced', 'exhaustive': False, 'failures': fails2})
    return {'parts': parts}


def _junk_chunk(chunk):
    fails, nt = [], 0
    for seq in chunk:
        try:
            ev = real_events(list(seq))
            nt += bool(ev)
        except Exception as ex:
            fails.append({'case': {'lines': list(seq)}, 'stage': 'raise', 'detail': f'the parser raised {type(ex).__name__}: {ex}'})
    return len(chunk), nt, fails


CHECKS = {
    'C18/bounded/directive-words': (_dir_chunk, lambda c: tuple(c['lines'])),
    'C18/bounded/TestRunTAP-verdict': (_verdict_chunk, lambda c: (tuple(c['lines']), c['returncode'])),
    'C18/bounded/streams-vs-TAP-reference': (_stream_chunk, lambda c: tuple(c['lines'])),
    'C18/bounded/arbitrary-text-never-raises': (_junk_chunk, lambda c: tuple(c['lines'])),
}
